#!/venv/bin/python
"""record_fix.py <prop> <rule> <key> <commit|known> <what_fails> <witness>: append an entry to known_findings.json
(hand-run after a violation was reproduced and repaired; checks never write this file)."""
import json, sys
prop, rule, key, commit, what, witness = sys.argv[1:7]
p = "/verif/known_findings.json"
d = json.load(open(p))
d["findings"].append({"property": prop, "rule": rule, "key": key, "construct": key.split("|", 2)[2], "what_fails": what, "witness": witness,
                      "status": "known" if commit == "known" else f"fixed:{commit}"})
json.dump(d, open(p, "w"), indent=1)
print(len(d["findings"]), "entries")
