#!/bin/bash
# pinned suite (58 tests) + the repository's own script runner; run after every fix: commit in /repo
cd /repo && /venv/bin/python -m pytest -q -p no:cacheprovider --timeout=900 --continue-on-collection-errors 2>&1 | tail -1
cd /repo && /venv/bin/python tests/main.py 2>&1 | tail -1
