#!/bin/bash
# usage: verify_seed_at_head.sh <seed id>...  -- in a scratch worktree of /repo HEAD: pinned tests pass with the patch, demo fails with it and passes without
WT=/tmp/wt_verify
git -C /repo worktree remove --force $WT 2>/dev/null
git -C /repo worktree add -q --detach $WT HEAD || exit 9
for ID in "$@"; do
  D=/verif/seeded/$ID
  cd $WT; git checkout -q -- .; git clean -fdq
  if ! git apply $D/patch.diff 2>/dev/null; then echo "$ID: patch does not apply to HEAD"; continue; fi
  T=$(PYTHONPATH=$WT /venv/bin/python -m pytest -q -p no:cacheprovider --timeout=900 tests/unit/test_literal_value.py tests/unit/test_match_template.py tests/unit/test_pattern_matching.py tests/unit/test_pattern_zeroormore_zeroorone_zeroormany.py tests/integration/test_imports.py tests/integration/test_tracing.py 2>&1 | tail -1)
  cp $D/demo.py $WT/_demo.py
  (PYTHONPATH=$WT timeout 900 /venv/bin/python _demo.py >/dev/null 2>&1); W=$?
  git checkout -q -- .
  (PYTHONPATH=$WT timeout 900 /venv/bin/python _demo.py >/dev/null 2>&1); WO=$?
  rm -f $WT/_demo.py
  echo "$ID: tests=[$T] demo_with_patch=$W demo_without_patch=$WO"
done
cd /; git -C /repo worktree remove --force $WT; git -C /repo worktree prune
