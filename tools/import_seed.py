#!/venv/bin/python
"""import_seed.py <PROP> <k | k:dstk> <needs...>: copy a confirmed seeded change from /tmp/seed_<PROP> into /verif/seeded/<PROP>-<k>/"""
import json, os, shutil, subprocess, sys
P, K = sys.argv[1], sys.argv[2]
DK = K
if ":" in K:   # "<source k>:<destination k>", e.g. 1:3 for the first change of the second round
    K, DK = K.split(":")
needs = " ".join(sys.argv[3:])
src = f"/tmp/seed{os.environ.get('ROUND', '')}_{P}"
dst = f"/verif/seeded/{P}-{DK}"
os.makedirs(dst, exist_ok=True)
shutil.copy(f"{src}/patch{K}.diff", f"{dst}/patch.diff")
shutil.copy(f"{src}/demo{K}.py", f"{dst}/demo.py")
if os.path.exists(f"{src}/notes{K}.md"):
    shutil.copy(f"{src}/notes{K}.md", f"{dst}/notes.md")
base = subprocess.run(["git", "-C", f"/tmp/wt{os.environ.get('ROUND', '')}_{P}", "rev-parse", "--short", "HEAD"], capture_output=True, text=True).stdout.strip()
meta = {
    "id": f"{P}-{DK}", "property": P, "author": "independent sub-agent given only the property text and a scratch worktree",
    "base_commit": base, "needs_to_manifest": needs,
    "confirmed": {"how": "tools/confirm_seed.sh: in the scratch worktree at base_commit: git apply patch.diff; pinned suite (58 tests) passes; "
                         "PYTHONPATH=<worktree> python demo.py exits non-zero with the patch and 0 without it",
                  "pinned_tests_with_patch": "58 passed", "demo_with_patch": "exit 1", "demo_without_patch": "exit 0"},
}
json.dump(meta, open(f"{dst}/meta.json", "w"), indent=1)
print("imported", dst)
