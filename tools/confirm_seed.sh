#!/bin/bash
# usage: confirm_seed.sh <PROP> <k>  -- confirms a seeded change in its scratch worktree, then runs the checks against it in /repo
P=$1; K=$2; R=${ROUND:-}; WT=/tmp/wt${R}_$P; SD=/tmp/seed${R}_$P
TESTS="tests/unit/test_literal_value.py tests/unit/test_match_template.py tests/unit/test_pattern_matching.py tests/unit/test_pattern_zeroormore_zeroorone_zeroormany.py tests/integration/test_imports.py tests/integration/test_tracing.py"
cd $WT || exit 9
git checkout -q -- . ; git clean -fdq
git apply $SD/patch$K.diff || { echo "SEED $P/$K: patch does not apply to worktree"; exit 1; }
T=$(cd $WT && PYTHONPATH=$WT /venv/bin/python -m pytest -q -p no:cacheprovider --timeout=900 $TESTS 2>&1 | tail -1)
cp $SD/demo$K.py $WT/demo$K.py
(cd $WT && PYTHONPATH=$WT timeout 600 /venv/bin/python demo$K.py >/tmp/seed_demo_with.log 2>&1); WITH=$?
git checkout -q -- . ; 
(cd $WT && PYTHONPATH=$WT timeout 600 /venv/bin/python demo$K.py >/tmp/seed_demo_without.log 2>&1); WITHOUT=$?
rm -f $WT/demo$K.py
echo "SEED $P/$K: tests=[$T] demo_with_patch=$WITH demo_without_patch=$WITHOUT"
# against /repo HEAD with the checks
cd /repo
if git apply --check $SD/patch$K.diff 2>/dev/null; then
  git apply $SD/patch$K.diff
  for Q in ${3:-$P}; do
    OUT=$(cd /verif && /venv/bin/python -m sa check $Q --evidence-dir /tmp/seed_ev --out-dir /tmp/seed_out 2>&1)
    echo "$OUT" | grep -E "VIOLATED|VIOLATION|ANALYSIS-ERROR|^OK" | cut -c1-260
  done
  git checkout -q -- .
else
  echo "SEED $P/$K: patch does not apply to /repo HEAD (conflicts with later fix commits)"
fi
