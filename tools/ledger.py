#!/venv/bin/python
"""Print the findings ledger of DESIGN.md section 5 from known_findings.json (markdown table)."""
import json

d = json.load(open("/verif/known_findings.json"))
print("| prop | rule | function | what failed (witness in `known_findings.json`) | disposition |")
print("|---|---|---|---|---|")
def order(x):
    return (x["property"], x["rule"], x["key"])
for x in sorted(d["findings"], key=order):
    fn = x["key"].split("|")[1]
    what = x["what_fails"].replace("|", "/").replace("\n", " ")
    if len(what) > 230:
        what = what[:227] + "..."
    st = x["status"]
    disp = "**known**" if st == "known" else "fixed `" + st.split(":", 1)[1].strip() + "`"
    print(f"| {x['property']} | {x['rule']} | `{fn}` | {what} | {disp} |")
