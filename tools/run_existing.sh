#!/bin/bash
# Runs the reproducers of violations that the seeding agents found on the UNMODIFIED tree (round 3) against /repo HEAD.
# exit 1 of a script = the property is still violated on that input; 0 = no longer (repaired since) -- informational, not a check.
for d in /verif/seeded/existing_round3/${1:-*}/; do
  P=$(basename $d)
  for f in $(ls $d/existing*.py 2>/dev/null | sort -V); do
    w=$(mktemp -d /tmp/exrun_XXXX)
    (cd $w && PYTHONPATH=/repo timeout 300 /venv/bin/python $f >/dev/null 2>&1); rc=$?
    rm -rf $w
    echo "$P $(basename $f) exit=$rc"
  done
done
