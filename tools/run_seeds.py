#!/venv/bin/python
"""Apply every /verif/seeded/*/patch.diff to /repo in turn, run the check of its property (quick tier, evidence to a
scratch dir), undo the patch, and write /verif/seeded/RESULTS.md.  /repo must be clean; nothing is committed there."""
import glob, json, os, re, subprocess, sys, tempfile

def sh(*a, **k):
    return subprocess.run(a, capture_output=True, text=True, **k)

if sh("git", "-C", "/repo", "status", "--porcelain").stdout.strip():
    sys.exit("refusing: /repo has uncommitted changes")
rows = []
only = sys.argv[1:]
scratch = tempfile.mkdtemp(prefix="seed_run_")
for d in sorted(glob.glob("/verif/seeded/C*-*/")):
    meta = json.load(open(d + "meta.json"))
    if only and meta["id"] not in only and meta["property"] not in only:
        continue
    chk = sh("git", "-C", "/repo", "apply", "--check", d + "patch.diff")
    if chk.returncode != 0:
        rows.append((meta["id"], meta["property"], "patch no longer applies to /repo HEAD", ""))
        continue
    sh("git", "-C", "/repo", "apply", d + "patch.diff")
    try:
        r = sh("/venv/bin/python", "-m", "sa", "check", meta["property"], "--evidence-dir", scratch, "--out-dir", scratch, cwd="/verif")
        keys = re.findall(r"VIOLATED (R[\w.]+) (\S+) \[([^\]]+)\]", r.stdout)
        verdict = {0: "MISSED (exit 0)", 1: "caught", 2: "analysis error"}.get(r.returncode, str(r.returncode))
        rules = ", ".join(sorted({f"{k[0]} {k[2]}" for k in keys}))[:300]
        note = meta.get("expected", "") if r.returncode != 1 else ""
        if meta.get("at_head") and r.returncode != 1:
            note = (note + "; " if note else "") + meta["at_head"]
        rows.append((meta["id"], meta["property"], verdict, rules or note[:400]))
    finally:
        sh("git", "-C", "/repo", "checkout", "--", ".")
if not only:
    with open("/verif/seeded/RESULTS.md", "w") as f:
        f.write("| seeded change | property | quick check | reported rule / function (or why it is not reported) |\n|---|---|---|---|\n")
        for row in rows:
            f.write("| " + " | ".join(row) + " |\n")
for row in rows:
    print(*row, sep=" | ")
import shutil; shutil.rmtree(scratch, ignore_errors=True)
