#!/venv/bin/python
"""seed_table.py <id>...: markdown rows (seed | needs, to manifest | reported by) for DESIGN.md section 9, from meta.json and seeded/RESULTS.md."""
import json, re, sys
res = {}
for line in open("/verif/seeded/RESULTS.md"):
    parts = [p.strip() for p in line.strip().strip("|").split("|")]
    if len(parts) >= 4 and re.match(r"C\d\d-\d+", parts[0]):
        res[parts[0]] = (parts[2], parts[3])
for sid in sys.argv[1:]:
    meta = json.load(open(f"/verif/seeded/{sid}/meta.json"))
    verdict, rules = res.get(sid, ("?", ""))
    need = meta["needs_to_manifest"]
    need = need if len(need) <= 170 else need[:167] + "..."
    if verdict == "caught":
        rep = rules
    elif verdict.startswith("analysis"):
        rep = "**analysis error (exit 2)**"
    else:
        rep = "**not reported**" + (" (no longer a violation at HEAD)" if meta.get("at_head") else "")
    print(f"| {sid} | {need} | {rep} |")
