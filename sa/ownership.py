"""Ownership / escape analysis of AST objects (DESIGN 2.4): who may mutate what is reachable from a cached result.

Abstract values are frozensets of tags:
  ("SH", origin)          reference into shared storage; origin = "cache:<fn>" or "param:<name>"
  ("FR", site)            a node allocated at this site (ast.K(...), type(x)(...)); fields in the heap
  ("SC", site, origin)    shallow copy of a shared node: unknown fields read as SH(origin)
  ("DF",)                 deep-fresh (copy.deepcopy, ast.parse)
  ("FL", site)            fresh container; heap[site]["*"] = elements, heap[site]["#i"] = i-th tuple component
  ("INST", mod, class)    instance of a repository class (NodeTransformer subclasses matter)
The empty set is "other" (never fires).
"""
from __future__ import annotations

import ast
import itertools
from typing import Dict, FrozenSet, List, Optional, Set, Tuple

from .model import ClassInfo, Func, Program, norm, short, walk_own

MUTATORS = {"append", "extend", "insert", "pop", "remove", "clear", "sort", "reverse", "update", "add",
            "discard", "setdefault", "popitem", "appendleft"}
PRIMITIVE_FIELDS = {"id", "name", "attr", "arg", "module", "level", "asname", "lineno", "col_offset", "end_lineno",
                    "end_col_offset", "kind", "is_async", "conversion", "type_comment", "simple"}
FRESH_CONTAINER_CALLS = {"list", "sorted", "tuple", "set", "frozenset", "reversed", "filter", "map", "iter", "dict"}
ELEM_CALLS = {"min", "max", "next"}
IMMUTABLE_RETURNS = {"bool", "int", "str", "float", "type", "Sequence[int]", "None"}

# result shape of the generic matching primitives of core: derived from the named parameter
MANUAL_DERIVED = {
    ("core", "walk"): ("scope", "elem"), ("core", "walk_wildcard"): ("scope", "elem+"),
    ("core", "walk_sequence"): ("scope", "elem+"), ("core", "filter_nodes"): ("nodes", "elem"),
    ("core", "match_template"): ("node", "self+elem"), ("core", "_group_nodes_in_scope"): ("scope", "elem+"),
    ("core", "merge_matches"): ("root,matches", "self+elem"),
}

E: FrozenSet = frozenset()
DF = frozenset([("DF",)])


def _is_mutable_display(v: ast.AST) -> bool:
    if isinstance(v, (ast.List, ast.Dict, ast.Set, ast.ListComp, ast.DictComp, ast.SetComp)):
        return True
    if isinstance(v, ast.Call):
        d = norm(v.func)
        return d in ("list", "dict", "set", "collections.defaultdict", "collections.OrderedDict", "collections.Counter",
                     "collections.deque", "defaultdict", "bytearray")
    return False


def SH(origin: str) -> FrozenSet:
    return frozenset([("SH", origin)])


class Summary:
    def __init__(self):
        self.mutates: Dict[str, str] = {}      # param -> description of the first mutation found
        self.mutates_direct: Set[str] = set()  # params mutated other than by a NodeTransformer pass (leaf nodes are affected too)
        self.ret_params: Set[str] = set()     # result may be (part of) this param
        self.ret_elem: Set[str] = set()       # result is a fresh container holding parts of this param
        self.ret_fresh = False
        self.ret_cache: Set[str] = set()      # result may be (part of) a cached object of this origin

    def key(self):
        return (tuple(sorted(self.mutates)), tuple(sorted(self.mutates_direct)), tuple(sorted(self.ret_params)),
                tuple(sorted(self.ret_elem)), self.ret_fresh, tuple(sorted(self.ret_cache)))


class St:
    __slots__ = ("env", "heap")

    def __init__(self, env=None, heap=None):
        self.env: Dict[str, FrozenSet] = env or {}
        self.heap: Dict[str, Dict[str, FrozenSet]] = heap or {}

    def copy(self) -> "St":
        return St(dict(self.env), {k: dict(v) for k, v in self.heap.items()})

    def join(self, o: "St") -> "St":
        r = St()
        for k in set(self.env) | set(o.env):
            r.env[k] = self.env.get(k, E) | o.env.get(k, E)
        for k in set(self.heap) | set(o.heap):
            a, b = self.heap.get(k, {}), o.heap.get(k, {})
            r.heap[k] = {f: a.get(f, E) | b.get(f, E) for f in set(a) | set(b)}
        return r

    def eq(self, o: "St") -> bool:
        return self.env == o.env and self.heap == o.heap


class Finding:
    def __init__(self, fn: Func, node: ast.AST, what: str, origin: str):
        self.fn, self.node, self.what, self.origin = fn, node, what, origin

    @property
    def key(self):
        return (self.fn.fq, norm(self.node), self.origin)


class Ownership:
    def __init__(self, prog: Program):
        self.prog = prog
        self.summaries: Dict[Tuple[str, str], Summary] = {f.key: Summary() for f in prog.funcs.values()}
        self.findings: List[Finding] = []
        self.sinks_seen = 0
        self.sink_sites: Dict[Tuple[str, str], Tuple[Func, ast.AST, str, bool]] = {}
        self.identity_findings: List[Finding] = []
        self.cached_origins: Dict[Tuple[str, str], str] = {}
        for f in prog.funcs.values():
            if f.is_cached and self._returns_mutable(f):
                self.cached_origins[f.key] = f"cache:{f.mod.name}.{f.name}"
        for key, (params, shape) in MANUAL_DERIVED.items():
            if key in self.summaries:
                s = self.summaries[key]
                for p in params.split(","):
                    s.ret_elem.add(p)
                    if "self" in shape:
                        s.ret_params.add(p)
        self.rounds = 0
        for rnd in range(8):
            self.rounds = rnd + 1
            self.findings = []
            self.sinks_seen = 0
            self.sink_sites = {}
            self.identity_findings = []
            before = {k: s.key() for k, s in self.summaries.items()}
            for fn in prog.funcs.values():
                Analyzer(self, fn).run()
            if before == {k: s.key() for k, s in self.summaries.items()}:
                break

    @staticmethod
    def _returns_mutable(f: Func) -> bool:
        r = f.node.returns
        if r is None:
            return True
        return norm(r) not in IMMUTABLE_RETURNS

    def unique_findings(self) -> List[Finding]:
        seen = {}
        for f in self.findings:
            seen.setdefault(f.key, f)
        return list(seen.values())


class Analyzer:
    def __init__(self, own: Ownership, fn: Func):
        self.own, self.prog, self.fn = own, own.prog, fn
        self.summary = own.summaries[fn.key]
        self.manual = fn.key in MANUAL_DERIVED
        self.leaf_wildcards = self._leaf_wildcards()
        from .defuse import bindings
        self.locals = set(bindings(fn)) | set(fn.all_params)

    def _leaf_wildcards(self) -> Set[str]:
        """Names of wildcards that this function declares only with a leaf node type (ast.Name / ast.Constant)."""
        leaf, other = set(), set()
        for n in walk_own(self.fn.node):
            if isinstance(n, ast.Call) and self.prog.dotted(n.func) in ("core.Wildcard", "Wildcard") and n.args \
                    and isinstance(n.args[0], ast.Constant) and isinstance(n.args[0].value, str):
                name = n.args[0].value
                t = n.args[1] if len(n.args) > 1 else next((k.value for k in n.keywords if k.arg == "template"), None)
                cls = self.ast_class(t) if t is not None else None
                (leaf if cls in (ast.Name, ast.Constant) else other).add(name)
        return leaf - other

    # ------------------------------------------------------------------ helpers on values
    def site(self, kind: str, node: ast.AST) -> str:
        return (f"{kind}@{self.fn.qual}:{getattr(node, 'lineno', 0)}:{getattr(node, 'col_offset', 0)}:"
                f"{getattr(node, 'end_col_offset', 0)}:{type(node).__name__}")

    def elems(self, st: St, v: FrozenSet) -> FrozenSet:
        out = set()
        for t in v:
            if t[0] in ("SH", "DF", "SHL"):
                out.add(t)
            elif t[0] == "FL":
                h = st.heap.get(t[1], {})
                for k, fv in h.items():
                    if k == "*" or k.startswith("#"):
                        out |= fv
            elif t[0] == "SC":
                out.add(("SH", t[2]))
        return frozenset(out)

    def component(self, st: St, v: FrozenSet, i: int) -> FrozenSet:
        out = set()
        for t in v:
            if t[0] in ("SH", "DF", "SHL"):
                out.add(t)
            elif t[0] == "FL":
                h = st.heap.get(t[1], {})
                if f"#{i}" in h:
                    out |= h[f"#{i}"]
                else:
                    out |= h.get("*", E)
            elif t[0] == "SC":
                out.add(("SH", t[2]))
        return frozenset(out)

    def reach(self, st: St, v: FrozenSet, seen: Optional[set] = None) -> FrozenSet:
        seen = seen if seen is not None else set()
        out = set()
        for t in v:
            if t in seen:
                continue
            seen.add(t)
            out.add(t)
            if t[0] in ("FR", "FL", "SC"):
                if t[0] == "SC":
                    out.add(("SH", t[2]))
                for fv in st.heap.get(t[1], {}).values():
                    out |= self.reach(st, fv, seen)
        return frozenset(out)

    def attr(self, st: St, v: FrozenSet, f: str) -> FrozenSet:
        if f in PRIMITIVE_FIELDS:
            return E
        out = set()
        for t in v:
            if t[0] == "SH" and f in self.leaf_wildcards:
                out.add(("SHL", t[1]))   # match.<name> of a wildcard typed ast.Name / ast.Constant: a leaf node
            elif t[0] in ("SH", "DF", "SHL"):
                out.add(t)
            elif t[0] == "FR":
                h = st.heap.get(t[1], {})
                out |= h.get(f, E) | h.get("**", E)
            elif t[0] == "SC":
                out |= st.heap.get(t[1], {}).get(f, SH(t[2]))
        return frozenset(out)

    def mk_container(self, st: St, node: ast.AST, elem_v, components: Optional[List[FrozenSet]] = None) -> FrozenSet:
        s = self.site("FL", node)
        h = {"*": frozenset(elem_v)}
        if components is not None:
            for i, c in enumerate(components):
                h[f"#{i}"] = frozenset(c)
            h["*"] = frozenset().union(*components) if components else E
        st.heap[s] = h
        return frozenset([("FL", s)])

    # ------------------------------------------------------------------ sinks
    def sink(self, st: St, v: FrozenSet, node: ast.AST, what: str, deep: bool = False, transformer: bool = False) -> None:
        """A mutation of v.  transformer=True: the mutation is a NodeTransformer pass, which cannot change leaf
        nodes (no AST-valued fields besides the context singleton), so shared *leaf* references are exempt."""
        self.own.sinks_seen += 1
        vv = self.reach(st, v) if deep else v
        stmt = self._stmt_of(node)
        skey = (self.fn.fq, norm(stmt))
        hit = any(t[0] in ("SH", "SHL") and not t[1].startswith("param:") and not (t[0] == "SHL" and transformer) for t in vv)
        prev = self.own.sink_sites.get(skey)
        self.own.sink_sites[skey] = (self.fn, stmt, what, hit or (prev[3] if prev else False))
        for t in vv:
            if t[0] == "SHL" and transformer:
                continue
            if t[0] not in ("SH", "SHL"):
                continue
            o = t[1]
            if o.startswith("param:"):
                p = o[6:]
                if self.manual:
                    continue
                if p not in self.summary.mutates:
                    self.summary.mutates[p] = f"{what} at line {getattr(node, 'lineno', 0)}"
                if not transformer:
                    self.summary.mutates_direct.add(p)
            else:
                self.own.findings.append(Finding(self.fn, self._stmt_of(node), what, o))

    def _stmt_of(self, node: ast.AST) -> ast.AST:
        from .model import parent
        n = node
        while n is not None and not isinstance(n, ast.stmt):
            n = parent(n)
        return n if n is not None else node

    # ------------------------------------------------------------------ expressions
    def ev(self, st: St, e: Optional[ast.AST]) -> FrozenSet:
        if e is None:
            return E
        m = getattr(self, "ev_" + type(e).__name__, None)
        if m:
            return m(st, e)
        for c in ast.iter_child_nodes(e):
            if isinstance(c, ast.expr):
                self.ev(st, c)
        return E

    def ev_Name(self, st, e):
        if e.id in st.env:
            return st.env[e.id]
        if e.id in self.fn.mod.globals and e.id not in self.locals and _is_mutable_display(self.fn.mod.globals[e.id]):
            return SH(f"module:{self.fn.mod.name}.{e.id}")
        return E

    def ev_Constant(self, st, e):
        return E

    def ev_Attribute(self, st, e):
        if isinstance(e.value, ast.Name) and e.value.id not in st.env:
            al = self.fn.mod.aliases.get(e.value.id)
            if al and al[0] == "module":
                m = self.prog.modules.get(al[1])
                if m is not None and e.attr in m.globals and _is_mutable_display(m.globals[e.attr]):
                    return SH(f"module:{m.name}.{e.attr}")
        return self.attr(st, self.ev(st, e.value), e.attr)

    def ev_Starred(self, st, e):
        return self.elems(st, self.ev(st, e.value))

    def ev_Subscript(self, st, e):
        v = self.ev(st, e.value)
        self.ev(st, e.slice)
        if isinstance(e.slice, ast.Slice):
            return self.mk_container(st, e, self.elems(st, v))
        if isinstance(e.slice, ast.Constant) and isinstance(e.slice.value, int) and e.slice.value >= 0:
            return self.component(st, v, e.slice.value)
        return self.elems(st, v)

    def ev_List(self, st, e):
        comps = []
        for x in e.elts:
            comps.append(self.ev(st, x))
        if isinstance(e, ast.Tuple) and not any(isinstance(x, ast.Starred) for x in e.elts):
            return self.mk_container(st, e, E, comps)
        return self.mk_container(st, e, frozenset().union(*comps) if comps else E)

    ev_Tuple = ev_List
    ev_Set = ev_List

    def ev_Dict(self, st, e):
        ks, vs = set(), set()
        for k, x in zip(e.keys, e.values):
            if k is None:
                inner = self.ev(st, x)
                vs |= self.elems(st, inner)
            else:
                ks |= self.ev(st, k)
                vs |= self.ev(st, x)
        return self.mk_container(st, e, E, [frozenset(ks), frozenset(vs)])

    def comp(self, st, e, elt_exprs):
        st2 = st.copy()
        for g in e.generators:
            it = self.ev(st2, g.iter)
            self.bind_iter(st2, g.target, it)
            for c in g.ifs:
                self.ev(st2, c)
        vals = [self.ev(st2, x) for x in elt_exprs]
        st.heap.update(st2.heap)
        if len(vals) == 2:
            return self.mk_container(st, e, E, vals)
        return self.mk_container(st, e, vals[0])

    def ev_ListComp(self, st, e):
        return self.comp(st, e, [e.elt])

    ev_SetComp = ev_ListComp
    ev_GeneratorExp = ev_ListComp

    def ev_DictComp(self, st, e):
        return self.comp(st, e, [e.key, e.value])

    def ev_IfExp(self, st, e):
        self.ev(st, e.test)
        return self.ev(st, e.body) | self.ev(st, e.orelse)

    def ev_BoolOp(self, st, e):
        v = set()
        for x in e.values:
            v |= self.ev(st, x)
        return frozenset(v)

    def ev_BinOp(self, st, e):
        l, r = self.ev(st, e.left), self.ev(st, e.right)
        if isinstance(e.op, (ast.Add, ast.BitOr, ast.Sub, ast.BitAnd, ast.BitXor)):
            if any(t[0] in ("FL", "SH") for t in l | r):
                return self.mk_container(st, e, self.elems(st, l) | self.elems(st, r))
        return E

    def ev_NamedExpr(self, st, e):
        v = self.ev(st, e.value)
        self.bind(st, e.target, v)
        return v

    def ev_Lambda(self, st, e):
        return E

    def ev_JoinedStr(self, st, e):
        for c in ast.walk(e):
            if isinstance(c, ast.FormattedValue):
                self.ev(st, c.value)
        return E

    def ev_Await(self, st, e):
        return self.ev(st, e.value)

    def ev_Yield(self, st, e):
        if e.value is not None:
            self.ret(st, self.ev(st, e.value), as_elem=True)
        return E

    def ev_YieldFrom(self, st, e):
        self.ret(st, self.elems(st, self.ev(st, e.value)), as_elem=True)
        return E

    def cache_origins(self, st, v) -> Set[str]:
        return {t[1] for t in self.reach(st, v) | self.elems(st, v) if t[0] in ("SH", "SHL") and t[1].startswith("cache:")}

    def ev_Compare(self, st, e):
        left = self.ev(st, e.left)
        for op, c in zip(e.ops, e.comparators):
            right = self.ev(st, c)
            if isinstance(op, (ast.In, ast.NotIn, ast.Is, ast.IsNot, ast.Eq, ast.NotEq)):
                a, b = self.cache_origins(st, left), self.cache_origins(st, right)
                if a and b and (a != b or len(a | b) > 1):
                    pair = sorted((a | b))
                    self.own.identity_findings.append(Finding(self.fn, self._stmt_of(e), f"{norm(e)[:80]}", " vs ".join(pair)))
            left = right
        return E

    def ev_UnaryOp(self, st, e):
        self.ev(st, e.operand)
        return E

    def ret(self, st, v, as_elem=False, seen=None):
        if self.manual:
            return
        seen = seen if seen is not None else set()
        for t in v:
            if t in seen:
                continue
            seen.add(t)
            if t[0] in ("SH", "SHL"):
                o = t[1]
                if o.startswith("param:"):
                    (self.summary.ret_elem if as_elem else self.summary.ret_params).add(o[6:])
                else:
                    self.summary.ret_cache.add(o)
            elif t[0] in ("FL", "FR", "SC"):
                self.summary.ret_fresh = True
                inner = set()
                for fv in st.heap.get(t[1], {}).values():
                    inner |= fv
                if t[0] == "SC":
                    inner.add(("SH", t[2]))
                self.ret(st, frozenset(inner), as_elem=True, seen=seen)

    # ------------------------------------------------------------------ calls
    def ast_class(self, f: ast.AST) -> Optional[type]:
        d = self.prog.dotted(f)
        if d and "." in d:
            head, name = d.rsplit(".", 1)
            if self.fn.mod.aliases.get(head) == ("ext", "ast"):
                obj = getattr(ast, name, None)
                if isinstance(obj, type) and issubclass(obj, ast.AST):
                    return obj
        return None

    def ev_Call(self, st, e):
        argv = [self.ev(st, a) for a in e.args]
        kwv: Dict[Optional[str], FrozenSet] = {}
        for k in e.keywords:
            kwv[k.arg] = kwv.get(k.arg, E) | self.ev(st, k.value)
        f = e.func
        cls = self.ast_class(f)
        if cls is not None:
            s = self.site("FR", e)
            fields = {}
            pos_i = 0
            for a, v in zip(e.args, argv):
                if isinstance(a, ast.Starred):
                    fields["**"] = fields.get("**", E) | v
                elif pos_i < len(cls._fields):
                    fields[cls._fields[pos_i]] = v
                    pos_i += 1
            for k, v in kwv.items():
                if k is None:
                    fields["**"] = fields.get("**", E) | self.elems(st, v) | v
                else:
                    fields[k] = v
            st.heap[s] = fields
            return frozenset([("FR", s)])
        if isinstance(f, ast.Call) and isinstance(f.func, ast.Name) and f.func.id == "type":   # type(node)(...)
            s = self.site("FR", e)
            fields = {}
            for k, v in kwv.items():
                if k is None:
                    fields["**"] = fields.get("**", E) | self.elems(st, v) | v
                else:
                    fields[k] = v
            for i, v in enumerate(argv):
                fields[f"#{i}"] = v
                fields["**"] = fields.get("**", E) | v
            st.heap[s] = fields
            return frozenset([("FR", s)])
        # a local variable holding an AST class (comp_type = ast.ListComp ...; comp_type(elt=..))
        if isinstance(f, ast.Name) and any(t == ("CLS",) for t in st.env.get(f.id, E)):
            s = self.site("FR", e)
            fields = {k: v for k, v in kwv.items() if k is not None}
            for v in argv:
                fields["**"] = fields.get("**", E) | v
            st.heap[s] = fields
            return frozenset([("FR", s)])
        if isinstance(f, ast.Attribute):
            base_v = self.ev(st, f.value)
            m = f.attr
            for t in base_v:
                if t[0] == "INST":
                    ci = self.prog.classes.get((t[1], t[2]))
                    target = self.prog.funcs.get((t[1], f"{t[2]}.{m}"))
                    if target is None and m in ("visit", "generic_visit") and ci is not None and ci.is_transformer:
                        for a in argv:
                            self.sink(st, a, e, f"ast.NodeTransformer.{m}() rewrites in place", deep=True, transformer=True)
                        return frozenset().union(*argv) if argv else E
                    if target is not None:
                        r = self.apply_summary(st, target, [E] + argv, kwv, e)
                        if m in ("visit", "generic_visit") and ci is not None and ci.is_transformer:
                            # an overridden visit still calls super().visit -> generic_visit on AST nodes
                            for a in argv:
                                self.sink(st, a, e, f"{t[2]}.{m}() (ast.NodeTransformer) rewrites in place", deep=True, transformer=True)
                            r = r | (frozenset().union(*argv) if argv else E)
                        return r
            if norm(f) in ("super().visit", "super().generic_visit") and self.fn.cls:
                ci = self.prog.classes.get((self.fn.mod.name, self.fn.cls))
                if ci is not None and ci.is_transformer:
                    for a in argv:
                        self.sink(st, a, e, "ast.NodeTransformer.generic_visit() rewrites in place", deep=True, transformer=True)
                    return frozenset().union(*argv) if argv else E
            if norm(f.value) == "self" and m in ("visit", "generic_visit") and self.fn.cls:
                ci = self.prog.classes.get((self.fn.mod.name, self.fn.cls))
                if ci is not None and ci.is_transformer:
                    for a in argv:
                        self.sink(st, a, e, "ast.NodeTransformer.visit() rewrites in place", deep=True, transformer=True)
                    return frozenset().union(*argv) if argv else E
            if m in MUTATORS and base_v:
                self.sink(st, base_v, e, f".{m}() on a shared container")
                for t in base_v:
                    if t[0] == "FL":
                        add = set()
                        for a in argv:
                            add |= (self.elems(st, a) if m in ("extend", "update") else a)
                        h = st.heap.setdefault(t[1], {})
                        h["*"] = h.get("*", E) | frozenset(add)
                if m in ("pop", "setdefault", "popitem"):
                    return self.elems(st, base_v)
                return E
            if m == "copy" and base_v and not argv:
                return self.mk_container(st, e, self.elems(st, base_v))
            if m == "items" and base_v:
                return self.mk_container(st, e, E, [self.mk_pair_component(st, base_v, 0), self.mk_pair_component(st, base_v, 1)]) \
                    if False else self._items(st, e, base_v)
            if m in ("values",) and base_v:
                return self.mk_container(st, e, self.component(st, base_v, 1))
            if m in ("keys",) and base_v:
                return self.mk_container(st, e, self.component(st, base_v, 0))
            if m in ("get",) and base_v:
                return self.component(st, base_v, 1) | (argv[1] if len(argv) > 1 else E)
            if m in ("most_common", "union", "intersection", "difference", "symmetric_difference") and base_v:
                extra = frozenset().union(*[self.elems(st, a) for a in argv]) if argv else E
                return self.mk_container(st, e, self.elems(st, base_v) | extra)
            if m in ("_asdict", "_replace") and base_v:
                return self.mk_container(st, e, self.elems(st, base_v) | base_v)
        r = self.prog.resolve_call(f, self.fn.mod, self.fn)
        if r and r[0] == "fn":
            target = r[1]
            if target.key in self.own.cached_origins:
                self.apply_summary(st, target, argv, kwv, e)   # mutation of arguments still counts
                return SH(self.own.cached_origins[target.key])
            return self.apply_summary(st, target, argv, kwv, e)
        if r and r[0] == "cls":
            ci: ClassInfo = r[1]
            init = self.prog.funcs.get((ci.mod.name, f"{ci.qual}.__init__"))
            if init is not None:
                self.apply_summary(st, init, [E] + argv, kwv, e)
            return frozenset([("INST", ci.mod.name, ci.qual)])
        if r and r[0] == "lib":
            return self.lib_call(st, e, r[1], argv, kwv)
        return E

    def _items(self, st, e, base_v):
        # dict.items(): container of (key, value) tuples
        pair = self.mk_container(st, e.func, E, [self.component(st, base_v, 0), self.component(st, base_v, 1)])
        return self.mk_container(st, e, pair)

    def mk_pair_component(self, st, base_v, i):
        return self.component(st, base_v, i)

    def lib_call(self, st, e, n: str, argv, kwv) -> FrozenSet:
        if n == "copy.copy":
            out = set()
            for t in (argv[0] if argv else E):
                if t[0] == "SH":
                    s = self.site("SC", e)
                    st.heap.setdefault(s, {})
                    out.add(("SC", s, t[1]))
                elif t[0] in ("FR", "SC"):
                    s = self.site(t[0], e)
                    st.heap[s] = dict(st.heap.get(t[1], {}))
                    out.add((t[0], s) + t[2:])
                elif t[0] == "FL":
                    s = self.site("FL", e)
                    st.heap[s] = dict(st.heap.get(t[1], {}))
                    out.add(("FL", s))
                else:
                    out.add(t)
            return frozenset(out)
        if n in ("copy.deepcopy", "ast.parse"):
            return DF
        if n in ("ast.walk", "ast.iter_child_nodes"):
            return self.mk_container(st, e, self.reach(st, argv[0]) if argv else E)
        if n == "ast.iter_fields":
            v = self.reach(st, argv[0]) if argv else E
            return self.mk_container(st, e, self.mk_container(st, e.func, E, [E, v]))
        if n == "ast.copy_location":
            if argv:
                self.sink(st, argv[0], e, "ast.copy_location() writes the position attributes of its first argument")
            return argv[0] if argv else E
        if n == "ast.fix_missing_locations":
            # fills in ABSENT position attributes only: no change to parsed nodes (they all carry positions), but the
            # templates built by core.compile_template are position-less on purpose, so it stamps them
            if argv:
                bare = frozenset(t for t in self.reach(st, argv[0]) if t[0] in ("SH", "SHL") and t[1].endswith("compile_template"))
                if bare:
                    self.sink(st, bare, e, "ast.fix_missing_locations() stamps positions on the position-less nodes of a compiled template")
            return argv[0] if argv else E
        if n == "ast.increment_lineno":
            if argv:
                self.sink(st, argv[0], e, "ast.increment_lineno() rewrites positions in place", deep=True)
            return argv[0] if argv else E
        if n in ("setattr", "delattr"):
            if argv:
                self.sink(st, argv[0], e, f"{n}() on a shared node")
            return E
        if n in ("vars",):
            return argv[0] if argv else E
        if n == "getattr":
            fld = e.args[1].value if len(e.args) > 1 and isinstance(e.args[1], ast.Constant) else "?"
            return (self.attr(st, argv[0], str(fld)) if argv else E) | (argv[2] if len(argv) > 2 else E)
        if n == "zip":
            comps = [self.elems(st, a) for a in argv]
            return self.mk_container(st, e, self.mk_container(st, e.func, E, comps))
        if n == "enumerate":
            comps = [E, self.elems(st, argv[0]) if argv else E]
            return self.mk_container(st, e, self.mk_container(st, e.func, E, comps))
        if n in FRESH_CONTAINER_CALLS or n.startswith("itertools.") or n in ("collections.Counter", "collections.deque", "collections.OrderedDict"):
            if n == "dict" and argv:
                # dict(pairs) / dict(mapping)
                inner = self.elems(st, argv[0])
                return self.mk_container(st, e, E, [self.component(st, inner, 0) | self.component(st, argv[0], 0),
                                                    self.component(st, inner, 1) | self.component(st, argv[0], 1)])
            if n in ("map",) and len(argv) >= 2:
                return self.mk_container(st, e, frozenset().union(*[self.elems(st, a) for a in argv[1:]]))
            if n in ("filter",) and len(argv) >= 2:
                return self.mk_container(st, e, self.elems(st, argv[1]))
            if n in ("itertools.chain.from_iterable",) and argv:
                return self.mk_container(st, e, self.elems(st, self.elems(st, argv[0])))
            if n in ("itertools.combinations", "itertools.permutations", "itertools.product", "itertools.zip_longest") and argv:
                inner = frozenset().union(*[self.elems(st, a) for a in argv])
                return self.mk_container(st, e, self.mk_container(st, e.func, inner))
            if n in ("sorted", "list", "tuple", "reversed", "iter") and argv:
                # keep tuple shapes of the elements
                return self.mk_container(st, e, self.elems(st, argv[0]))
            v = set()
            for a in argv:
                v |= self.elems(st, a)
            return self.mk_container(st, e, v)
        if n in ELEM_CALLS:
            v = self.elems(st, argv[0]) if argv else E
            if len(argv) > 1:
                v |= argv[-1]
            if "default" in kwv:
                v |= kwv["default"]
            return v
        if n in ("collections.defaultdict",):
            return self.mk_container(st, e, E)
        return E

    def apply_summary(self, st, target: Func, argv, kwv, e) -> FrozenSet:
        params = list(target.posparams)
        if target.cls and params and params[0] in ("self", "cls") and len(argv) == len(params) - 1:
            argv = [E] + argv
        bound: Dict[str, FrozenSet] = {}
        pos = []
        star_extra = E
        for a, v in zip(list(e.args), argv[-len(e.args):] if e.args else []):
            pass
        for p, v in zip(params, argv):
            bound[p] = v
        extra_pos = argv[len(params):]
        if target.vararg and extra_pos:
            bound[target.vararg] = frozenset().union(*extra_pos)
        for k, v in kwv.items():
            if k is None:
                # **kwargs: may feed any parameter, conservatively the **kwarg collector
                if target.kwarg:
                    bound[target.kwarg] = bound.get(target.kwarg, E) | self.elems(st, v) | v
                continue
            if k in params or k in target.kwonly:
                bound[k] = bound.get(k, E) | v
            elif target.kwarg:
                bound[target.kwarg] = bound.get(target.kwarg, E) | v
        s = self.own.summaries[target.key]
        for p, how in s.mutates.items():
            if p in bound:
                self.sink(st, bound[p], e, f"passed as '{p}' to {target.fq}(), which mutates it ({how})", deep=True,
                          transformer=p not in s.mutates_direct)
        out = set()
        for p in s.ret_params:
            if p in bound:
                out |= bound[p] | (self.elems(st, bound[p]) if p in (target.vararg, target.kwarg) else E)
        for c in s.ret_cache:
            out.add(("SH", c))
        el = set()
        for p in s.ret_elem:
            if p in bound:
                el |= bound[p] | self.elems(st, bound[p])
        if el or s.ret_fresh:
            if target.key in MANUAL_DERIVED and "elem+" in MANUAL_DERIVED[target.key][1]:
                # generators of match tuples: container of containers of derived nodes
                inner = self.mk_container(st, e.func, el)
                out |= self.mk_container(st, e, inner | frozenset(el))
            else:
                out |= self.mk_container(st, e, el)
        return frozenset(out)

    # ------------------------------------------------------------------ binding
    def bind_iter(self, st, target, it_v) -> None:
        ev = self.elems(st, it_v)
        self.bind(st, target, ev)

    def bind(self, st, tgt, v) -> None:
        if isinstance(tgt, ast.Name):
            st.env[tgt.id] = v
        elif isinstance(tgt, (ast.Tuple, ast.List)):
            star = any(isinstance(x, ast.Starred) for x in tgt.elts)
            for i, x in enumerate(tgt.elts):
                if isinstance(x, ast.Starred):
                    self.bind(st, x.value, self.mk_container(st, x, self.elems(st, v)))
                elif star:
                    self.bind(st, x, self.elems(st, v) if i else self.component(st, v, 0))
                else:
                    self.bind(st, x, self.component(st, v, i))
        elif isinstance(tgt, ast.Starred):
            self.bind(st, tgt.value, v)
        elif isinstance(tgt, ast.Attribute):
            b = self.ev(st, tgt.value)
            self.sink(st, b, tgt, f"assignment to .{tgt.attr} of a shared node")
            for t in b:
                if t[0] in ("FR", "SC"):
                    h = st.heap.setdefault(t[1], {})
                    h[tgt.attr] = v if len(b) == 1 else h.get(tgt.attr, E) | v
        elif isinstance(tgt, ast.Subscript):
            b = self.ev(st, tgt.value)
            self.ev(st, tgt.slice)
            self.sink(st, b, tgt, "item assignment on a shared container")
            for t in b:
                if t[0] == "FL":
                    h = st.heap.setdefault(t[1], {})
                    h["*"] = h.get("*", E) | v
                    if "#1" in h:
                        h["#1"] = h["#1"] | v

    # ------------------------------------------------------------------ statements
    def run_block(self, st: St, body) -> St:
        for s in body:
            st = self.stmt(st, s)
        return st

    def stmt(self, st: St, s: ast.stmt) -> St:
        if isinstance(s, ast.Assign):
            v = self.ev(st, s.value)
            if self.ast_class(s.value) is not None or (isinstance(s.value, ast.Call) and isinstance(s.value.func, ast.Name) and s.value.func.id == "type"):
                v = v | frozenset([("CLS",)])
            for t in s.targets:
                self.bind(st, t, v)
        elif isinstance(s, ast.AnnAssign):
            if s.value is not None:
                self.bind(st, s.target, self.ev(st, s.value))
        elif isinstance(s, ast.AugAssign):
            v = self.ev(st, s.value)
            if isinstance(s.target, ast.Name):
                cur = st.env.get(s.target.id, E)
                if isinstance(s.op, (ast.Add, ast.BitOr, ast.Sub, ast.BitAnd)):
                    self.sink(st, cur, s, "in-place augmented assignment on a shared container")
                for t in cur:
                    if t[0] == "FL":
                        h = st.heap.setdefault(t[1], {})
                        h["*"] = h.get("*", E) | self.elems(st, v)
            elif isinstance(s.target, ast.Attribute):
                b = self.ev(st, s.target.value)
                self.sink(st, b, s, f"augmented assignment to .{s.target.attr} of a shared node")
            elif isinstance(s.target, ast.Subscript):
                b = self.ev(st, s.target.value)
                self.sink(st, b, s, "augmented item assignment on a shared container")
        elif isinstance(s, ast.Delete):
            for t in s.targets:
                if isinstance(t, (ast.Subscript, ast.Attribute)):
                    self.sink(st, self.ev(st, t.value), t, "del on a shared container / node")
        elif isinstance(s, ast.Expr):
            self.ev(st, s.value)
        elif isinstance(s, ast.Return):
            if s.value is not None:
                self.ret(st, self.ev(st, s.value))
        elif isinstance(s, ast.If):
            self.ev(st, s.test)
            a = self.run_block(st.copy(), s.body)
            b = self.run_block(st.copy(), s.orelse)
            st = a.join(b)
        elif isinstance(s, (ast.For, ast.AsyncFor)):
            it = self.ev(st, s.iter)
            for _ in range(4):
                st2 = st.copy()
                self.bind_iter(st2, s.target, it)
                st2 = self.run_block(st2, s.body)
                j = st.join(st2)
                if j.eq(st):
                    break
                st = j
            st = self.run_block(st, s.orelse)
        elif isinstance(s, ast.While):
            for _ in range(4):
                self.ev(st, s.test)
                st2 = self.run_block(st.copy(), s.body)
                j = st.join(st2)
                if j.eq(st):
                    break
                st = j
            st = self.run_block(st, s.orelse)
        elif isinstance(s, (ast.With, ast.AsyncWith)):
            for i in s.items:
                self.ev(st, i.context_expr)
                if i.optional_vars is not None:
                    self.bind(st, i.optional_vars, E)
            st = self.run_block(st, s.body)
        elif isinstance(s, ast.Try):
            a = self.run_block(st.copy(), s.body)
            j = st.join(a)
            outs = [self.run_block(a.copy(), s.orelse)]
            for h in s.handlers:
                outs.append(self.run_block(j.copy(), h.body))
            r = outs[0]
            for o in outs[1:]:
                r = r.join(o)
            st = self.run_block(r, s.finalbody)
        elif isinstance(s, (ast.Raise, ast.Assert)):
            for c in ast.iter_child_nodes(s):
                if isinstance(c, ast.expr):
                    self.ev(st, c)
        elif isinstance(s, ast.Match):
            subject = self.ev(st, s.subject)
            outs = []
            for case in s.cases:
                st2 = st.copy()
                for n in ast.walk(case.pattern):
                    nm = getattr(n, "name", None)
                    if isinstance(nm, str):
                        st2.env[nm] = subject | self.elems(st2, subject)
                outs.append(self.run_block(st2, case.body))
            for o in outs:
                st = st.join(o)
        return st

    def run(self) -> None:
        st = St()
        for p in self.fn.all_params:
            st.env[p] = SH("param:" + p)
        if self.fn.vararg:
            pass
        # closure variables of nested functions: value unknown -> nothing is claimed about them
        self.run_block(st, self.fn.node.body)
