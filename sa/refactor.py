"""Behaviour-preserving whole-tree refactorings used by the self-test to look for false alarms.

rename_locals(source): every local variable of every function that is bound only through plain name stores (assignment,
for / with / walrus / comprehension targets) and is not a parameter, not global / nonlocal, and does not occur inside a
nested def / lambda / class, is renamed consistently to a meaningless name.  Nothing else changes.  A checker whose
verdict changes under this transformation depends on what a local variable happens to be called.
"""
from __future__ import annotations

import ast
import builtins
import hashlib
from typing import Dict, List, Set

_SCOPES = (ast.FunctionDef, ast.AsyncFunctionDef, ast.Lambda, ast.ClassDef)


def _own_nodes(fn: ast.AST):
    """nodes of fn's own scope (nested defs / lambdas / classes are not entered; comprehensions are)."""
    stack = list(ast.iter_child_nodes(fn))
    while stack:
        n = stack.pop()
        yield n
        if isinstance(n, _SCOPES):
            continue
        stack.extend(ast.iter_child_nodes(n))


def _nested_scopes(fn: ast.AST):
    for n in _own_nodes(fn):
        if isinstance(n, _SCOPES):
            yield n


def _renamable(fn: ast.AST) -> Set[str]:
    params = {a.arg for a in ast.walk(fn.args) if isinstance(a, ast.arg)}
    stores: Set[str] = set()
    blocked: Set[str] = set(params)
    for n in _own_nodes(fn):
        if isinstance(n, ast.Name) and isinstance(n.ctx, (ast.Store, ast.Del)):
            stores.add(n.id)
        elif isinstance(n, (ast.Global, ast.Nonlocal)):
            blocked |= set(n.names)
        elif isinstance(n, ast.ExceptHandler) and n.name:
            blocked.add(n.name)
        elif isinstance(n, (ast.Import, ast.ImportFrom)):
            blocked |= {(a.asname or a.name).split(".")[0] for a in n.names}
        elif isinstance(n, (ast.FunctionDef, ast.AsyncFunctionDef, ast.ClassDef)):
            blocked.add(n.name)
        elif isinstance(n, (ast.MatchAs, ast.MatchStar)) and n.name:
            blocked.add(n.name)
        elif isinstance(n, ast.MatchMapping) and n.rest:
            blocked.add(n.rest)
        elif isinstance(n, ast.Call) and isinstance(n.func, ast.Name) and n.func.id in ("locals", "vars", "eval", "exec", "globals"):
            return set()
    for sc in _nested_scopes(fn):
        for n in ast.walk(sc):
            if isinstance(n, ast.Name):
                blocked.add(n.id)
            elif isinstance(n, ast.arg):
                blocked.add(n.arg)
    return {s for s in stores if s not in blocked and not s.startswith("__") and s != "_" and not hasattr(builtins, s)}


def rename_locals(source: str, salt: str = "") -> str:
    tree = ast.parse(source)
    module_names = {n.id for n in ast.walk(tree) if isinstance(n, ast.Name)} | {a.arg for a in ast.walk(tree) if isinstance(a, ast.arg)}
    counter = 0
    for fn in [n for n in ast.walk(tree) if isinstance(n, (ast.FunctionDef, ast.AsyncFunctionDef))]:
        names = sorted(_renamable(fn))
        if not names:
            continue
        mapping: Dict[str, str] = {}
        for name in names:
            while True:
                counter += 1
                new = "v" + hashlib.sha1(f"{salt}{name}{counter}".encode()).hexdigest()[:5]
                if new not in module_names:
                    module_names.add(new)
                    break
            mapping[name] = new
        for n in _own_nodes(fn):
            if isinstance(n, ast.Name) and n.id in mapping:
                n.id = mapping[n.id]
    return ast.unparse(tree) + "\n"


def swap_if_else(source: str) -> str:
    """Every `if c: A else: B` whose else branch is not an elif chain becomes `if not c: B else: A` (a double negation is
    removed).  Same behaviour, every branch polarity in the tree flipped."""
    tree = ast.parse(source)

    class T(ast.NodeTransformer):
        def visit_If(self, node: ast.If):
            self.generic_visit(node)
            if node.orelse and not (len(node.orelse) == 1 and isinstance(node.orelse[0], ast.If)) \
                    and not (len(node.body) == 1 and isinstance(node.body[0], ast.If)):
                test = node.test
                if isinstance(test, ast.UnaryOp) and isinstance(test.op, ast.Not):
                    new_test = test.operand
                else:
                    new_test = ast.UnaryOp(op=ast.Not(), operand=test)
                node.test, node.body, node.orelse = new_test, node.orelse, node.body
            return node
    tree = ast.fix_missing_locations(T().visit(tree))
    return ast.unparse(tree) + "\n"


def nest_after_early_exit(source: str) -> str:
    """`if c: <... return / continue / break / raise>` followed by more statements becomes `if c: ... else: <the rest>`.
    Same behaviour; guards written as early exits become nesting."""
    tree = ast.parse(source)

    def leaves(stmts) -> bool:
        return bool(stmts) and isinstance(stmts[-1], (ast.Return, ast.Continue, ast.Break, ast.Raise))

    def fold(stmts):
        out = []
        for i, s in enumerate(stmts):
            if isinstance(s, ast.If) and not s.orelse and leaves(s.body) and i + 1 < len(stmts) \
                    and not any(isinstance(x, (ast.FunctionDef, ast.AsyncFunctionDef, ast.ClassDef, ast.Import, ast.ImportFrom)) for x in stmts[i + 1:]):
                s.orelse = fold(stmts[i + 1:])
                out.append(s)
                return out
            out.append(s)
        return out

    class T(ast.NodeTransformer):
        def generic_visit(self, node):
            super().generic_visit(node)
            for field in ("body", "orelse", "finalbody"):
                block = getattr(node, field, None)
                if isinstance(block, list) and block and isinstance(block[0], ast.stmt) and not isinstance(node, (ast.Module, ast.ClassDef)):
                    setattr(node, field, fold(block))
            return node
    tree = ast.fix_missing_locations(T().visit(tree))
    return ast.unparse(tree) + "\n"


def split_conjunctions(source: str) -> str:
    """`if a and b: X` (no else) becomes `if a: if b: X`.  Same behaviour; conjunctive guards become nested guards."""
    tree = ast.parse(source)

    class T(ast.NodeTransformer):
        def visit_If(self, node: ast.If):
            self.generic_visit(node)
            if not node.orelse and isinstance(node.test, ast.BoolOp) and isinstance(node.test.op, ast.And) \
                    and not any(isinstance(x, ast.NamedExpr) for x in ast.walk(node.test)):
                inner = node.body
                for part in reversed(node.test.values[1:]):
                    inner = [ast.If(test=part, body=inner, orelse=[])]
                node.test = node.test.values[0]
                node.body = inner
            return node
    tree = ast.fix_missing_locations(T().visit(tree))
    return ast.unparse(tree) + "\n"


def mirror_comparisons(source: str) -> str:
    """Single comparisons between side-effect free operands (names, attributes, constants, subscripts of those) are
    written the other way round: a < b -> b > a, a == b -> b == a, a != b -> b != a.  Same behaviour."""
    tree = ast.parse(source)
    flip = {ast.Lt: ast.Gt, ast.Gt: ast.Lt, ast.LtE: ast.GtE, ast.GtE: ast.LtE, ast.Eq: ast.Eq, ast.NotEq: ast.NotEq}

    def simple(e) -> bool:
        if isinstance(e, (ast.Name, ast.Constant)):
            return True
        if isinstance(e, ast.Attribute):
            return simple(e.value)
        if isinstance(e, ast.Subscript):
            return simple(e.value) and simple(e.slice)
        if isinstance(e, ast.UnaryOp):
            return simple(e.operand)
        return False

    class T(ast.NodeTransformer):
        def visit_Compare(self, node: ast.Compare):
            self.generic_visit(node)
            if len(node.ops) == 1 and type(node.ops[0]) in flip and simple(node.left) and simple(node.comparators[0]):
                node.left, node.comparators = node.comparators[0], [node.left]
                node.ops = [flip[type(node.ops[0])]()]
            return node
    tree = ast.fix_missing_locations(T().visit(tree))
    return ast.unparse(tree) + "\n"


def all_of_them(source: str) -> str:
    """The five refactorings composed."""
    for f in (mirror_comparisons, split_conjunctions, nest_after_early_exit, swap_if_else, rename_locals):
        source = f(source)
    return source
