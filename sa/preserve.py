"""Shared analysis for C07 / C08: option plumbing, definition-affecting sites and their preserve guards."""
from __future__ import annotations

import ast
import re
from typing import Dict, List, Optional, Set, Tuple

from .defuse import assignments, bindings, call_arg, names_in
from .model import AnalysisError, Func, Program, norm, parent, short, walk_own, walk_body
from .pathcond import Lit, Not, PathAnalysis, entails, plain, show, show_text

OPTIONS = ("preserve", "safe")
NAME_FIELDS = ("id", "name", "arg")
DEF_KINDS = {"FunctionDef", "AsyncFunctionDef", "ClassDef", "Name"}
PLUMBING_MODULES = {"main", "processing"}


def name_hook(e, w, an):
    """X.id / X.name / X.arg are one subject: name(X)."""
    if isinstance(e, ast.Attribute) and e.attr in NAME_FIELDS and isinstance(e.value, ast.Name):
        return f"name({w.token(e.value.id)})"
    return None


# ------------------------------------------------------------------------------------------------ plumbing
def derived_from(fn: Func, e: ast.AST, name, depth: int = 0) -> bool:
    """e mentions `name`, or a local whose every definition is derived from `name`.  `name` may also be a predicate on
    nodes (e.g. "is a call of main._used_names_in_files"), so that nothing depends on what a local is called."""
    if depth > 4:
        return False
    if callable(name):
        for n in ast.walk(e):
            if name(n):
                return True
            if isinstance(n, ast.Name):
                defs = [v for _, v in assignments(fn, n.id) if v is not None]
                if defs and n.id not in fn.all_params and any(derived_from(fn, v, name, depth + 1) for v in defs):
                    return True
        return False
    for n in ast.walk(e):
        if isinstance(n, ast.Name):
            if n.id == name:
                return True
            defs = [v for _, v in assignments(fn, n.id) if v is not None]
            if defs and n.id not in fn.all_params and any(derived_from(fn, v, name, depth + 1) for v in defs):
                return True
        if isinstance(n, ast.Attribute) and n.attr == name:
            return True   # args.safe
    return False


def plumbing_sites(prog: Program):
    """(caller, call, callee, option, actual expr or None)"""
    out = []
    for fn in prog.funcs.values():
        for c in prog.calls_in(fn):
            r = prog.resolve_call(c.func, fn.mod, fn)
            if not (r and r[0] == "fn"):
                continue
            callee = r[1]
            for opt in OPTIONS:
                if opt not in callee.all_params:
                    continue
                idx = callee.posparams.index(opt) if opt in callee.posparams else 10 ** 6
                actual = call_arg(c, idx, opt)
                out.append((fn, c, callee, opt, actual))
    return out


# ------------------------------------------------------------------------------------------------ consumers
def consumers(prog: Program) -> List[Func]:
    out = []
    for fn in prog.funcs.values():
        if "preserve" in fn.all_params and fn.mod.name not in PLUMBING_MODULES:
            if fn.is_fix or not fn.is_generator:
                out.append(fn)
    return sorted(out, key=lambda f: f.fq)


class Site:
    def __init__(self, fn: Func, node: ast.AST, subject: Optional[str], kind: str, why: str):
        self.fn, self.node, self.subject, self.kind, self.why = fn, node, subject, kind, why


_VISITING: Set[Tuple[int, str]] = set()


def subject_kinds(prog: Program, fn: Func, var: str, depth: int = 0, at: Optional[ast.AST] = None) -> Optional[Set[str]]:
    """ast class names the node variable `var` can denote, from the templates that selected it (None = unknown)."""
    if depth > 8:
        return None
    key = (id(fn.node), var)
    if key in _VISITING:
        return set()   # least fixpoint: a cyclic derivation contributes nothing new
    _VISITING.add(key)
    try:
        return _subject_kinds(prog, fn, var, depth, at)
    finally:
        _VISITING.discard(key)


def binding_loop(fn: Func, at: ast.AST, var: str) -> Optional[ast.For]:
    a = parent(at)
    while a is not None and a is not fn.node:
        if isinstance(a, (ast.For, ast.AsyncFor)) and any(isinstance(x, ast.Name) and x.id == var for x in ast.walk(a.target)):
            return a
        a = parent(a)
    return None


def _subject_kinds(prog: Program, fn: Func, var: str, depth: int, at: Optional[ast.AST]) -> Optional[Set[str]]:
    kinds: Set[str] = set()
    defs = bindings(fn).get(var, [])
    if at is not None:
        loop = binding_loop(fn, at, var)
        if loop is not None:
            defs = [(loop, None)]
    if not defs:
        return None
    for stmt, value in defs:
        if isinstance(stmt, (ast.For, ast.AsyncFor)):
            k = iter_kinds(prog, fn, stmt.iter, stmt.target, var, depth)
        elif value is not None:
            k = expr_kinds(prog, fn, value, depth)
        else:
            k = None
        if k is None:
            return None
        kinds |= k
    # comprehension targets are not bindings of the function scope: look for them too
    return kinds


def template_kinds(prog: Program, fn: Func, t: ast.AST, depth: int = 0) -> Optional[Set[str]]:
    if depth > 4:
        return None
    if isinstance(t, ast.Call) and (prog.dotted(t.func) or "") in ("tuple", "set", "list", "frozenset", "sorted") and t.args:
        inner = t.args[0]
        if isinstance(inner, ast.Call) and (prog.dotted(inner.func) or "") in ("core.filter_nodes", "core.walk") and len(inner.args) >= 2:
            return template_kinds(prog, fn, inner.args[1], depth + 1)
    if isinstance(t, ast.Tuple):
        out: Set[str] = set()
        for x in t.elts:
            k = template_kinds(prog, fn, x)
            if k is None:
                return None
            out |= k
        return out
    if isinstance(t, ast.Call):
        t = t.func
    d = prog.dotted(t)
    if d and "." in d:
        head, name = d.rsplit(".", 1)
        if fn.mod.aliases.get(head) == ("ext", "ast") and hasattr(ast, name):
            return {name}
    if isinstance(t, ast.Name):
        defs = [v for _, v in assignments(fn, t.id) if v is not None]
        if len(defs) == 1:
            return template_kinds(prog, fn, defs[0], depth + 1)
        if defs:
            out = set()
            for v in defs:
                if isinstance(v, ast.Call) and t.id in {n.id for n in ast.walk(v) if isinstance(n, ast.Name)}:
                    # template = tuple(filter_nodes(.., template)): same kinds as the other definitions
                    continue
                k = template_kinds(prog, fn, v, depth + 1)
                if k is None:
                    return None
                out |= k
            return out or None
    return None


def iter_kinds(prog: Program, fn: Func, it: ast.AST, target: ast.AST, var: str, depth: int) -> Optional[Set[str]]:
    if isinstance(it, ast.Call):
        d = prog.dotted(it.func)
        if d in ("sorted", "list", "set", "tuple", "reversed", "frozenset") and it.args:
            return iter_kinds(prog, fn, it.args[0], target, var, depth)
        if d in ("core.walk", "core.filter_nodes") and len(it.args) >= 2 and isinstance(target, ast.Name):
            return template_kinds(prog, fn, it.args[1])
        if d in ("core.walk_wildcard", "core.walk_sequence"):
            return {"AST"}   # components of a match are nodes (kind given by the wildcard's template)
        if d in ("parsing.iter_funcdefs",):
            return {"FunctionDef", "AsyncFunctionDef"}
        if d in ("parsing.iter_classdefs",):
            return {"ClassDef"}
        if d in ("parsing.iter_assignments",):
            return {"Name"}
        if d in ("_iter_unused_names", "_get_uses_of"):
            return {"Name"}
        if isinstance(it.func, ast.Attribute) and it.func.attr in ("items", "keys", "values", "copy") and isinstance(it.func.value, ast.Name):
            pos = None
            if isinstance(target, ast.Tuple):
                for i, t in enumerate(target.elts):
                    if isinstance(t, ast.Name) and t.id == var:
                        pos = i
            return collection_kinds(prog, fn, it.func.value.id, "key" if (it.func.attr in ("keys",) or pos == 0) else
                                    "value" if (it.func.attr == "values" or pos == 1) else "elem", depth + 1)
    if isinstance(it, ast.BinOp) and isinstance(it.op, (ast.Sub, ast.BitOr, ast.BitAnd)):
        return iter_kinds(prog, fn, it.left, target, var, depth)
    if isinstance(it, ast.Name) and isinstance(target, ast.Name):
        return collection_kinds(prog, fn, it.id, "elem", depth + 1)
    return None


def expr_kinds(prog: Program, fn: Func, e: ast.AST, depth: int) -> Optional[Set[str]]:
    if isinstance(e, ast.Name):
        return subject_kinds(prog, fn, e.id, depth + 1)
    if isinstance(e, ast.Call):
        d = prog.dotted(e.func)
        if d in ("min", "max", "next") and e.args:
            a = e.args[0]
            if isinstance(a, ast.Name):
                return collection_kinds(prog, fn, a.id, "elem", depth + 1)
        k = template_kinds(prog, fn, e.func)
        if k:
            return k
    return None


def collection_kinds(prog: Program, fn: Func, coll: str, part: str, depth: int) -> Optional[Set[str]]:
    """Kinds of the elements / keys / values put into collection `coll` anywhere in fn."""
    if depth > 5:
        return None
    out: Set[str] = set()
    found = False
    for n in walk_own(fn.node):
        x = None
        if isinstance(n, ast.Call) and isinstance(n.func, ast.Attribute) and n.func.attr in ("add", "append") and n.args:
            recv = n.func.value
            if isinstance(recv, ast.Name) and recv.id == coll and part == "elem":
                x = n.args[0]
            elif isinstance(recv, ast.Subscript) and isinstance(recv.value, ast.Name) and recv.value.id == coll:
                x = recv.slice if part == "key" else (n.args[0] if part == "value" else None)
        elif isinstance(n, ast.Assign):
            for t in n.targets:
                if isinstance(t, ast.Subscript) and isinstance(t.value, ast.Name) and t.value.id == coll:
                    x = t.slice if part == "key" else n.value if part == "value" else None
                elif isinstance(t, ast.Name) and t.id == coll and part == "elem":
                    v = n.value
                    if isinstance(v, (ast.SetComp, ast.ListComp, ast.GeneratorExp)) and isinstance(v.elt, ast.Name):
                        g = v.generators[-1]
                        k = iter_kinds(prog, fn, g.iter, g.target, v.elt.id, depth + 1)
                        if k is None:
                            return None
                        out |= k
                        found = True
                    elif isinstance(v, ast.Set) and v.elts and all(isinstance(z, ast.Name) for z in v.elts):
                        for z in v.elts:
                            k = subject_kinds(prog, fn, z.id, depth + 1)
                            if k is None:
                                return None
                            out |= k
                        found = True
                    elif isinstance(v, ast.Call) and prog.dotted(v.func) in ("set", "list", "sorted") and v.args:
                        k = iter_kinds(prog, fn, v.args[0], ast.Name(id="_x", ctx=ast.Store()), "_x", depth + 1)
                        if k is None:
                            return None
                        out |= k
                        found = True
        if x is not None:
            if isinstance(x, ast.Name):
                k = subject_kinds(prog, fn, x.id, depth + 1)
            elif isinstance(x, ast.Attribute) and x.attr in NAME_FIELDS:
                k = {"str"}
            else:
                k = expr_kinds(prog, fn, x, depth + 1)
            if k is None:
                return None
            out |= k
            found = True
    return out if found else None


def sink_collections(prog: Program, fn: Func) -> Dict[str, str]:
    """collection variable -> how it reaches a text edit (removals / replacements / renamings / splice)."""
    out: Dict[str, str] = {}
    for c in prog.calls_in(fn):
        r = prog.resolve_call(c.func, fn.mod, fn)
        if not (r and r[0] == "fn"):
            continue
        key = r[1].key
        if key == ("processing", "alter_code"):
            for kw in c.keywords:
                if kw.arg in ("removals", "replacements") and isinstance(kw.value, ast.Name):
                    out[kw.value.id] = f"alter_code({kw.arg}=)"
        elif key == ("processing", "remove_nodes") and len(c.args) >= 2 and isinstance(c.args[1], ast.Name):
            out[c.args[1].id] = "remove_nodes()"
        elif key == ("fixes", "_fix_variable_names") and len(c.args) >= 2 and isinstance(c.args[1], ast.Name):
            out[c.args[1].id] = "_fix_variable_names(renamings)"
    # a list whose items are spliced into the returned text: `for a, b, c in sorted(set(L)): source = source[:a] + c + source[b:]`
    for n in walk_own(fn.node):
        if isinstance(n, ast.For):
            src = n.iter
            while isinstance(src, ast.Call) and prog.dotted(src.func) in ("sorted", "set", "list", "reversed") and src.args:
                src = src.args[0]
            if isinstance(src, ast.Name) and any(isinstance(s, ast.Assign) and isinstance(s.value, ast.BinOp) and "[:" in norm(s.value) for s in n.body):
                out[src.id] = "spliced into the text"
    return out


def find_sites(prog: Program, fn: Func) -> List[Site]:
    sites: List[Site] = []
    sinks = sink_collections(prog, fn)
    for n in walk_own(fn.node):
        # ---- rewrite yields
        if isinstance(n, ast.Yield) and isinstance(n.value, ast.Tuple) and len(n.value.elts) in (2, 3) and fn.is_fix:
            x, y = n.value.elts[0], n.value.elts[1]
            if isinstance(x, ast.Constant) and x.value is None:
                sites.append(Site(fn, n, None, "insert", "pure insertion"))
                continue
            if not isinstance(x, ast.Name):
                sites.append(Site(fn, n, None, "unknown", "rewritten object is not a variable"))
                continue
            if isinstance(y, ast.Constant) and y.value is None:
                sites.append(Site(fn, n, x.id, "delete", "deletes the node"))
            elif isinstance(y, ast.Attribute) and isinstance(y.value, ast.Name) and y.value.id == x.id:
                sites.append(Site(fn, n, x.id, "unbind", f"replaces the statement by its .{y.attr} (the binding disappears)"))
            elif _renames(prog, fn, y):
                sites.append(Site(fn, n, x.id, "rename", "replaces the node by one with another name"))
            else:
                sites.append(Site(fn, n, x.id, "rewrite", "replaces the node"))
        # ---- insertions into collections that feed a text edit
        recv = elem = None
        if isinstance(n, ast.Call) and isinstance(n.func, ast.Attribute) and n.func.attr in ("add", "append") and n.args:
            recv, elem = n.func.value, n.args[0]
        elif isinstance(n, ast.Assign) and len(n.targets) == 1 and isinstance(n.targets[0], ast.Subscript):
            recv, elem = n.targets[0].value, n.targets[0].slice
        if recv is not None:
            base = recv
            while isinstance(base, ast.Subscript):
                base = base.value
            if isinstance(base, ast.Name) and base.id in sinks:
                subj = None
                if isinstance(recv, ast.Subscript) and isinstance(recv.slice, ast.Name):
                    subj = recv.slice.id            # D[node].add(x): the subject is the key node
                elif isinstance(elem, ast.Name):
                    subj = elem.id
                elif isinstance(elem, ast.Attribute) and isinstance(elem.value, ast.Name):
                    subj = elem.value.id
                else:
                    # a tuple of positions etc.: the subject is the node variable of the enclosing loop
                    a = parent(n)
                    while a is not None and a is not fn.node and subj is None:
                        if isinstance(a, ast.For):
                            t = a.target.elts[0] if isinstance(a.target, ast.Tuple) else a.target
                            if isinstance(t, ast.Name):
                                subj = t.id
                        a = parent(a)
                kind = "delegate" if "_fix_variable_names" in sinks[base.id] else "collect"
                sites.append(Site(fn, n, subj, kind, f"added to '{base.id}', which {sinks[base.id]}"))
    return sites


def _renames(prog: Program, fn: Func, y: ast.AST, depth: int = 0) -> bool:
    if depth > 3:
        return False
    if isinstance(y, ast.Call):
        d = prog.dotted(y.func) or ""
        if d in ("ast.Import", "ast.ImportFrom"):
            return False    # an import statement rebuilt: what an import binds for OTHER files is R8.6's business, not a renamed definition
        if d.startswith("ast.") and any(k.arg in NAME_FIELDS for k in y.keywords):
            return True
    if isinstance(y, ast.Name):
        defs = [v for _, v in assignments(fn, y.id) if v is not None]
        return any(_renames(prog, fn, v, depth + 1) for v in defs)
    return False


def underscore_only(prog: Program, fn: Func, site: Site) -> bool:
    """The subject is selected by a template whose every name is the literal '_' (documented convention)."""
    if site.subject is None:
        return False
    defs = bindings(fn).get(site.subject, [])
    loop = binding_loop(fn, site.node, site.subject)
    if loop is not None:
        defs = [(loop, None)]
    for stmt, value in defs:
        if isinstance(stmt, ast.For):
            it = stmt.iter
            if isinstance(it, ast.Call) and prog.dotted(it.func) in ("core.walk", "core.filter_nodes") and len(it.args) >= 2:
                t = it.args[1]
                ids = [k.value.value for c in ast.walk(t) if isinstance(c, ast.Call) for k in c.keywords
                       if k.arg in NAME_FIELDS and isinstance(k.value, ast.Constant)]
                name_calls = [c for c in ast.walk(t) if isinstance(c, ast.Call) and (prog.dotted(c.func) or "") == "ast.Name"]
                if name_calls and ids and all(i == "_" for i in ids) and len(ids) >= len(name_calls):
                    continue
        return False
    return True


def guard_forms(pa: PathAnalysis, site: Site, preserve: str = "preserve") -> Tuple[bool, bool, List[str]]:
    """(bare form entailed, some form entailed, explanation) for `name(subject) not in preserve` at the site."""
    worlds = pa.worlds_at(site.node)
    if not worlds:
        return True, True, ["unreachable"]
    bare_all, any_all = True, True
    why = []
    for w in worlds:
        tok = w.token(site.subject) if site.subject else None
        ptok = f"{preserve}#0"
        bare = False
        anyform = False
        if tok:
            goals = [Lit(f"in(name({tok}), {ptok})", False), Lit(f"in({tok}, {ptok})", False)]
            bare = any(entails(w.facts, g) for g in goals)
            if not bare:
                # `x not in (preserve | other)`: not a member of a union is not a member of either part
                for f in w.facts:
                    if f[0] == "lit" and not f[2] and (f[1].startswith(f"in(name({tok}), ") or f[1].startswith(f"in({tok}, ")):
                        coll = f[1].split(", ", 1)[1][:-1]
                        parts = [p_.strip() for p_ in coll.split(" | ")]
                        if len(parts) > 1 and ptok in parts and "(" not in coll and "&" not in coll and "-" not in coll:
                            bare = True
            anyform = bare
            if not anyform:
                for f in w.facts:
                    if f[0] == "lit" and not f[2] and f[1].startswith("in(") and f[1].endswith(f", {ptok})") and f"name({tok})" in f[1]:
                        anyform = True   # e.g. f'{name(C)}.{name(X)}' not in preserve
        bare_all &= bare
        any_all &= anyform
        if not bare:
            rel = sorted(show_text(show(f)) for f in w.facts if "preserve" in show(f))[:4]
            why.append(f"no fact `{site.subject}.name not in preserve`; preserve facts on this path: {rel}")
    return bare_all, any_all, why


def plain_text(text: str) -> str:
    """fact text without version suffixes and blanks normalised (for substring tests)"""
    from .pathcond import plain
    return plain(text)
