"""Loop-carried state: which variables can carry a value from one iteration of a loop into the next.

A syntax-directed *definite assignment* analysis (as in the Java language specification) of one loop body: DA is the
set of names that were certainly (re)bound since the iteration began.  A read (or an in-place mutation) of a name
outside DA, for a name that the loop also modifies somewhere, is a loop-carried use: what an earlier iteration left
behind can influence this one.  Rules that process independent items per iteration (one condition per iteration in
symbolic_math) must not have any.

Joins are intersections; a branch that cannot complete normally (continue / break / return / raise as last statement)
contributes nothing to the join.  Nested loops may run zero times, so what they bind is not definitely assigned
afterwards.  Comprehension variables are local to the comprehension.
"""
from __future__ import annotations

import ast
from typing import Dict, FrozenSet, List, Optional, Set, Tuple

MUTATORS = {"add", "update", "append", "extend", "clear", "pop", "remove", "discard", "insert", "setdefault", "sort",
            "reverse", "popitem", "difference_update", "intersection_update", "symmetric_difference_update"}


def _names(target: ast.AST) -> Set[str]:
    return {n.id for n in ast.walk(target) if isinstance(n, ast.Name)}


def modified_names(stmts: List[ast.stmt]) -> Set[str]:
    """Names (re)bound or mutated in place anywhere in stmts (nested functions excluded)."""
    out: Set[str] = set()
    stack: List[ast.AST] = list(stmts)
    while stack:
        n = stack.pop()
        if isinstance(n, (ast.FunctionDef, ast.AsyncFunctionDef, ast.Lambda, ast.ClassDef)):
            continue
        if isinstance(n, (ast.ListComp, ast.SetComp, ast.DictComp, ast.GeneratorExp)):
            # targets of comprehensions are local; only look at calls inside
            for c in ast.iter_child_nodes(n):
                if not isinstance(c, ast.comprehension):
                    stack.append(c)
                else:
                    stack.append(c.iter)
                    stack.extend(c.ifs)
            continue
        if isinstance(n, ast.Name) and isinstance(n.ctx, (ast.Store, ast.Del)):
            out.add(n.id)
        elif isinstance(n, ast.Call) and isinstance(n.func, ast.Attribute) and n.func.attr in MUTATORS and isinstance(n.func.value, ast.Name):
            out.add(n.func.value.id)
        elif isinstance(n, (ast.Subscript, ast.Attribute)) and isinstance(n.ctx, (ast.Store, ast.Del)) and isinstance(n.value, ast.Name):
            out.add(n.value.id)
        stack.extend(ast.iter_child_nodes(n))
    return out


class _DA:
    def __init__(self, interesting: Set[str]):
        self.interesting = interesting
        self.uses: List[Tuple[str, ast.AST]] = []     # (name, node) read before definitely assigned in this iteration

    # ---- expressions
    def expr(self, e: Optional[ast.AST], da: FrozenSet[str]) -> None:
        if e is None:
            return
        if isinstance(e, ast.Name):
            if isinstance(e.ctx, ast.Load) and e.id in self.interesting and e.id not in da:
                self.uses.append((e.id, e))
            return
        if isinstance(e, (ast.Lambda, ast.FunctionDef, ast.AsyncFunctionDef, ast.ClassDef)):
            return
        if isinstance(e, (ast.ListComp, ast.SetComp, ast.GeneratorExp, ast.DictComp)):
            inner = da
            for g in e.generators:
                self.expr(g.iter, inner)
                inner = inner | frozenset(_names(g.target))
                for c in g.ifs:
                    self.expr(c, inner)
            for part in ([e.key, e.value] if isinstance(e, ast.DictComp) else [e.elt]):
                self.expr(part, inner)
            return
        if isinstance(e, ast.NamedExpr):
            self.expr(e.value, da)
            return
        for c in ast.iter_child_nodes(e):
            self.expr(c, da)

    # ---- statements; returns DA after the statement, or None if it cannot complete normally
    def block(self, stmts: List[ast.stmt], da: FrozenSet[str]) -> Optional[FrozenSet[str]]:
        for s in stmts:
            da = self.stmt(s, da)
            if da is None:
                return None
        return da

    @staticmethod
    def _join(parts: List[Optional[FrozenSet[str]]]) -> Optional[FrozenSet[str]]:
        live = [p for p in parts if p is not None]
        if not live:
            return None
        out = live[0]
        for p in live[1:]:
            out = out & p
        return out

    def stmt(self, s: ast.stmt, da: FrozenSet[str]) -> Optional[FrozenSet[str]]:
        if isinstance(s, ast.Assign):
            self.expr(s.value, da)
            new = set()
            for t in s.targets:
                if isinstance(t, ast.Name):
                    new.add(t.id)
                elif isinstance(t, (ast.Tuple, ast.List)):
                    new |= {n.id for n in ast.walk(t) if isinstance(n, ast.Name) and isinstance(n.ctx, ast.Store)}
                    for n in ast.walk(t):
                        if isinstance(n, (ast.Subscript, ast.Attribute)):
                            self.expr(n.value, da)
                else:
                    self.expr(t, da)   # x[i] = .. / x.a = ..: uses x
                    if isinstance(t, (ast.Subscript, ast.Attribute)):
                        self.expr(t.value, da)
            return da | frozenset(new)
        if isinstance(s, ast.AnnAssign):
            self.expr(s.value, da)
            if isinstance(s.target, ast.Name) and s.value is not None:
                return da | {s.target.id}
            return da
        if isinstance(s, ast.AugAssign):
            self.expr(s.value, da)
            if isinstance(s.target, ast.Name):
                if s.target.id in self.interesting and s.target.id not in da:
                    self.uses.append((s.target.id, s.target))
            else:
                self.expr(s.target, da)
            return da
        if isinstance(s, ast.Expr):
            v = s.value
            if isinstance(v, ast.Call) and isinstance(v.func, ast.Attribute) and v.func.attr == "clear" and not v.args \
                    and isinstance(v.func.value, ast.Name):
                return da | {v.func.value.id}     # x.clear(): the collection starts the iteration empty
            self.expr(v, da)
            return da
        if isinstance(s, (ast.Return, ast.Raise)):
            for c in ast.iter_child_nodes(s):
                self.expr(c, da)
            return None
        if isinstance(s, (ast.Continue, ast.Break)):
            return None
        if isinstance(s, ast.If):
            self.expr(s.test, da)
            walrus = frozenset(n.target.id for n in ast.walk(s.test) if isinstance(n, ast.NamedExpr) and isinstance(n.target, ast.Name))
            return self._join([self.block(s.body, da | walrus), self.block(s.orelse, da | walrus) if s.orelse else da | walrus])
        if isinstance(s, (ast.For, ast.AsyncFor)):
            self.expr(s.iter, da)
            inner = da | frozenset(_names(s.target))
            self.block(s.body, inner)
            after = da
            if s.orelse:
                return self.block(s.orelse, after)
            return after
        if isinstance(s, ast.While):
            self.expr(s.test, da)
            self.block(s.body, da)
            if s.orelse:
                return self.block(s.orelse, da)
            return da
        if isinstance(s, (ast.With, ast.AsyncWith)):
            for item in s.items:
                self.expr(item.context_expr, da)
                if item.optional_vars is not None:
                    da = da | frozenset(_names(item.optional_vars))
            return self.block(s.body, da)
        if isinstance(s, ast.Try):
            body = self.block(s.body, da)
            outs = []
            if s.orelse:
                outs.append(self.block(s.orelse, body) if body is not None else None)
            else:
                outs.append(body)
            for h in s.handlers:
                hda = da | ({h.name} if h.name else frozenset())
                outs.append(self.block(h.body, frozenset(hda)))
            out = self._join(outs)
            if s.finalbody:
                fin = self.block(s.finalbody, da)
                if fin is None:
                    return None
                if out is not None:
                    out = out | (fin - da)
            return out
        if isinstance(s, (ast.FunctionDef, ast.AsyncFunctionDef, ast.ClassDef)):
            return da | {s.name}
        if isinstance(s, (ast.Import, ast.ImportFrom)):
            return da | frozenset((a.asname or a.name).split(".")[0] for a in s.names)
        if isinstance(s, ast.Delete):
            return da - frozenset(n.id for t in s.targets for n in ast.walk(t) if isinstance(n, ast.Name))
        if isinstance(s, ast.Match):
            self.expr(s.subject, da)
            outs = []
            for case in s.cases:
                bound = frozenset(n.name for n in ast.walk(case.pattern) if isinstance(n, (ast.MatchAs, ast.MatchStar)) and n.name)
                outs.append(self.block(case.body, da | bound))
            outs.append(da)
            return self._join(outs)
        for c in ast.iter_child_nodes(s):
            if isinstance(c, ast.expr):
                self.expr(c, da)
        return da


def loop_carried(loop: ast.For) -> Dict[str, ast.AST]:
    """name -> first node at which a value left by an earlier iteration (or by the code before the loop) can be read,
    for the names the loop body itself modifies."""
    interesting = modified_names(loop.body) - _names(loop.target)
    da = _DA(interesting)
    da.block(loop.body, frozenset(_names(loop.target)))
    out: Dict[str, ast.AST] = {}
    for name, node in da.uses:
        out.setdefault(name, node)
    return out
