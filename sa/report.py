"""Obligations, findings, known-findings matching, evidence and the exit protocol."""
from __future__ import annotations

import json
import os
import re
import time
from dataclasses import dataclass, field
from typing import Dict, List, Optional

VERIF = os.path.dirname(os.path.dirname(os.path.abspath(__file__)))
KNOWN_FINDINGS = os.path.join(VERIF, "known_findings.json")

DISCHARGED, VIOLATED, UNDECIDED = "discharged", "violated", "undecided"


# Local variable names of every analysed function (filled by model.Program): finding keys are invariant under a
# consistent renaming of local variables - the names are replaced by placeholders numbered by first appearance.
LOCAL_NAMES: Dict[str, frozenset] = {}
_IDENT = re.compile(r"(?<![\w.])([A-Za-z_]\w*)")


def _is_code(text: str) -> bool:
    if text.endswith("..."):
        return True          # a truncated piece of source text
    try:
        compile(text, "<construct>", "exec", flags=0x400, dont_inherit=True)   # PyCF_ONLY_AST
        return True
    except (SyntaxError, ValueError):
        return False


def alpha(func: str, text: str) -> str:
    """Construct texts are `<code>`, `<prose>` or `<code> # <prose>`: local variable names are replaced in the code
    part only (prose may happen to contain a word that is also the name of a local)."""
    names = LOCAL_NAMES.get(func)
    if not names:
        return text
    code, sep, prose = text.partition(" # ")
    if not _is_code(code):
        return text
    seen: Dict[str, str] = {}

    def sub(m):
        name = m.group(1)
        if name not in names:
            return name
        if name not in seen:
            seen[name] = f"${len(seen) + 1}"
        return seen[name]
    return _IDENT.sub(sub, code) + sep + prose


@dataclass
class Obligation:
    rule: str            # e.g. "R5.1"
    where: str           # pyrefact/<mod>.py:<line>
    func: str            # module.qualname
    construct: str       # normalised text of the construct (part of the key)
    status: str          # discharged | violated | undecided
    detail: str = ""     # what was required / which facts were used / why violated
    trivial: bool = False  # premise absent: counted in evaluations, not in distinct_nontrivial

    @property
    def key(self) -> str:
        return f"{self.rule}|{self.func}|{alpha(self.func, self.construct)}"

    def as_sample(self) -> dict:
        return {"rule": self.rule, "where": self.where, "function": self.func, "construct": self.construct,
                "verdict": self.status, "detail": self.detail}


@dataclass
class Result:
    prop: str
    explanation: str
    rule_text: str
    obligations: List[Obligation] = field(default_factory=list)
    analysed: Dict[str, object] = field(default_factory=dict)
    trusted_base: List[str] = field(default_factory=list)
    assumptions: List[str] = field(default_factory=list)
    floors: Dict[str, int] = field(default_factory=dict)  # rule -> minimum number of decided instances
    notes: List[str] = field(default_factory=list)
    errors: List[str] = field(default_factory=list)      # analysis errors (exit 2)
    selftest: Optional[dict] = None

    def add(self, rule, where, func, construct, status, detail="", trivial=False) -> Obligation:
        ob = Obligation(rule, where, func, construct, status, detail, trivial)
        self.obligations.append(ob)
        return ob

    def ok(self, rule, where, func, construct, detail="", trivial=False):
        return self.add(rule, where, func, construct, DISCHARGED, detail, trivial)

    def bad(self, rule, where, func, construct, detail=""):
        return self.add(rule, where, func, construct, VIOLATED, detail)

    def undecided(self, rule, where, func, construct, detail=""):
        return self.add(rule, where, func, construct, UNDECIDED, detail)

    def decide(self, cond: bool, rule, where, func, construct, detail=""):
        return self.add(rule, where, func, construct, DISCHARGED if cond else VIOLATED, detail)

    def adopt(self, other: "Result", rules, as_rule: str, why: str, keep=None) -> int:
        """Take over the obligations of `rules` decided by another property's check under the rule `as_rule` of this
        property (a mechanism owned by one property that is a necessary condition of this one as well)."""
        n = 0
        for o in other.obligations:
            if o.rule in rules and (keep is None or keep(o)):
                self.add(as_rule, o.where, o.func, f"[{other.prop} {o.rule}] {o.construct}", o.status,
                         (o.detail + " -- " if o.detail else "") + why, o.trivial)
                n += 1
        return n

    def count(self, rule: str, statuses=(DISCHARGED, VIOLATED)) -> int:
        return sum(1 for o in self.obligations if o.rule == rule and o.status in statuses)


def load_known() -> List[dict]:
    if not os.path.exists(KNOWN_FINDINGS):
        return []
    with open(KNOWN_FINDINGS, encoding="utf-8") as stream:
        data = json.load(stream)
    return data.get("findings", [])


def finish(result: Result, tier: str, seed: int, t0: float, evidence_dir: Optional[str] = None,
           out_dir: Optional[str] = None, quiet: bool = False) -> int:
    """Print the report, write evidence/replay files, return the exit code."""
    prop = result.prop
    evidence_dir = evidence_dir or os.path.join(VERIF, "evidence")
    out_dir = out_dir or os.path.join(VERIF, "out")
    known = [k for k in load_known() if k.get("property") == prop and k.get("status") == "known"]
    def _norm_known(key: str) -> str:
        parts = key.split("|", 2)
        if len(parts) < 3 or "$" in parts[2]:
            return key          # stored in normalised form ($n placeholders for local variables)
        return f"{parts[0]}|{parts[1]}|{alpha(parts[1], parts[2])}"
    for k in known:
        k["key"] = _norm_known(k["key"])
    known_keys = {k["key"]: k for k in known}

    # vacuity floors
    for rule, floor in result.floors.items():
        decided = result.count(rule)
        if decided < floor:
            result.errors.append(
                f"rule {rule}: only {decided} decided instance(s), vacuity floor is {floor} "
                f"(undecided: {result.count(rule, (UNDECIDED,))})")

    violations, known_hits = [], []
    seen = set()
    for ob in result.obligations:
        if ob.status != VIOLATED:
            continue
        if ob.key in seen:
            continue
        seen.add(ob.key)
        if ob.key in known_keys:
            known_hits.append((ob, known_keys[ob.key]))
        else:
            violations.append(ob)

    say = (lambda *a: None) if quiet else print
    say(f"== {prop} [{tier}] root={result.analysed.get('root', '/repo')}")
    by_rule: Dict[str, List[Obligation]] = {}
    for ob in result.obligations:
        by_rule.setdefault(ob.rule, []).append(ob)
    for rule in sorted(by_rule):
        obs = by_rule[rule]
        say(f"  {rule}: {len(obs)} instance(s): "
            f"{sum(o.status == DISCHARGED for o in obs)} discharged, "
            f"{sum(o.status == VIOLATED for o in obs)} violated, "
            f"{sum(o.status == UNDECIDED for o in obs)} undecided")
    for ob in result.obligations:
        if ob.status == UNDECIDED:
            say(f"UNDECIDED: {ob.rule} {ob.where} [{ob.func}] {ob.construct} -- {ob.detail}")
    for note in result.notes:
        say(f"NOTE: {note}")
    for ob, k in known_hits:
        say(f"KNOWN-FINDING: property={prop} {ob.rule} {ob.where} [{ob.func}] {ob.construct} -- {k.get('what_fails', ob.detail)}")
    stale = [k for k in known if k["key"] not in {o.key for o, _ in known_hits}]
    for k in stale:
        say(f"NOTE: known finding no longer reported (repaired or construct changed): {k['key']}")

    distinct = {o.key for o in result.obligations if not o.trivial}
    wall = time.time() - t0
    samples = []
    # deterministic sample: violated first, undecided, then a spread of discharged ones
    ordered = sorted(result.obligations, key=lambda o: ({VIOLATED: 0, UNDECIDED: 1, DISCHARGED: 2}[o.status], o.rule, o.key))
    per_rule: Dict[str, int] = {}
    for ob in ordered:
        if per_rule.get(ob.rule, 0) >= (6 if ob.status != DISCHARGED else 3):
            continue
        per_rule[ob.rule] = per_rule.get(ob.rule, 0) + 1
        samples.append(ob.as_sample())
        if len(samples) >= 60:
            break
    evidence = {
        "property_id": prop,
        "tier": tier,
        "seed": seed,
        "level": "other",
        "coverage": {
            "explanation": result.explanation,
            "rule": result.rule_text,
            "evaluations": len(result.obligations),
            "distinct_nontrivial": len(distinct),
            "obligations": len(result.obligations),
            "discharged": sum(o.status == DISCHARGED for o in result.obligations),
            "undecided": sum(o.status == UNDECIDED for o in result.obligations),
            "violated_known": len(known_hits),
            "violated_new": len(violations),
            "per_rule": {r: {s: sum(o.status == s for o in obs) for s in (DISCHARGED, VIOLATED, UNDECIDED)}
                         for r, obs in sorted(by_rule.items())},
            "known_findings": [o.key for o, _ in known_hits],
            "samples": samples,
            "analysed": result.analysed,
            "checker_cmd": f"/venv/bin/python -m sa check {prop} --tier {tier}",
            "trusted_base": result.trusted_base,
            "notes": result.notes,
            "analysis_errors": result.errors,
            "exhaustive": True,
        },
        "assumptions": result.assumptions,
        "wall_s": round(wall, 3),
        "violations": len(violations),
    }
    if result.selftest is not None:
        evidence["coverage"]["selftest"] = result.selftest
    os.makedirs(evidence_dir, exist_ok=True)
    with open(os.path.join(evidence_dir, f"{prop}.json"), "w", encoding="utf-8") as stream:
        json.dump(evidence, stream, indent=1, sort_keys=False)
        stream.write("\n")

    if result.errors and not violations:
        for e in result.errors:
            print(f"ANALYSIS-ERROR property={prop} reason={e}")
        return 2
    if violations:
        # a violation that WAS found stands, even if another rule lost its anchor on the same tree (reported alongside)
        for e in result.errors:
            print(f"ANALYSIS-ERROR property={prop} reason={e}")
        os.makedirs(out_dir, exist_ok=True)
        replay = os.path.join(out_dir, f"{prop}.json")
        with open(replay, "w", encoding="utf-8") as stream:
            json.dump({"property": prop, "tier": tier, "root": result.analysed.get("root"),
                       "violations": [dict(o.as_sample(), key=o.key) for o in violations]}, stream, indent=1)
        for ob in violations:
            print(f"  VIOLATED {ob.rule} {ob.where} [{ob.func}] {ob.construct}\n      -> {ob.detail}\n      key: {ob.key}")
        print(f"VIOLATION property={prop} replay={replay}")
        return 1
    say(f"OK property={prop}: {len(result.obligations)} obligation(s), {len(known_hits)} known finding(s), "
        f"{sum(o.status == UNDECIDED for o in result.obligations)} undecided, {wall:.2f}s")
    return 0
