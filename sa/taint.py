"""Hash-seed taint (C06 R6.3): where does the iteration order of a set of *strings* reach an ordered result?

Sets of str iterate in an order that depends on PYTHONHASHSEED.  The analysis types expressions (flow-insensitive per
function, interprocedural through return types) as
    STR, USET (unordered collection of str), SEQ (ordered collection of str), EXP (ordered collection whose order was
    taken from iterating a USET), DICT(value type), CNT (collections.Counter built from a USET), OTHER
and reports *sinks*, the places where that order certainly becomes observable.
"""
from __future__ import annotations

import ast
from typing import Dict, List, Optional, Set, Tuple

from .defuse import assignments, bindings
from .model import ConstEval, Func, Program, Unresolvable, norm, parent, short, walk_own, walk_body

STR, USET, SEQ, EXP, CNT, OTHER = "STR", "USET", "SEQ", "EXP", "CNT", "OTHER"
STR_ATTRS = {"id", "name", "attr", "arg", "module", "asname"}
STR_METHODS = {"strip", "lstrip", "rstrip", "lower", "upper", "format", "join", "replace", "group", "title", "capitalize",
               "removeprefix", "removesuffix", "expandtabs", "casefold", "zfill", "ljust", "rjust"}
STR_FUNCS = {"core.unparse", "core.get_code", "str", "unparse", "get_code", "repr", "textwrap.dedent", "textwrap.indent", "ast.unparse"}
SET_ANNOTATIONS = ("Collection[str]", "Set[str]", "FrozenSet[str]", "AbstractSet[str]", "set[str]", "frozenset[str]")


class Sink:
    def __init__(self, fn: Func, node: ast.AST, kind: str, detail: str, text_only_imports: bool = False):
        self.fn, self.node, self.kind, self.detail, self.imports_only = fn, node, kind, detail, text_only_imports

    @property
    def key(self):
        return (self.fn.fq, self.kind, norm(self.node))


class Taint:
    def __init__(self, prog: Program):
        self.prog = prog
        self.ret: Dict[Tuple[str, str], str] = {}
        self.envs: Dict[Tuple[str, str], Dict[str, object]] = {}
        self.const_sets: Set[Tuple[str, str]] = set()
        for m in prog.modules.values():
            for name, v in m.globals.items():
                try:
                    val = ConstEval(prog, m).ev(v)
                except Unresolvable:
                    continue
                except Exception:
                    continue
                if isinstance(val, frozenset) and val and all(isinstance(x, str) for x in val):
                    self.const_sets.add((m.name, name))
        for _ in range(4):
            changed = False
            for fn in prog.funcs.values():
                env = self.infer_env(fn)
                self.envs[fn.key] = env
                rt = self.return_type(fn, env)
                if rt != self.ret.get(fn.key):
                    self.ret[fn.key] = rt
                    changed = True
            if not changed:
                break
        self.sinks: List[Sink] = []
        self.exposures = 0
        self.exposure_sites: List[Tuple[Func, ast.AST, str]] = []
        for fn in prog.funcs.values():
            self.find_sinks(fn, self.envs[fn.key])

    # ------------------------------------------------------------------ typing
    def return_type(self, fn: Func, env) -> Optional[str]:
        ann = norm(fn.node.returns) if fn.node.returns is not None else ""
        if any(a in ann for a in SET_ANNOTATIONS):
            return USET
        types = set()
        for n in walk_own(fn.node):
            if isinstance(n, ast.Return) and n.value is not None:
                types.add(self.typ(n.value, fn, env))
            if isinstance(n, ast.Yield) and n.value is not None and self.typ(n.value, fn, env) == STR:
                types.add("GEN_STR")
        if types == {USET}:
            return USET
        if types == {STR}:
            return STR
        if types == {SEQ}:
            return SEQ
        if types == {EXP}:
            return EXP
        return None

    def infer_env(self, fn: Func) -> Dict[str, object]:
        env: Dict[str, object] = {}
        a = fn.node.args
        for arg in a.posonlyargs + a.args + a.kwonlyargs:
            if arg.annotation is not None:
                t = norm(arg.annotation)
                if any(x in t for x in SET_ANNOTATIONS):
                    env[arg.arg] = USET
                elif t == "str":
                    env[arg.arg] = STR
        for _ in range(4):
            changed = False
            for name, defs in bindings(fn).items():
                if name in env and not isinstance(env[name], tuple):
                    cur = env[name]
                else:
                    cur = env.get(name)
                new = cur
                for stmt, value in defs:
                    t = None
                    if value is not None:
                        t = self.typ(value, fn, env)
                        if isinstance(value, ast.Call) and (self.prog.dotted(value.func) or "") in ("collections.defaultdict", "defaultdict") and value.args:
                            inner = norm(value.args[0])
                            t = ("DICT", {"list": "LIST?", "set": "SET?"}.get(inner, OTHER))
                    elif isinstance(stmt, (ast.For, ast.AsyncFor)):
                        t = self.loop_var_type(stmt, name, fn, env)
                    if t is not None and t != OTHER:
                        new = self._merge(new, t)
                if new != cur and new is not None:
                    env[name] = new
                    changed = True
            # element types of dict-of-collections and plain collections filled by method calls
            for n in walk_own(fn.node):
                if isinstance(n, ast.Call) and isinstance(n.func, ast.Attribute) and n.args:
                    m = n.func.attr
                    recv = n.func.value
                    if m in ("append", "add", "extend", "update", "insert"):
                        arg = n.args[-1] if m == "insert" else n.args[0]
                        at = self.typ(arg, fn, env)
                        is_str = at == STR or (m in ("extend", "update") and (at in (SEQ, USET, EXP) or self._elt_is_str(arg, fn, env)))
                        if not is_str:
                            continue
                        if isinstance(recv, ast.Subscript) and isinstance(recv.value, ast.Name):
                            d = env.get(recv.value.id)
                            if isinstance(d, tuple) and d[0] == "DICT":
                                want = ("DICT", SEQ if m in ("append", "extend", "insert") and d[1] in ("LIST?", SEQ) else USET if d[1] in ("SET?", USET) else d[1])
                                if want != d:
                                    env[recv.value.id] = want
                                    changed = True
                        elif isinstance(recv, ast.Name):
                            cur = env.get(recv.id)
                            defs = [v for _, v in assignments(fn, recv.id) if v is not None]
                            if cur is None and defs and all(self._empty(v) for v in defs):
                                kind = SEQ if all(isinstance(v, ast.List) or norm(v) == "list()" for v in defs) else \
                                    USET if all(norm(v) in ("set()",) or isinstance(v, ast.Set) for v in defs) else None
                                if kind:
                                    env[recv.id] = kind
                                    changed = True
            if not changed:
                break
        return env

    @staticmethod
    def _empty(v: ast.AST) -> bool:
        return (isinstance(v, (ast.List, ast.Set, ast.Tuple)) and not v.elts) or norm(v) in ("set()", "list()")

    @staticmethod
    def _merge(a, b):
        if a is None or a == b:
            return b
        if USET in (a, b) and {a, b} <= {USET, SEQ, EXP}:
            return USET
        return a

    def loop_var_type(self, loop: ast.For, name: str, fn: Func, env) -> Optional[str]:
        it_t = self.typ(loop.iter, fn, env)
        if isinstance(loop.target, ast.Name) and loop.target.id == name and it_t in (USET, SEQ, EXP):
            return STR
        if isinstance(loop.target, ast.Tuple) and isinstance(loop.iter, ast.Call) and isinstance(loop.iter.func, ast.Attribute) \
                and loop.iter.func.attr == "items" and isinstance(loop.iter.func.value, ast.Name):
            d = env.get(loop.iter.func.value.id)
            if isinstance(d, tuple) and len(loop.target.elts) == 2 and isinstance(loop.target.elts[1], ast.Name) and loop.target.elts[1].id == name:
                return d[1] if d[1] in (SEQ, USET) else None
        return None

    def _elt_is_str(self, e: ast.AST, fn: Func, env) -> bool:
        if isinstance(e, (ast.GeneratorExp, ast.ListComp, ast.SetComp)):
            env2 = dict(env)
            for g in e.generators:
                if isinstance(g.target, ast.Name) and self.typ(g.iter, fn, env2) in (USET, SEQ, EXP):
                    env2[g.target.id] = STR
            return self.typ(e.elt, fn, env2) == STR
        return False

    def typ(self, e: ast.AST, fn: Func, env) -> object:
        if isinstance(e, ast.Constant):
            return STR if isinstance(e.value, str) else OTHER
        if isinstance(e, ast.JoinedStr):
            return STR
        if isinstance(e, ast.Name):
            t = env.get(e.id)
            if t is not None:
                return t
            if (fn.mod.name, e.id) in self.const_sets and e.id not in bindings(fn):
                return USET
            return OTHER
        if isinstance(e, ast.Attribute):
            if e.attr in STR_ATTRS:
                return STR
            d = self.prog.dotted(e)
            if d and "." in d:
                head, name = d.split(".", 1)
                al = fn.mod.aliases.get(head)
                if al and al[0] == "module" and (al[1], name) in self.const_sets:
                    return USET
            return OTHER
        if isinstance(e, ast.IfExp):
            a, b = self.typ(e.body, fn, env), self.typ(e.orelse, fn, env)
            return a if a == b else (USET if USET in (a, b) else OTHER)
        if isinstance(e, ast.Set):
            return USET if e.elts and all(self.typ(x, fn, env) == STR for x in e.elts) else OTHER
        if isinstance(e, (ast.List, ast.Tuple)):
            return SEQ if e.elts and all(self.typ(x, fn, env) == STR for x in e.elts) else OTHER
        if isinstance(e, ast.SetComp):
            return USET if self._elt_is_str(e, fn, env) else OTHER
        if isinstance(e, (ast.ListComp, ast.GeneratorExp)):
            if not self._elt_is_str(e, fn, env):
                # a comprehension over a USET with non-str elements still carries its order
                if any(self.typ(g.iter, fn, env) == USET for g in e.generators):
                    return EXP
                return OTHER
            if any(self.typ(g.iter, fn, env) in (USET, EXP) for g in e.generators):
                return EXP
            return SEQ
        if isinstance(e, ast.BinOp) and isinstance(e.op, (ast.BitOr, ast.BitAnd, ast.Sub, ast.BitXor)):
            l, r = self.typ(e.left, fn, env), self.typ(e.right, fn, env)
            if USET in (l, r):
                return USET
            if self._is_keys(e.left, fn, env) or self._is_keys(e.right, fn, env):
                return USET
            return OTHER
        if isinstance(e, ast.BinOp) and isinstance(e.op, ast.Add):
            l, r = self.typ(e.left, fn, env), self.typ(e.right, fn, env)
            if STR in (l, r):
                return STR
            if EXP in (l, r):
                return EXP
            if l == r == SEQ:
                return SEQ
            return OTHER
        if isinstance(e, ast.Subscript):
            base = self.typ(e.value, fn, env)
            if isinstance(base, tuple) and base[0] == "DICT":
                return base[1] if base[1] in (SEQ, USET, STR) else OTHER
            if base in (SEQ, EXP):
                return base if isinstance(e.slice, ast.Slice) else STR
            return OTHER
        if isinstance(e, ast.Call):
            d = self.prog.dotted(e.func) or ""
            if d in STR_FUNCS:
                return STR
            if isinstance(e.func, ast.Attribute):
                m = e.func.attr
                base = self.typ(e.func.value, fn, env)
                if m in STR_METHODS and (base == STR or m in ("join", "format")):
                    return STR
                if base == USET and m in ("union", "intersection", "difference", "symmetric_difference", "copy"):
                    return USET
                if m in ("union", "intersection", "difference") and any(self.typ(a, fn, env) == USET for a in e.args):
                    return USET
                if base == CNT and m == "most_common":
                    return EXP
                if isinstance(base, tuple) and base[0] == "DICT" and m == "get" and base[1] in (SEQ, USET):
                    return base[1]
                if isinstance(base, tuple) and base[0] == "DICT" and m == "values" and base[1] in (SEQ, USET):
                    return ("COLL", base[1])
            if d in ("set", "frozenset"):
                if not e.args:
                    return OTHER
                a = e.args[0]
                at = self.typ(a, fn, env)
                if at in (USET, SEQ, EXP) or self._elt_is_str(a, fn, env) or self._is_keys(a, fn, env):
                    return USET
                if isinstance(at, tuple) and at[0] == "COLL":
                    return OTHER
                return OTHER
            if d == "sorted" and e.args:
                at = self.typ(e.args[0], fn, env)
                if at in (USET, SEQ, EXP) or self._elt_is_str(e.args[0], fn, env):
                    key = next((k for k in e.keywords if k.arg == "key"), None)
                    if key is None:
                        return SEQ            # total order on str: the seed is forgotten
                    return EXP if at in (USET, EXP) else SEQ
                return OTHER
            if d in ("list", "tuple", "iter", "reversed") and e.args:
                at = self.typ(e.args[0], fn, env)
                if at in (USET, EXP):
                    return EXP
                if at == SEQ:
                    return SEQ
                return OTHER
            if d in ("enumerate", "zip") and e.args:
                if any(self.typ(a, fn, env) in (USET, EXP) for a in e.args):
                    return EXP
                return OTHER
            if d in ("collections.Counter", "Counter") and e.args:
                at = self.typ(e.args[0], fn, env)
                return CNT if at in (USET, EXP) else OTHER
            if d == "dict.fromkeys" and e.args and self.typ(e.args[0], fn, env) in (USET, EXP):
                return EXP
            r = self.prog.resolve_call(e.func, fn.mod, fn)
            if r and r[0] == "fn":
                rt = self.ret.get(r[1].key)
                if rt in (USET, STR, SEQ, EXP):
                    return rt
            return OTHER
        return OTHER

    def _is_keys(self, e: ast.AST, fn: Func, env) -> bool:
        return isinstance(e, ast.Call) and isinstance(e.func, ast.Attribute) and e.func.attr == "keys" and False

    # ------------------------------------------------------------------ sinks
    def find_sinks(self, fn: Func, env) -> None:
        def add(node, kind, detail):
            self.sinks.append(Sink(fn, node, kind, detail, self._imports_only(fn, node)))

        for n in walk_own(fn.node):
            if isinstance(n, ast.Call):
                d = self.prog.dotted(n.func) or ""
                # (a) join over an unordered or exposed collection
                if isinstance(n.func, ast.Attribute) and n.func.attr == "join" and n.args:
                    t = self.typ(n.args[0], fn, env)
                    if t in (USET, EXP):
                        self.exposures += 1
                        add(n, "join", f"joins a sequence whose order comes from iterating a set of str ({short(n.args[0], 50)})")
                # (b) positional choices
                if isinstance(n.func, ast.Attribute) and n.func.attr == "pop" and not n.args and self.typ(n.func.value, fn, env) == USET:
                    self.exposures += 1
                    add(n, "pop", "set.pop() takes an arbitrary element of a set of str")
                if d == "next" and n.args and self.typ(n.args[0], fn, env) in (EXP, USET):
                    self.exposures += 1
                    add(n, "next", "first element of an iteration over a set of str")
                if d in ("min", "max") and n.args and any(k.arg == "key" for k in n.keywords) and self.typ(n.args[0], fn, env) in (USET, EXP):
                    self.exposures += 1
                    add(n, "minmax-key", "min/max with a key over a set of str: ties are broken by iteration order")
                if isinstance(n.func, ast.Attribute) and n.func.attr == "most_common" and self.typ(n.func.value, fn, env) == CNT:
                    self.exposures += 1
                    add(n, "most_common", "Counter built from a set of str: all counts are 1, most_common() returns them in set iteration order")
            if isinstance(n, ast.Subscript) and not isinstance(n.ctx, ast.Store):
                t = self.typ(n.value, fn, env)
                if t == EXP and (isinstance(n.slice, ast.Slice) or isinstance(n.slice, (ast.Constant, ast.UnaryOp))):
                    if not (isinstance(parent(n), ast.Subscript) and self.typ(parent(n).value, fn, env) == EXP):
                        self.exposures += 1
                        add(n, "index", f"positional selection from a sequence ordered by set iteration ({short(n.value, 50)})")
            # every place where a set of str is iterated into something ordered is an exposure site (sink or not)
            if isinstance(n, (ast.ListComp, ast.GeneratorExp, ast.DictComp)) and any(self.typ(g.iter, fn, env) == USET for g in n.generators):
                self.exposure_sites.append((fn, n, "comprehension over a set of str"))
            if isinstance(n, ast.Call) and (self.prog.dotted(n.func) or "") in ("list", "tuple", "enumerate", "zip", "iter", "collections.Counter", "dict.fromkeys") \
                    and n.args and self.typ(n.args[0], fn, env) == USET:
                self.exposure_sites.append((fn, n, f"{self.prog.dotted(n.func)}() of a set of str"))
            # (c) loops over sets of str
            if isinstance(n, (ast.For, ast.AsyncFor)) and self.typ(n.iter, fn, env) in (USET,):
                self.exposures += 1
                self.exposure_sites.append((fn, n, "for loop over a set of str"))
                body = list(walk_body(n.body))
                for b in body:
                    if isinstance(b, ast.Call) and isinstance(b.func, ast.Attribute) and b.func.attr in ("append", "insert", "extend") \
                            and isinstance(b.func.value, ast.Name):
                        tgt = b.func.value.id
                        if self._flows_to_text(fn, tgt):
                            add(b, "ordered-accumulation", f"'{tgt}' is filled in set-iteration order and later joined / returned as text")
                    if isinstance(b, (ast.Return, ast.Break)) and not self._whole_loop_exit(n, b):
                        add(b, "first-match", "the first element (in set-iteration order) that satisfies the test decides")
                    if isinstance(b, ast.AugAssign) and isinstance(b.target, ast.Name) and isinstance(b.op, ast.Add):
                        # a counter stepped per element that numbers transactions / names
                        ctr = b.target.id
                        if any(isinstance(y, ast.Yield) and isinstance(y.value, ast.Tuple) and len(y.value.elts) == 3
                               and isinstance(y.value.elts[2], ast.Name) and y.value.elts[2].id == ctr for y in body):
                            add(b, "transaction-numbering", f"transaction ids '{ctr}' are assigned in set-iteration order: precedence among conflicting rewrites depends on the seed")

    def _whole_loop_exit(self, loop, b) -> bool:
        # `return` that is unconditional at the end of the loop body is not a first-match selection
        return False if isinstance(parent(b), ast.If) else True

    def _flows_to_text(self, fn: Func, name: str) -> bool:
        for n in walk_own(fn.node):
            if isinstance(n, ast.Call) and isinstance(n.func, ast.Attribute) and n.func.attr == "join" and n.args \
                    and any(isinstance(x, ast.Name) and x.id == name for x in ast.walk(n.args[0])):
                return True
        return False

    def _imports_only(self, fn: Func, node: ast.AST) -> bool:
        """Every string literal that reaches the sink's text is an import statement prefix."""
        st = node
        while st is not None and not isinstance(st, (ast.For, ast.stmt)):
            st = parent(st)
        loop = node
        while loop is not None and not isinstance(loop, ast.For):
            loop = parent(loop)
        scope = loop if loop is not None else st
        lits = []
        for n in ast.walk(scope):
            if isinstance(n, ast.JoinedStr):
                first = n.values[0] if n.values else None
                lits.append(first.value if isinstance(first, ast.Constant) else "")
            elif isinstance(n, ast.Constant) and isinstance(n.value, str) and not isinstance(parent(n), ast.JoinedStr):
                if parent(n) is not None and isinstance(parent(n), ast.Call) and n in parent(n).args and (self.prog.dotted(parent(n).func) or "").startswith("logger."):
                    continue
                lits.append(n.value)
        lits = [l for l in lits if l.strip()]
        return bool(lits) and all(l.startswith(("import ", "from ")) or l in (", ",) for l in lits)
