"""Generate /verif/MANIFEST.json from the META records of the property modules: python -m sa.manifest"""
from __future__ import annotations

import importlib
import json
import os
import subprocess

VERIF = os.path.dirname(os.path.dirname(os.path.abspath(__file__)))
ALL = [f"C{i:02d}" for i in range(1, 21)]

NOT_APPLICABLE = {
    "C01": "Equality of program behaviour before/after an ~80-rule fixpoint quantifies over run-time semantics of "
           "arbitrary programs; no sound static abstraction in reach relates input and output program semantics. Its "
           "statically visible necessary conditions are claimed under C05, C07, C08, C15, C16, C17, C19.",
    "C02": "Same quantifier per rule (observable behaviour of arbitrary programs); the only exact static fragment "
           "(template closure: every wildcard of a replacement is bound by its find template) is a crash condition "
           "and is checked as C04 R4.f; a wildcard-linearity lint would be a ranked heuristic, not a decision.",
    "C09": "Convergence within five applications is a limit property of the composition of ~80 mutually undoing "
           "text-to-text rules; the code has no termination measure, only a history cut. No static abstraction decides "
           "it. The termination clause (bounded loops, bounded recursion) is decided under C04.",
    "C14": "The result of the textual splice for arbitrary (pattern, replacement, source, count) is value-level "
           "(indent repair, whitespace minimisation); its shape clauses are pinned by the suite (count) or owned by "
           "C03 (rollback), C10 (scheduler) and C20 (ignore comments).",
}

BASELINE_OFF = ("cd /repo && /venv/bin/python -m pytest -ra -q -p no:cacheprovider --timeout=900 "
                "--continue-on-collection-errors tests/unit/test_literal_value.py tests/unit/test_match_template.py "
                "tests/unit/test_pattern_matching.py tests/unit/test_pattern_zeroormore_zeroorone_zeroormany.py "
                "tests/integration/test_imports.py tests/integration/test_tracing.py")


def build() -> dict:
    checks, na = [], []
    for prop in ALL:
        path = os.path.join(VERIF, "sa", "props", f"{prop.lower()}.py")
        meta = None
        if os.path.exists(path):
            mod = importlib.import_module(f"sa.props.{prop.lower()}")
            meta = getattr(mod, "META", None)
        if meta is None:
            na.append({"property_id": prop,
                       "reason": NOT_APPLICABLE.get(prop, "static check not built yet (planned, see DESIGN.md section 3)")})
            continue
        checks.append({
            "property_id": prop,
            "quick_cmd": f"/venv/bin/python -m sa check {prop} --tier quick",
            "thorough_cmd": f"/venv/bin/python -m sa check {prop} --tier thorough",
            "evidence_file": f"/verif/evidence/{prop}.json",
            "replay_cmd_template": "/venv/bin/python -m sa explain {path}",
            "engine": "sa",
            "level_claimed": {"category": "other", "text": meta["level_text"], "design_ref": meta["design_ref"]},
            "level_note": meta["level_note"],
            "technique": meta["technique"],
        })
    fixes = []
    kf = os.path.join(VERIF, "known_findings.json")
    if os.path.exists(kf):
        with open(kf) as stream:
            fixes = [f"{e['property']}: {e['status']}" for e in json.load(stream).get("findings", []) if e["status"].startswith("fixed")]
    return {
        "version": 1,
        "setup_cmd": "/venv/bin/python -m compileall -q sa",
        "hooks": {
            "guard": "PYREFACT_VERIF",
            "enable": "none - the checks are static analyses that read /repo/pyrefact/*.py; nothing in /repo is instrumented",
            "baseline_off_cmd": "cd /repo && /venv/bin/python -m pytest -ra -q -p no:cacheprovider --timeout=900 --continue-on-collection-errors",
            "source_commits": [],
            "add_only": True,
        },
        "engines": [{
            "name": "sa",
            "path": "/verif/sa",
            "serves_properties": [c["property_id"] for c in checks],
            "kind_free_text": "repository-specific static analysis on the Python ast (stdlib only): program model + "
                              "call resolution, path-condition must-analysis with versioned facts, ownership/escape "
                              "abstract interpretation, table extractors, def-use",
        }],
        "checks": checks,
        "notes": "Static analysis only; exit 0 = all obligations discharged or listed in known_findings.json "
                 "(KNOWN-FINDING lines), exit 1 = VIOLATION, exit 2 = ANALYSIS-ERROR (no verdict). "
                 "Genuine defects repaired in /repo by unguarded 'fix:' commits are recorded in known_findings.json "
                 "with status fixed:<commit>. " + (" ".join(fixes) if fixes else ""),
        "not_applicable": na,
    }


if __name__ == "__main__":
    data = build()
    with open(os.path.join(VERIF, "MANIFEST.json"), "w", encoding="utf-8") as stream:
        json.dump(data, stream, indent=1)
        stream.write("\n")
    print(f"{len(data['checks'])} checks, {len(data['not_applicable'])} not applicable")
