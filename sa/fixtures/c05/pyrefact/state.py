"""Positive control for C05 R5.2 (module-level mutable state) and R5.1 (cached tree mutation). Not part of pyrefact."""
import ast
import functools

_SEEN = []


@functools.lru_cache(maxsize=10)
def parse(source: str) -> ast.Module:
    return ast.parse(source)


def remember(source: str) -> int:
    _SEEN.append(source)
    return len(_SEEN)


def mutate_cached(source: str) -> None:
    parse(source).body.sort()


@functools.lru_cache(maxsize=1000)
def first_statement(source: str) -> ast.AST:
    return ast.parse(source).body[0]


def is_first(source: str) -> bool:
    # identity comparison between objects of two caches with different lifetimes
    return first_statement(source) in parse(source).body
