"""Shared analysis of the compile-time evaluator core.literal_value (C04 R4.a, C15 R15.2-R15.4)."""
from __future__ import annotations

import ast
import builtins
from typing import Dict, List, Optional, Sequence, Set, Tuple

from .model import AnalysisError, Func, Program, ancestors, norm, parent, short, walk_own

SIGNAL = "ValueError"


def exc_class(name: str):
    name = name.split(".")[-1]
    obj = getattr(builtins, name, None)
    return obj if isinstance(obj, type) and issubclass(obj, BaseException) else None


def handler_names(h: ast.ExceptHandler) -> Optional[List[str]]:
    """None = bare except (catches everything)."""
    if h.type is None:
        return None
    elts = h.type.elts if isinstance(h.type, ast.Tuple) else [h.type]
    return [norm(e) for e in elts]


def covers(h: ast.ExceptHandler, exc: str) -> bool:
    names = handler_names(h)
    if names is None:
        return True
    e = exc_class(exc)
    for n in names:
        c = exc_class(n)
        if c is not None and e is not None and issubclass(e, c):
            return True
        if c is None and n.split(".")[-1] == exc:
            return True
    return False


def enclosing_tries(node: ast.AST, stop: ast.AST) -> List[ast.Try]:
    """Try statements whose *body* contains node (innermost first), up to the function node `stop`."""
    out = []
    prev = node
    for a in ancestors(node):
        if a is stop:
            break
        if isinstance(a, ast.Try) and any(prev is s for s in a.body):
            out.append(a)
        prev = a
    return out


def caught(node: ast.AST, fn: Func, exc: str) -> Optional[ast.ExceptHandler]:
    for t in enclosing_tries(node, fn.node):
        for h in t.handlers:
            if covers(h, exc):
                return h
    return None


def handler_raises_signal(h: ast.ExceptHandler) -> bool:
    """Every exit of the handler body is `raise ValueError(...)` (re-raise of a ValueError is fine too)."""
    last = h.body[-1] if h.body else None
    if isinstance(last, ast.Raise):
        if last.exc is None:
            return handler_names(h) is not None and all(n.split(".")[-1] == SIGNAL for n in handler_names(h))
        e = last.exc
        if isinstance(e, ast.Call):
            e = e.func
        return norm(e).split(".")[-1] == SIGNAL
    return False


class Evaluator:
    def __init__(self, prog: Program):
        self.prog = prog
        self.entry = prog.func("core", "literal_value")
        self._pa: Dict = {}
        # functions of the evaluator: reachable from the entry through repository calls inside core, minus analysers
        self.members: List[Func] = []
        todo = [self.entry]
        seen = set()
        while todo:
            f = todo.pop()
            if f.key in seen:
                continue
            seen.add(f.key)
            self.members.append(f)
            for c in prog.calls_in(f):
                r = prog.resolve_call(c.func, f.mod, f)
                if r and r[0] == "fn" and r[1].mod.name == "core" and r[1].name.lstrip("_").startswith("literal_value"):
                    todo.append(r[1])
        # ... plus every helper reachable from them that itself performs a primitive (a builtin / method / operator-table
        # call on evaluated values), whatever its name: moving a primitive into a helper must not hide it
        todo = list(self.members)
        reach = set(seen)
        while todo:
            f = todo.pop()
            for c in prog.calls_in(f):
                r = prog.resolve_call(c.func, f.mod, f)
                if r and r[0] == "fn" and r[1].key not in reach:
                    reach.add(r[1].key)
                    todo.append(r[1])
                    if any(self.primitive_kind(c2, r[1]) for c2 in prog.calls_in(r[1])):
                        self.members.append(r[1])

    # ------------------------------------------------------------------ primitives
    def callee_forms(self, c: ast.Call, f: Func) -> List[Tuple[ast.AST, ast.AST]]:
        """(callee expression, node at which its guarding conditions hold).  A callee that is a local variable stands
        for each expression it is bound to: `function = getattr(builtins, n)` ... `function(*args)`."""
        fn = c.func
        if isinstance(fn, ast.Name):
            from .defuse import bindings
            bs = bindings(f).get(fn.id, [])
            if bs and fn.id not in f.all_params:
                return [(v, st) for (st, v) in bs if v is not None and not (isinstance(v, ast.Constant) and v.value is None)]
        # a builtin looked up and handed to a helper that calls it: helper(getattr(builtins, n), args)
        passed = [(a, c) for a in c.args if isinstance(a, ast.Call) and isinstance(a.func, ast.Name) and a.func.id == "getattr"
                  and a.args and norm(a.args[0]) == "builtins"]
        return [(fn, c)] + passed

    @staticmethod
    def _kind(prog: Program, fn: ast.AST) -> Optional[str]:
        if isinstance(fn, ast.Subscript) and "COMPARISON_OPERATORS" in norm(fn.value):
            return "operator table call"
        if isinstance(fn, ast.Call) and isinstance(fn.func, ast.Name) and fn.func.id == "getattr" and fn.args:
            if norm(fn.args[0]) == "builtins":
                return "builtin call"
            return "method call on evaluated receiver"
        if prog.dotted(fn) == "ast.literal_eval":
            return "ast.literal_eval"
        return None

    def primitive_sites(self) -> List[Tuple[Func, ast.Call, str]]:
        out = []
        for f in self.members:
            for c in self.prog.calls_in(f):
                for kind in dict.fromkeys(self._kind(self.prog, e) for e, _ in self.callee_forms(c, f)):
                    if kind:
                        out.append((f, c, kind))
        return out

    def primitive_kind(self, c: ast.Call, f: Func) -> Optional[str]:
        for e, _ in self.callee_forms(c, f):
            k = self._kind(self.prog, e)
            if k:
                return k
        return None

    def is_core(self, f: Func) -> bool:
        return f.name.lstrip("_").startswith("literal_value")

    def guard_sites(self, f: Func, c: ast.Call, kind: str) -> List[List[Tuple[Func, ast.AST, ast.AST, Dict[str, str]]]]:
        """Alternatives (any one suffices); each alternative is a list of (function, node, callee expression, substitution):
        the conditions under which the primitive is performed must hold at EVERY site of one alternative.  Alternative 1:
        where the callee expression is formed inside f.  Alternative 2 (helpers only): every call of the helper from the
        evaluator, with the helper's parameter names standing for the argument texts."""
        forms = [(e, at) for e, at in self.callee_forms(c, f) if self._kind(self.prog, e) == kind]
        alts = [[(f, at, e, {}) for e, at in forms]]
        if not self.is_core(f):
            outer = []
            for g in self.members:
                if g.key == f.key:
                    continue
                for c2 in self.prog.calls_in(g):
                    r = self.prog.resolve_call(c2.func, g.mod, g)
                    if r and r[0] == "fn" and r[1].key == f.key:
                        subst = {}
                        for i, a in enumerate(c2.args):
                            if i < len(f.posparams) and not isinstance(a, ast.Starred):
                                subst[f.posparams[i]] = norm(a)
                        for kw in c2.keywords:
                            if kw.arg:
                                subst[kw.arg] = norm(kw.value)
                        for e, _at in forms:
                            outer.append((g, c2, e, subst))
            if outer:
                alts.append(outer)
        return alts

    def escapes(self) -> Dict[Tuple[str, str], List[Tuple[ast.AST, str]]]:
        """For each member: sites from which an exception other than the signal can leave the function."""
        esc: Dict[Tuple[str, str], List[Tuple[ast.AST, str]]] = {f.key: [] for f in self.members}
        for f, c, kind in self.primitive_sites():
            h = caught(c, f, "Exception")
            if h is None or not handler_raises_signal(h):
                esc[f.key].append((c, kind))
        for _ in range(4):
            changed = False
            for f in self.members:
                for c in self.prog.calls_in(f):
                    r = self.prog.resolve_call(c.func, f.mod, f)
                    if r and r[0] == "fn" and r[1].key in esc and esc[r[1].key] and r[1].key != f.key:
                        h = caught(c, f, "Exception")
                        if h is None or not handler_raises_signal(h):
                            item = (c, f"call of {r[1].name}, which lets foreign exceptions escape")
                            if not any(x[0] is c for x in esc[f.key]):
                                esc[f.key].append(item)
                                changed = True
            if not changed:
                break
        return esc

    # ------------------------------------------------------------------ external call sites
    def call_sites(self) -> List[Tuple[Func, ast.Call]]:
        member_keys = {f.key for f in self.members}
        out = []
        for f in self.prog.funcs.values():
            if f.key in member_keys:
                continue
            for c in self.prog.calls_in(f):
                r = self.prog.resolve_call(c.func, f.mod, f)
                if r and r[0] == "fn" and r[1].key == self.entry.key:
                    out.append((f, c))
        return sorted(out, key=lambda t: (t[0].mod.name, t[1].lineno))

    def raw_call_sites(self) -> List[Tuple[Func, ast.Call, Func]]:
        """Calls from outside the evaluator to one of its inner functions (not the public entry)."""
        member = {f.key: f for f in self.members}
        out = []
        for f in self.prog.funcs.values():
            if f.key in member:
                continue
            for c in self.prog.calls_in(f):
                r = self.prog.resolve_call(c.func, f.mod, f)
                if r and r[0] == "fn" and r[1].key in member and r[1].key != self.entry.key:
                    out.append((f, c, r[1]))
        return sorted(out, key=lambda t: (t[0].mod.name, t[1].lineno))

    # ------------------------------------------------------------------ whitelist of invoked builtins
    def dispatch_guards(self, f: Func, c: ast.Call) -> Tuple[bool, List[Tuple[Func, ast.AST]]]:
        """(guarded on every path, set expressions): membership tests `<callee name> in <SET>` known to hold where the
        builtin callee is formed (or at every call of the helper that forms it)."""
        from .pathcond import PathAnalysis, entails
        best: Tuple[bool, List[Tuple[Func, ast.AST]]] = (False, [])
        for alt in self.guard_sites(f, c, "builtin call"):
            sets: List[Tuple[Func, ast.AST]] = []
            ok = bool(alt)
            for g, at, e, subst in alt:
                subject = norm(e.args[1]) if len(e.args) > 1 else None
                subject = subst.get(subject, subject)
                cands = [n for n in ast.walk(g.node) if isinstance(n, ast.Compare) and len(n.ops) == 1 and isinstance(n.ops[0], ast.In)
                         and norm(n.left) == subject]
                pa = self._pa.setdefault(g.key, PathAnalysis(self.prog, g))
                worlds = pa.worlds_at(at)
                ok = ok and bool(worlds)
                for w in worlds:
                    hit = [n.comparators[0] for n in cands if entails(w.facts, pa.formula(n, w))]
                    ok = ok and bool(hit)
                    for h in hit:
                        if not any(h is x for _, x in sets):
                            sets.append((g, h))
            if ok:
                return True, sets
            if sets and not best[1]:
                best = (False, sets)
        return best

    def builtin_guard_sets(self) -> List[Tuple[Func, ast.AST, str]]:
        """Set expressions deciding which builtins are invoked: `X.id in <SET>` holding where getattr(builtins, ..) is formed
        and the whitelist handed to has_side_effect as precondition."""
        out = []
        for f, c, kind in self.primitive_sites():
            if kind != "builtin call":
                continue
            for g, expr in self.dispatch_guards(f, c)[1]:
                out.append((g, expr, "dispatch guard"))
        for f in self.members:
            for c in self.prog.calls_in(f):
                r = self.prog.resolve_call(c.func, f.mod, f)
                if r and r[0] == "fn" and r[1].key == ("core", "has_side_effect"):
                    for kw in c.keywords:
                        if kw.arg == "safe_callable_whitelist":
                            out.append((f, kw.value, "side-effect precondition"))
                    if len(c.args) >= 2:
                        out.append((f, c.args[1], "side-effect precondition"))
        return out
