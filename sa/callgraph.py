"""Call graph over resolved repository calls and reachability from the entry points."""
from __future__ import annotations

import ast
from typing import Dict, List, Set, Tuple

from .model import Func, Program, walk_own

ENTRY_POINTS = [("main", "format_code"), ("main", "format_file"), ("main", "format_files"), ("main", "main"),
                ("pattern_matching", "finditer"), ("pattern_matching", "findall"), ("pattern_matching", "search"),
                ("pattern_matching", "match"), ("pattern_matching", "fullmatch"), ("pattern_matching", "sub"),
                ("pattern_matching", "subn"), ("pattern_matching", "main")]


class CallGraph:
    def __init__(self, prog: Program):
        self.prog = prog
        self.edges: Dict[Tuple[str, str], Set[Tuple[str, str]]] = {k: set() for k in prog.funcs}
        self.resolved = self.unresolved = 0
        for fn in prog.funcs.values():
            for c in prog.calls_in(fn):
                r = prog.resolve_call(c.func, fn.mod, fn)
                if r and r[0] == "fn":
                    self.edges[fn.key].add(r[1].key)
                    self.resolved += 1
                elif r and r[0] == "cls":
                    for m in ("__init__", "__post_init__", "__call__"):
                        k = (r[1].mod.name, f"{r[1].qual}.{m}")
                        if k in prog.funcs:
                            self.edges[fn.key].add(k)
                    self.resolved += 1
                else:
                    self.unresolved += 1
            # functions referenced as values (processing.chain((f, g)), key=f, map(f, ..))
            for n in walk_own(fn.node):
                if isinstance(n, (ast.Name, ast.Attribute)) and isinstance(getattr(n, "ctx", None), ast.Load):
                    r = prog.resolve_call(n, fn.mod, fn)
                    if r and r[0] == "fn" and r[1].key != fn.key:
                        self.edges[fn.key].add(r[1].key)
            # nested functions and methods of classes defined / instantiated here
            for k, f in prog.funcs.items():
                if f.outer is fn:
                    self.edges[fn.key].add(k)
        # methods: a class instantiated anywhere makes its methods reachable from its __init__ host
        for (mod, qual), ci in prog.classes.items():
            members = [k for k in prog.funcs if k[0] == mod and k[1].startswith(qual + ".") and "<locals>" not in k[1][len(qual) + 1:]]
            for a in members:
                for b in members:
                    if a != b:
                        self.edges[a].add(b)

    def reachable(self, roots=None) -> Set[Tuple[str, str]]:
        roots = [r for r in (roots or ENTRY_POINTS) if r in self.prog.funcs]
        seen: Set[Tuple[str, str]] = set()
        todo = list(roots)
        while todo:
            k = todo.pop()
            if k in seen:
                continue
            seen.add(k)
            todo.extend(self.edges.get(k, ()))
        return seen
