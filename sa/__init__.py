"""Static analysis checkers for the pyrefact properties (see /verif/DESIGN.md).

Nothing in this package imports or runs pyrefact: every check parses the source under
``<root>/pyrefact`` afresh and decides a rule from the syntax tree.
"""
