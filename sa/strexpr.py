"""A tiny evaluator of *string predicate expressions* over a given environment.

Used to decide table-shaped tests on text ("does this test recognise every spelling of a triple-quoted literal?") by
evaluating the expression AST on a finite, exhaustive set of inputs - the expression is read from the source of /repo,
nothing of /repo is imported or executed.  Supports what such tests are written with: constants, names of the
environment, str methods without side effects, slicing / indexing, comparisons, `in`, boolean operators, tuples,
any()/all() over a generator or comprehension whose iterable evaluates to a finite collection, len(), re.match /
re.fullmatch / re.search with constant patterns.  Anything else raises Unsupported (=> the rule is undecided).
"""
from __future__ import annotations

import ast
import re
from typing import Any, Dict


class Unsupported(Exception):
    pass


STR_METHODS = {"startswith", "endswith", "lstrip", "rstrip", "strip", "lower", "upper", "casefold", "removeprefix",
               "removesuffix", "isalpha", "count", "find", "index", "replace", "partition", "rpartition", "split",
               "splitlines", "swapcase", "title", "isidentifier"}


_CTX: list = []      # stack of (prog, Func or Module-bearing object): enables module constants and calls of repository helpers
_BUDGET = [0]


class context:
    """with context(prog, fn): names fall back to the module-level constants of fn's module, and calls of repository
    functions are interpreted (straight-line helpers: assignments, if, for over finite collections, return)."""

    def __init__(self, prog, fn):
        self.item = (prog, fn)

    def __enter__(self):
        _CTX.append(self.item)
        _BUDGET[0] = 200000
        return self

    def __exit__(self, *exc):
        _CTX.pop()


class _Return(Exception):
    def __init__(self, value):
        self.value = value


class _Break(Exception):
    pass


class _Continue(Exception):
    pass


def _exec(body, env: Dict[str, Any]) -> None:
    for st in body:
        _BUDGET[0] -= 1
        if _BUDGET[0] < 0:
            raise Unsupported("step budget exhausted")
        if isinstance(st, ast.Expr):
            if not isinstance(st.value, ast.Constant):
                ev(st.value, env)
        elif isinstance(st, ast.Assign):
            v = ev(st.value, env)
            for t in st.targets:
                _bind(t, v, env)
        elif isinstance(st, ast.AnnAssign):
            if st.value is not None:
                _bind(st.target, ev(st.value, env), env)
        elif isinstance(st, ast.AugAssign) and isinstance(st.target, ast.Name):
            env[st.target.id] = ev(ast.BinOp(left=ast.Name(id=st.target.id, ctx=ast.Load()), op=st.op, right=st.value), env)
        elif isinstance(st, ast.If):
            _exec(st.body if ev(st.test, env) else st.orelse, env)
        elif isinstance(st, ast.For):
            broke = False
            for item in ev(st.iter, env):
                _bind(st.target, item, env)
                try:
                    _exec(st.body, env)
                except _Break:
                    broke = True
                    break
                except _Continue:
                    continue
            if not broke:
                _exec(st.orelse, env)
        elif isinstance(st, ast.While):
            while ev(st.test, env):
                _BUDGET[0] -= 1
                if _BUDGET[0] < 0:
                    raise Unsupported("step budget exhausted")
                try:
                    _exec(st.body, env)
                except _Break:
                    break
                except _Continue:
                    continue
        elif isinstance(st, ast.Return):
            raise _Return(ev(st.value, env) if st.value is not None else None)
        elif isinstance(st, ast.Pass):
            pass
        elif isinstance(st, ast.Break):
            raise _Break()
        elif isinstance(st, ast.Continue):
            raise _Continue()
        else:
            raise Unsupported(f"statement {type(st).__name__}")


def call_function(prog, callee, args, kwargs) -> Any:
    """Interpret a repository function on concrete arguments."""
    a = callee.node.args
    if a.vararg or a.kwarg:
        raise Unsupported("varargs")
    names = [x.arg for x in a.posonlyargs + a.args]
    env: Dict[str, Any] = {}
    _CTX.append((prog, callee))
    try:
        defaults = dict(zip(names[len(names) - len(a.defaults):], a.defaults)) if a.defaults else {}
        for x, d in zip(a.kwonlyargs, a.kw_defaults):
            if d is not None:
                defaults[x.arg] = d
        for n, v in zip(names, args):
            env[n] = v
        if len(args) > len(names):
            raise Unsupported("too many arguments")
        for k, v in kwargs.items():
            env[k] = v
        for n in names + [x.arg for x in a.kwonlyargs]:
            if n not in env:
                if n not in defaults:
                    raise Unsupported(f"missing argument {n}")
                env[n] = ev(defaults[n], {})
        try:
            _exec(callee.node.body, env)
        except _Return as r:
            return r.value
        return None
    finally:
        _CTX.pop()


def ev(e: ast.AST, env: Dict[str, Any]) -> Any:
    if isinstance(e, ast.Constant):
        return e.value
    if isinstance(e, ast.Name):
        if e.id in env:
            return env[e.id]
        if e.id in ("None", "True", "False"):
            return {"None": None, "True": True, "False": False}[e.id]
        if _CTX:
            prog, fn = _CTX[-1]
            g = fn.mod.globals.get(e.id)
            if g is not None:
                return ev(g, {})
        raise Unsupported(f"name {e.id}")
    if isinstance(e, (ast.Tuple, ast.List)):
        return tuple(ev(x, env) for x in e.elts)
    if isinstance(e, ast.Set):
        return frozenset(ev(x, env) for x in e.elts)
    if isinstance(e, ast.BoolOp):
        if isinstance(e.op, ast.And):
            v = True
            for x in e.values:
                v = ev(x, env)
                if not v:
                    return v
            return v
        v = False
        for x in e.values:
            v = ev(x, env)
            if v:
                return v
        return v
    if isinstance(e, ast.UnaryOp):
        if isinstance(e.op, ast.Not):
            return not ev(e.operand, env)
        if isinstance(e.op, ast.USub):
            return -ev(e.operand, env)
        raise Unsupported("unary")
    if isinstance(e, ast.BinOp):
        l, r = ev(e.left, env), ev(e.right, env)
        if isinstance(e.op, ast.Add):
            return l + r
        if isinstance(e.op, ast.Sub):
            return l - r
        if isinstance(e.op, ast.Mult):
            return l * r
        raise Unsupported("binop")
    if isinstance(e, ast.Compare):
        left = ev(e.left, env)
        for op, c in zip(e.ops, e.comparators):
            right = ev(c, env)
            if isinstance(op, ast.Eq):
                ok = left == right
            elif isinstance(op, ast.NotEq):
                ok = left != right
            elif isinstance(op, ast.In):
                ok = left in right
            elif isinstance(op, ast.NotIn):
                ok = left not in right
            elif isinstance(op, ast.Lt):
                ok = left < right
            elif isinstance(op, ast.LtE):
                ok = left <= right
            elif isinstance(op, ast.Gt):
                ok = left > right
            elif isinstance(op, ast.GtE):
                ok = left >= right
            elif isinstance(op, ast.Is):
                ok = left is right
            elif isinstance(op, ast.IsNot):
                ok = left is not right
            else:
                raise Unsupported("compare")
            if not ok:
                return False
            left = right
        return True
    if isinstance(e, ast.Subscript):
        base = ev(e.value, env)
        if isinstance(e.slice, ast.Slice):
            lo = ev(e.slice.lower, env) if e.slice.lower is not None else None
            hi = ev(e.slice.upper, env) if e.slice.upper is not None else None
            st = ev(e.slice.step, env) if e.slice.step is not None else None
            return base[lo:hi:st]
        return base[ev(e.slice, env)]
    if isinstance(e, ast.IfExp):
        return ev(e.body, env) if ev(e.test, env) else ev(e.orelse, env)
    if isinstance(e, (ast.GeneratorExp, ast.ListComp, ast.SetComp)):
        out = []

        def rec(i, env2):
            if i == len(e.generators):
                out.append(ev(e.elt, env2))
                return
            g = e.generators[i]
            for item in ev(g.iter, env2):
                env3 = dict(env2)
                _bind(g.target, item, env3)
                if all(ev(c, env3) for c in g.ifs):
                    rec(i + 1, env3)
        rec(0, env)
        return out
    if isinstance(e, ast.Call):
        if isinstance(e.func, ast.Name) and e.func.id in ("any", "all", "len", "tuple", "set", "sorted", "str", "bool", "min", "max") and not e.keywords:
            args = [ev(a, env) for a in e.args]
            return {"any": any, "all": all, "len": len, "tuple": tuple, "set": frozenset, "sorted": sorted, "str": str,
                    "bool": bool, "min": min, "max": max}[e.func.id](*args)
        if isinstance(e.func, ast.Attribute) and isinstance(e.func.value, ast.Name) and e.func.value.id == "re" \
                and e.func.attr in ("match", "fullmatch", "search", "compile", "findall", "finditer") and e.args and "re" not in env:
            args = [ev(a, env) for a in e.args]
            kw = {k.arg: ev(k.value, env) for k in e.keywords}
            return getattr(re, e.func.attr)(*args, **kw)
        if isinstance(e.func, ast.Attribute) and isinstance(e.func.value, ast.Attribute) and isinstance(e.func.value.value, ast.Name) \
                and e.func.value.value.id == "re" and False:
            raise Unsupported("re attribute")
        if isinstance(e.func, ast.Attribute) and e.func.attr in STR_METHODS:
            recv = ev(e.func.value, env)
            if not isinstance(recv, str):
                raise Unsupported("method on non-str")
            args = [ev(a, env) for a in e.args]
            return getattr(recv, e.func.attr)(*args)
        if isinstance(e.func, ast.Attribute) and e.func.attr in ("group", "groups", "start", "end", "span"):
            recv = ev(e.func.value, env)
            if isinstance(recv, re.Match):
                return getattr(recv, e.func.attr)(*[ev(a, env) for a in e.args])
        if isinstance(e.func, ast.Attribute) and e.func.attr in ("match", "fullmatch", "search", "findall", "finditer"):
            try:
                recv = ev(e.func.value, env)
            except Unsupported:
                recv = None
            if isinstance(recv, re.Pattern):
                return getattr(recv, e.func.attr)(*[ev(a, env) for a in e.args])
        if isinstance(e.func, ast.Name) and e.func.id in ("list", "next", "iter", "enumerate", "zip", "range", "reversed", "int", "isinstance") and e.func.id not in env:
            if e.func.id == "isinstance":
                raise Unsupported("isinstance")
            args = [ev(a, env) for a in e.args]
            return {"list": list, "next": next, "iter": iter, "enumerate": enumerate, "zip": zip, "range": range, "reversed": reversed, "int": int}[e.func.id](*args)
        if _CTX:
            prog, fn = _CTX[-1]
            r = prog.resolve_call(e.func, fn.mod, fn)
            if r and r[0] == "fn" and len(_CTX) < 6:
                if any(isinstance(a, ast.Starred) for a in e.args) or any(k.arg is None for k in e.keywords):
                    raise Unsupported("star arguments")
                return call_function(prog, r[1], [ev(a, env) for a in e.args], {k.arg: ev(k.value, env) for k in e.keywords})
        raise Unsupported(f"call {ast.unparse(e.func)}")
    if isinstance(e, ast.Attribute) and isinstance(e.value, ast.Name) and e.value.id == "re" and e.attr in ("I", "IGNORECASE", "S", "DOTALL", "M", "MULTILINE", "X", "VERBOSE"):
        return getattr(re, e.attr)
    if isinstance(e, ast.JoinedStr):
        parts = []
        for v in e.values:
            if isinstance(v, ast.Constant):
                parts.append(str(v.value))
            elif isinstance(v, ast.FormattedValue) and v.format_spec is None and v.conversion == -1:
                parts.append(str(ev(v.value, env)))
            else:
                raise Unsupported("f-string format")
        return "".join(parts)
    raise Unsupported(type(e).__name__)


def _bind(target: ast.AST, value: Any, env: Dict[str, Any]) -> None:
    if isinstance(target, ast.Name):
        env[target.id] = value
    elif isinstance(target, (ast.Tuple, ast.List)):
        vals = list(value)
        if len(vals) != len(target.elts):
            raise Unsupported("unpack")
        for t, v in zip(target.elts, vals):
            _bind(t, v, env)
    else:
        raise Unsupported("target")
