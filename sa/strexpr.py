"""A tiny evaluator of *string predicate expressions* over a given environment.

Used to decide table-shaped tests on text ("does this test recognise every spelling of a triple-quoted literal?") by
evaluating the expression AST on a finite, exhaustive set of inputs - the expression is read from the source of /repo,
nothing of /repo is imported or executed.  Supports what such tests are written with: constants, names of the
environment, str methods without side effects, slicing / indexing, comparisons, `in`, boolean operators, tuples,
any()/all() over a generator or comprehension whose iterable evaluates to a finite collection, len(), re.match /
re.fullmatch / re.search with constant patterns.  Anything else raises Unsupported (=> the rule is undecided).
"""
from __future__ import annotations

import ast
import re
from typing import Any, Dict


class Unsupported(Exception):
    pass


STR_METHODS = {"startswith", "endswith", "lstrip", "rstrip", "strip", "lower", "upper", "casefold", "removeprefix",
               "removesuffix", "isalpha", "count", "find", "index", "replace", "partition", "rpartition", "split",
               "splitlines", "swapcase", "title", "isidentifier"}


def ev(e: ast.AST, env: Dict[str, Any]) -> Any:
    if isinstance(e, ast.Constant):
        return e.value
    if isinstance(e, ast.Name):
        if e.id in env:
            return env[e.id]
        raise Unsupported(f"name {e.id}")
    if isinstance(e, (ast.Tuple, ast.List)):
        return tuple(ev(x, env) for x in e.elts)
    if isinstance(e, ast.Set):
        return frozenset(ev(x, env) for x in e.elts)
    if isinstance(e, ast.BoolOp):
        if isinstance(e.op, ast.And):
            v = True
            for x in e.values:
                v = ev(x, env)
                if not v:
                    return v
            return v
        v = False
        for x in e.values:
            v = ev(x, env)
            if v:
                return v
        return v
    if isinstance(e, ast.UnaryOp):
        if isinstance(e.op, ast.Not):
            return not ev(e.operand, env)
        if isinstance(e.op, ast.USub):
            return -ev(e.operand, env)
        raise Unsupported("unary")
    if isinstance(e, ast.BinOp):
        l, r = ev(e.left, env), ev(e.right, env)
        if isinstance(e.op, ast.Add):
            return l + r
        if isinstance(e.op, ast.Sub):
            return l - r
        if isinstance(e.op, ast.Mult):
            return l * r
        raise Unsupported("binop")
    if isinstance(e, ast.Compare):
        left = ev(e.left, env)
        for op, c in zip(e.ops, e.comparators):
            right = ev(c, env)
            if isinstance(op, ast.Eq):
                ok = left == right
            elif isinstance(op, ast.NotEq):
                ok = left != right
            elif isinstance(op, ast.In):
                ok = left in right
            elif isinstance(op, ast.NotIn):
                ok = left not in right
            elif isinstance(op, ast.Lt):
                ok = left < right
            elif isinstance(op, ast.LtE):
                ok = left <= right
            elif isinstance(op, ast.Gt):
                ok = left > right
            elif isinstance(op, ast.GtE):
                ok = left >= right
            elif isinstance(op, ast.Is):
                ok = left is right
            elif isinstance(op, ast.IsNot):
                ok = left is not right
            else:
                raise Unsupported("compare")
            if not ok:
                return False
            left = right
        return True
    if isinstance(e, ast.Subscript):
        base = ev(e.value, env)
        if isinstance(e.slice, ast.Slice):
            lo = ev(e.slice.lower, env) if e.slice.lower is not None else None
            hi = ev(e.slice.upper, env) if e.slice.upper is not None else None
            st = ev(e.slice.step, env) if e.slice.step is not None else None
            return base[lo:hi:st]
        return base[ev(e.slice, env)]
    if isinstance(e, ast.IfExp):
        return ev(e.body, env) if ev(e.test, env) else ev(e.orelse, env)
    if isinstance(e, (ast.GeneratorExp, ast.ListComp, ast.SetComp)):
        out = []

        def rec(i, env2):
            if i == len(e.generators):
                out.append(ev(e.elt, env2))
                return
            g = e.generators[i]
            for item in ev(g.iter, env2):
                env3 = dict(env2)
                _bind(g.target, item, env3)
                if all(ev(c, env3) for c in g.ifs):
                    rec(i + 1, env3)
        rec(0, env)
        return out
    if isinstance(e, ast.Call):
        if isinstance(e.func, ast.Name) and e.func.id in ("any", "all", "len", "tuple", "set", "sorted", "str", "bool", "min", "max") and not e.keywords:
            args = [ev(a, env) for a in e.args]
            return {"any": any, "all": all, "len": len, "tuple": tuple, "set": frozenset, "sorted": sorted, "str": str,
                    "bool": bool, "min": min, "max": max}[e.func.id](*args)
        if isinstance(e.func, ast.Attribute) and isinstance(e.func.value, ast.Name) and e.func.value.id == "re" \
                and e.func.attr in ("match", "fullmatch", "search") and e.args and "re" not in env:
            args = [ev(a, env) for a in e.args]
            kw = {k.arg: ev(k.value, env) for k in e.keywords}
            return getattr(re, e.func.attr)(*args, **kw)
        if isinstance(e.func, ast.Attribute) and isinstance(e.func.value, ast.Attribute) and isinstance(e.func.value.value, ast.Name) \
                and e.func.value.value.id == "re" and False:
            raise Unsupported("re attribute")
        if isinstance(e.func, ast.Attribute) and e.func.attr in STR_METHODS:
            recv = ev(e.func.value, env)
            if not isinstance(recv, str):
                raise Unsupported("method on non-str")
            args = [ev(a, env) for a in e.args]
            return getattr(recv, e.func.attr)(*args)
        if isinstance(e.func, ast.Attribute) and e.func.attr == "group":
            recv = ev(e.func.value, env)
            if isinstance(recv, re.Match):
                return recv.group(*[ev(a, env) for a in e.args])
        raise Unsupported(f"call {ast.unparse(e.func)}")
    if isinstance(e, ast.Attribute) and isinstance(e.value, ast.Name) and e.value.id == "re" and e.attr in ("I", "IGNORECASE", "S", "DOTALL", "M", "MULTILINE", "X", "VERBOSE"):
        return getattr(re, e.attr)
    if isinstance(e, ast.JoinedStr):
        parts = []
        for v in e.values:
            if isinstance(v, ast.Constant):
                parts.append(str(v.value))
            elif isinstance(v, ast.FormattedValue) and v.format_spec is None and v.conversion == -1:
                parts.append(str(ev(v.value, env)))
            else:
                raise Unsupported("f-string format")
        return "".join(parts)
    raise Unsupported(type(e).__name__)


def _bind(target: ast.AST, value: Any, env: Dict[str, Any]) -> None:
    if isinstance(target, ast.Name):
        env[target.id] = value
    elif isinstance(target, (ast.Tuple, ast.List)):
        vals = list(value)
        if len(vals) != len(target.elts):
            raise Unsupported("unpack")
        for t, v in zip(target.elts, vals):
            _bind(t, v, env)
    else:
        raise Unsupported("target")
