"""Program model: modules, functions, classes, aliases, constant evaluation, pipeline extraction."""
from __future__ import annotations

import ast
import builtins
import glob
import hashlib
import keyword
import os
from typing import Dict, Iterable, Iterator, List, Optional, Tuple

PKG = "pyrefact"


class AnalysisError(Exception):
    """The analysis cannot give a verdict (anchor vanished, source does not parse, ...)."""


class Unresolvable(Exception):
    """A constant expression is outside what the constant evaluator understands."""


def canonicalise(tree: ast.AST) -> ast.AST:
    """Bring two spelling choices that do not change behaviour into one form, so that the rules see the same tree
    whichever way the repository writes them:
      * `if not c: A else: B` (else branch not an elif chain)  ->  `if c: B else: A`
      * a single comparison with a constant on the LEFT and a side-effect free operand on the right is mirrored
        (`20 < depth` -> `depth > 20`, `'_' != x.name` -> `x.name != '_'`).
    Nodes keep their positions."""
    flip = {ast.Lt: ast.Gt, ast.Gt: ast.Lt, ast.LtE: ast.GtE, ast.GtE: ast.LtE, ast.Eq: ast.Eq, ast.NotEq: ast.NotEq}

    def simple(e) -> bool:
        if isinstance(e, (ast.Name, ast.Constant)):
            return True
        if isinstance(e, ast.Attribute):
            return simple(e.value)
        if isinstance(e, ast.Subscript):
            return simple(e.value) and simple(e.slice)
        if isinstance(e, ast.Call):      # len(x), type(x): no effects worth an ordering
            return isinstance(e.func, ast.Name) and e.func.id in ("len", "type", "id", "str", "int") and all(simple(a) for a in e.args) and not e.keywords
        return False

    for node in ast.walk(tree):
        if isinstance(node, ast.If) and node.orelse and isinstance(node.test, ast.UnaryOp) and isinstance(node.test.op, ast.Not) \
                and not (len(node.orelse) == 1 and isinstance(node.orelse[0], ast.If)) \
                and not (len(node.body) == 1 and isinstance(node.body[0], ast.If)):
            node.test, node.body, node.orelse = node.test.operand, node.orelse, node.body
        elif isinstance(node, ast.Compare) and len(node.ops) == 1 and type(node.ops[0]) in flip \
                and isinstance(node.left, ast.Constant) and not isinstance(node.comparators[0], ast.Constant) and simple(node.comparators[0]):
            node.left, node.comparators = node.comparators[0], [node.left]
            node.ops = [flip[type(node.ops[0])]()]
    return tree


def set_parents(tree: ast.AST) -> None:
    for parent in ast.walk(tree):
        for child in ast.iter_child_nodes(parent):
            child._parent = parent  # type: ignore[attr-defined]


def parent(node: ast.AST) -> Optional[ast.AST]:
    return getattr(node, "_parent", None)


def ancestors(node: ast.AST) -> Iterator[ast.AST]:
    node = parent(node)
    while node is not None:
        yield node
        node = parent(node)


def norm(node: ast.AST | str | None) -> str:
    """Normalised construct text used in finding keys (no positions, no comments)."""
    if node is None:
        return ""
    if isinstance(node, str):
        return " ".join(node.split())
    try:
        text = ast.unparse(node)
    except Exception:  # pragma: no cover - defensive
        text = ast.dump(node)
    return " ".join(text.split())


def short(node: ast.AST | str | None, n: int = 110) -> str:
    text = norm(node)
    return text if len(text) <= n else text[: n - 3] + "..."


class Module:
    def __init__(self, name: str, path: str, source: str, tree: ast.Module):
        self.name = name
        self.path = path
        self.source = source
        self.tree = tree
        self.aliases: Dict[str, Tuple[str, str]] = {}
        self.globals: Dict[str, ast.AST] = {}  # module-level name -> value expression (last assignment)

    def __repr__(self) -> str:
        return f"<Module {self.name}>"


class Func:
    def __init__(self, mod: Module, qual: str, node: ast.AST, cls: Optional[str], outer: Optional["Func"]):
        self.mod = mod
        self.qual = qual
        self.node = node
        self.cls = cls  # qualified name of the directly enclosing class, if any
        self.outer = outer  # enclosing function, if any
        a = node.args
        self.posparams: List[str] = [x.arg for x in a.posonlyargs + a.args]
        self.kwonly: List[str] = [x.arg for x in a.kwonlyargs]
        self.vararg: Optional[str] = a.vararg.arg if a.vararg else None
        self.kwarg: Optional[str] = a.kwarg.arg if a.kwarg else None
        self.decorators: List[str] = [norm(d) for d in node.decorator_list]

    @property
    def name(self) -> str:
        return self.node.name

    @property
    def key(self) -> Tuple[str, str]:
        return (self.mod.name, self.qual)

    @property
    def fq(self) -> str:
        return f"{self.mod.name}.{self.qual}"

    @property
    def all_params(self) -> List[str]:
        return self.posparams + self.kwonly + [x for x in (self.vararg, self.kwarg) if x]

    @property
    def is_fix(self) -> bool:
        return any(d.split("(")[0] in ("processing.fix", "fix") for d in self.decorators)

    @property
    def is_cached(self) -> bool:
        return any("lru_cache" in d or d.endswith(".cache") or d == "cache" for d in self.decorators)

    @property
    def is_generator(self) -> bool:
        return any(isinstance(n, (ast.Yield, ast.YieldFrom)) for n in walk_own(self.node))

    def loc(self, node: Optional[ast.AST] = None) -> str:
        node = node if node is not None else self.node
        return f"pyrefact/{self.mod.name}.py:{getattr(node, 'lineno', 0)}"

    def __repr__(self) -> str:
        return f"<Func {self.fq}>"


def walk_own(fn_node: ast.AST) -> Iterator[ast.AST]:
    """ast.walk over a function body that does not descend into nested defs/classes/lambdas."""
    todo = list(ast.iter_child_nodes(fn_node))
    while todo:
        n = todo.pop()
        yield n
        if isinstance(n, (ast.FunctionDef, ast.AsyncFunctionDef, ast.ClassDef, ast.Lambda)):
            continue
        todo.extend(ast.iter_child_nodes(n))


def walk_body(stmts: Iterable[ast.AST], into_defs: bool = False) -> Iterator[ast.AST]:
    todo = list(stmts)
    while todo:
        n = todo.pop()
        yield n
        if not into_defs and isinstance(n, (ast.FunctionDef, ast.AsyncFunctionDef, ast.ClassDef, ast.Lambda)):
            continue
        todo.extend(ast.iter_child_nodes(n))


class ClassInfo:
    def __init__(self, mod: Module, qual: str, node: ast.ClassDef, outer: Optional[Func]):
        self.mod, self.qual, self.node, self.outer = mod, qual, node, outer
        self.bases = [norm(b) for b in node.bases]

    @property
    def is_transformer(self) -> bool:
        return any(b.endswith("NodeTransformer") for b in self.bases)


class Program:
    def __init__(self, root: str = "/repo"):
        self.root = os.path.abspath(root)
        self.pkgdir = os.path.join(self.root, PKG)
        self.modules: Dict[str, Module] = {}
        self.funcs: Dict[Tuple[str, str], Func] = {}
        self.classes: Dict[Tuple[str, str], ClassInfo] = {}
        self.func_of_node: Dict[int, Func] = {}
        self._const_cache: Dict[Tuple[str, str], object] = {}
        paths = sorted(glob.glob(os.path.join(self.pkgdir, "*.py")))
        if not paths:
            raise AnalysisError(f"no python files under {self.pkgdir}")
        digest = hashlib.sha256()
        for path in paths:
            name = os.path.basename(path)[:-3]
            with open(path, encoding="utf-8") as stream:
                source = stream.read()
            digest.update(source.encode())
            try:
                tree = ast.parse(source)
            except SyntaxError as error:
                raise AnalysisError(f"{path} does not parse: {error}") from error
            canonicalise(tree)
            set_parents(tree)
            mod = Module(name, path, source, tree)
            self.modules[name] = mod
        self.digest = digest.hexdigest()[:16]
        for mod in self.modules.values():
            self._index_aliases(mod)
            self._index_globals(mod)
            self._index(mod, mod.tree.body, "", None, None)
        # local variable names per function, for renaming-invariant finding keys (sa/report.py)
        from . import report as _report
        for f in self.funcs.values():
            params = set(f.all_params)
            names = set()
            for n in ast.walk(f.node):
                if isinstance(n, ast.Name) and isinstance(n.ctx, (ast.Store, ast.Del)) and n.id not in params:
                    names.add(n.id)
                elif isinstance(n, ast.comprehension):
                    names |= {x.id for x in ast.walk(n.target) if isinstance(x, ast.Name)}
            _report.LOCAL_NAMES[f.fq] = frozenset(names)

    # ------------------------------------------------------------------ indexing
    def _index_aliases(self, mod: Module) -> None:
        for n in ast.walk(mod.tree):
            if isinstance(n, ast.Import):
                for a in n.names:
                    local = a.asname or a.name.split(".")[0]
                    target = a.name if a.asname else a.name.split(".")[0]
                    if target.startswith(PKG + "."):
                        mod.aliases[local] = ("module", target[len(PKG) + 1 :])
                    else:
                        mod.aliases[local] = ("ext", target)
            elif isinstance(n, ast.ImportFrom):
                base = n.module or ""
                for a in n.names:
                    local = a.asname or a.name
                    if base == PKG and n.level == 0 or (n.level == 1 and not base):
                        mod.aliases[local] = ("module", a.name)
                    elif base.startswith(PKG + ".") or (n.level == 1 and base):
                        sub = base[len(PKG) + 1 :] if base.startswith(PKG + ".") else base
                        mod.aliases[local] = ("member", f"{sub}:{a.name}")
                    else:
                        mod.aliases[local] = ("ext", f"{base}.{a.name}")

    def _index_globals(self, mod: Module) -> None:
        for n in mod.tree.body:
            if isinstance(n, ast.Assign):
                for t in n.targets:
                    if isinstance(t, ast.Name):
                        mod.globals[t.id] = n.value
            elif isinstance(n, ast.AnnAssign) and isinstance(n.target, ast.Name) and n.value is not None:
                mod.globals[n.target.id] = n.value

    def _index(self, mod: Module, body, prefix: str, cls: Optional[str], outer: Optional[Func]) -> None:
        for n in body:
            if isinstance(n, (ast.FunctionDef, ast.AsyncFunctionDef)):
                qual = prefix + n.name
                if (mod.name, qual) in self.funcs:  # redefinition (e.g. under if/else): keep both
                    k = 2
                    while (mod.name, f"{qual}#{k}") in self.funcs:
                        k += 1
                    qual = f"{qual}#{k}"
                fn = Func(mod, qual, n, cls, outer)
                self.funcs[(mod.name, qual)] = fn
                for sub in ast.walk(n):
                    self.func_of_node.setdefault(id(sub), fn)
                self._index(mod, n.body, qual + ".<locals>.", None, fn)
            elif isinstance(n, ast.ClassDef):
                qual = prefix + n.name
                self.classes[(mod.name, qual)] = ClassInfo(mod, qual, n, outer)
                self._index(mod, n.body, qual + ".", qual, outer)
            else:
                for fld in ("body", "orelse", "finalbody"):
                    sub = getattr(n, fld, None)
                    if isinstance(sub, list):
                        self._index(mod, sub, prefix, cls, outer)
                for h in getattr(n, "handlers", []) or []:
                    self._index(mod, h.body, prefix, cls, outer)

    # the innermost function whose body contains node (nested defs own their nodes)
    def enclosing(self, node: ast.AST) -> Optional[Func]:
        for a in [node, *ancestors(node)]:
            if isinstance(a, (ast.FunctionDef, ast.AsyncFunctionDef)) and a is not node:
                for fn in self.funcs.values():
                    if fn.node is a:
                        return fn
        return None

    # ------------------------------------------------------------------ lookup helpers
    def func(self, mod: str, qual: str) -> Func:
        try:
            return self.funcs[(mod, qual)]
        except KeyError:
            raise AnalysisError(f"anchor function {mod}.{qual} not found") from None

    def module(self, name: str) -> Module:
        try:
            return self.modules[name]
        except KeyError:
            raise AnalysisError(f"anchor module {name} not found") from None

    def funcs_in(self, mod: str) -> List[Func]:
        return [f for f in self.funcs.values() if f.mod.name == mod]

    def dotted(self, expr: ast.AST) -> Optional[str]:
        parts = []
        while isinstance(expr, ast.Attribute):
            parts.append(expr.attr)
            expr = expr.value
        if isinstance(expr, ast.Name):
            parts.append(expr.id)
            return ".".join(reversed(parts))
        return None

    def resolve_name(self, mod: Module, name: str, ctx: Optional[Func]) -> Optional[Func]:
        """Resolve a bare name used in function ctx of module mod to a repository function."""
        f = ctx
        while f is not None:
            cand = self.funcs.get((mod.name, f"{f.qual}.<locals>.{name}"))
            if cand:
                return cand
            f = f.outer
        cand = self.funcs.get((mod.name, name))
        if cand:
            return cand
        al = mod.aliases.get(name)
        if al and al[0] == "member":
            sub, member = al[1].split(":")
            return self.funcs.get((sub, member))
        return None

    def resolve_call(self, call_func: ast.AST, mod: Module, ctx: Optional[Func]):
        """-> ('fn', Func) | ('cls', ClassInfo) | ('lib', dotted) | None"""
        if isinstance(call_func, ast.Attribute) and call_func.attr == "_fix_func":
            return self.resolve_call(call_func.value, mod, ctx)
        if isinstance(call_func, ast.Name):
            fn = self.resolve_name(mod, call_func.id, ctx)
            if fn:
                return ("fn", fn)
            ci = self.resolve_class(mod, call_func.id, ctx)
            if ci:
                return ("cls", ci)
            al = mod.aliases.get(call_func.id)
            if al and al[0] == "ext":
                return ("lib", al[1])
            return ("lib", call_func.id)
        d = self.dotted(call_func)
        if d is None:
            return None
        head, *rest = d.split(".")
        al = mod.aliases.get(head)
        if al and al[0] == "module":
            target_mod = al[1]
            if len(rest) == 1:
                fn = self.funcs.get((target_mod, rest[0]))
                if fn:
                    return ("fn", fn)
                ci = self.classes.get((target_mod, rest[0]))
                if ci:
                    return ("cls", ci)
            return ("lib", f"{PKG}.{target_mod}." + ".".join(rest))
        if al and al[0] == "ext":
            return ("lib", ".".join([al[1], *rest]))
        if head in ("self", "cls") and ctx is not None and len(rest) == 1:
            f = ctx
            while f is not None and f.cls is None:
                f = f.outer
            if f is not None and f.cls:
                fn = self.funcs.get((mod.name, f"{f.cls}.{rest[0]}"))
                if fn:
                    return ("fn", fn)
        return None

    def resolve_class(self, mod: Module, name: str, ctx: Optional[Func]) -> Optional[ClassInfo]:
        f = ctx
        while f is not None:
            ci = self.classes.get((mod.name, f"{f.qual}.<locals>.{name}"))
            if ci:
                return ci
            f = f.outer
        ci = self.classes.get((mod.name, name))
        if ci:
            return ci
        al = mod.aliases.get(name)
        if al and al[0] == "member":
            sub, member = al[1].split(":")
            return self.classes.get((sub, member))
        return None

    def calls_in(self, fn: Func) -> List[ast.Call]:
        return [n for n in walk_own(fn.node) if isinstance(n, ast.Call)]

    # ------------------------------------------------------------------ constants
    def const(self, mod: str, name: str):
        """Evaluate a module-level constant table. Raises Unresolvable."""
        key = (mod, name)
        if key not in self._const_cache:
            m = self.module(mod)
            if name not in m.globals:
                raise AnalysisError(f"anchor constant {mod}.{name} not found")
            self._const_cache[key] = ConstEval(self, m).ev(m.globals[name])
        return self._const_cache[key]


class AstClass:
    """Symbolic value for ``ast.<Name>`` inside evaluated constants."""

    def __init__(self, name: str):
        self.name = name

    def __eq__(self, other):
        return isinstance(other, AstClass) and other.name == self.name

    def __hash__(self):
        return hash(("AstClass", self.name))

    def __repr__(self):
        return f"ast.{self.name}"


class Sym:
    """Symbolic callable / opaque value (``operator.eq``, a lambda node, ...)."""

    def __init__(self, kind: str, value):
        self.kind, self.value = kind, value

    def __eq__(self, other):
        return isinstance(other, Sym) and (self.kind, norm_or(self.value)) == (other.kind, norm_or(other.value))

    def __hash__(self):
        return hash((self.kind, norm_or(self.value)))

    def __repr__(self):
        return f"{self.kind}:{norm_or(self.value)}"


def norm_or(v):
    return norm(v) if isinstance(v, ast.AST) else v


class ConstEval:
    """Evaluator for module-level constant tables (sets, tuples, dicts, small comprehensions)."""

    def __init__(self, prog: Program, mod: Module, env: Optional[dict] = None, depth: int = 0):
        self.prog, self.mod, self.env, self.depth = prog, mod, env or {}, depth

    def ev(self, e: ast.AST):
        m = getattr(self, "ev_" + type(e).__name__, None)
        if m is None:
            raise Unresolvable(f"{type(e).__name__}: {short(e)}")
        return m(e)

    def ev_Constant(self, e):
        return e.value

    def ev_Name(self, e):
        if e.id in self.env:
            return self.env[e.id]
        if e.id in self.mod.globals:
            if self.depth > 8:
                raise Unresolvable("constant recursion")
            return ConstEval(self.prog, self.mod, depth=self.depth + 1).ev(self.mod.globals[e.id])
        al = self.mod.aliases.get(e.id)
        if al and al[0] == "member":
            sub, member = al[1].split(":")
            return self.prog.const(sub, member)
        if al and al[0] == "ext":
            return Sym("ext", al[1])
        if e.id in ("True", "False", "None"):
            return {"True": True, "False": False, "None": None}[e.id]
        raise Unresolvable(f"name {e.id}")

    def ev_Attribute(self, e):
        d = self.prog.dotted(e)
        if d:
            head, *rest = d.split(".")
            al = self.mod.aliases.get(head)
            if al and al[0] == "ext" and al[1] == "ast" and len(rest) == 1 and hasattr(ast, rest[0]):
                return AstClass(rest[0])
            if al and al[0] == "module" and len(rest) == 1:
                return self.prog.const(al[1], rest[0])
            if al and al[0] == "ext":
                dotted = ".".join([al[1], *rest])
                if dotted == "keyword.kwlist":
                    return list(keyword.kwlist)
                if dotted == "keyword.softkwlist":
                    return list(getattr(keyword, "softkwlist", []))
                return Sym("ext", dotted)
        raise Unresolvable(f"attribute {short(e)}")

    def _seq(self, elts):
        out = []
        for x in elts:
            if isinstance(x, ast.Starred):
                out.extend(self.ev(x.value))
            else:
                out.append(self.ev(x))
        return out

    def ev_Tuple(self, e):
        return tuple(self._seq(e.elts))

    def ev_List(self, e):
        return list(self._seq(e.elts))

    def ev_Set(self, e):
        return frozenset(self._seq(e.elts))

    def ev_Dict(self, e):
        out = {}
        for k, v in zip(e.keys, e.values):
            if k is None:
                out.update(self.ev(v))
            else:
                out[self.ev(k)] = self.ev(v)
        return out

    def ev_Lambda(self, e):
        return Sym("lambda", e)

    def ev_BinOp(self, e):
        l, r = self.ev(e.left), self.ev(e.right)
        try:
            if isinstance(e.op, ast.BitOr):
                return frozenset(l) | frozenset(r) if not isinstance(l, dict) else {**l, **r}
            if isinstance(e.op, ast.BitAnd):
                return frozenset(l) & frozenset(r)
            if isinstance(e.op, ast.Sub):
                return frozenset(l) - frozenset(r)
            if isinstance(e.op, ast.Add):
                return l + r
        except TypeError as error:
            raise Unresolvable(str(error)) from error
        raise Unresolvable(f"binop {short(e)}")

    def _comp(self, generators, body):
        def rec(i, env):
            if i == len(generators):
                yield ConstEval(self.prog, self.mod, env, self.depth).ev(body) if not isinstance(body, tuple) else tuple(
                    ConstEval(self.prog, self.mod, env, self.depth).ev(b) for b in body
                )
                return
            g = generators[i]
            for item in ConstEval(self.prog, self.mod, env, self.depth).ev(g.iter):
                env2 = dict(env)
                bind(g.target, item, env2)
                sub = ConstEval(self.prog, self.mod, env2, self.depth)
                if all(sub.truth(c) for c in g.ifs):
                    yield from rec(i + 1, env2)

        def bind(t, v, env):
            if isinstance(t, ast.Name):
                env[t.id] = v
            elif isinstance(t, (ast.Tuple, ast.List)):
                for a, b in zip(t.elts, v):
                    bind(a, b, env)
            else:
                raise Unresolvable("comprehension target")

        return rec(0, dict(self.env))

    def truth(self, c: ast.AST) -> bool:
        return bool(self.ev(c))

    def ev_Compare(self, e):
        left = self.ev(e.left)
        for op, comp in zip(e.ops, e.comparators):
            right = self.ev(comp)
            ok = {
                ast.Eq: lambda a, b: a == b, ast.NotEq: lambda a, b: a != b,
                ast.In: lambda a, b: a in b, ast.NotIn: lambda a, b: a not in b,
                ast.Is: lambda a, b: a is b, ast.IsNot: lambda a, b: a is not b,
                ast.Lt: lambda a, b: a < b, ast.Gt: lambda a, b: a > b,
                ast.LtE: lambda a, b: a <= b, ast.GtE: lambda a, b: a >= b,
            }[type(op)](left, right)
            if not ok:
                return False
            left = right
        return True

    def ev_BoolOp(self, e):
        vals = [self.ev(v) for v in e.values]
        return all(vals) if isinstance(e.op, ast.And) else any(vals)

    def ev_UnaryOp(self, e):
        v = self.ev(e.operand)
        if isinstance(e.op, ast.Not):
            return not v
        if isinstance(e.op, ast.USub):
            return -v
        raise Unresolvable("unaryop")

    def ev_Subscript(self, e):
        v = self.ev(e.value)
        if isinstance(e.slice, ast.Slice):
            raise Unresolvable("slice")
        try:
            return v[self.ev(e.slice)]
        except Exception as error:
            raise Unresolvable(str(error)) from error

    def ev_GeneratorExp(self, e):
        return list(self._comp(e.generators, e.elt))

    ev_ListComp = ev_GeneratorExp

    def ev_SetComp(self, e):
        return frozenset(self._comp(e.generators, e.elt))

    def ev_DictComp(self, e):
        return dict(self._comp(e.generators, (e.key, e.value)))

    def ev_Call(self, e):
        f = e.func
        d = self.prog.dotted(f)
        args = None
        if d in ("frozenset", "set", "tuple", "list", "sorted", "dict", "MappingProxyType", "types.MappingProxyType"):
            args = [self.ev(a) for a in e.args]
            if not args:
                return {"frozenset": frozenset(), "set": frozenset(), "tuple": (), "list": [], "sorted": [], "dict": {}}.get(d, {})
            v = args[0]
            if d in ("frozenset", "set"):
                return frozenset(v)
            if d == "tuple":
                return tuple(v)
            if d == "list":
                return list(v)
            if d == "sorted":
                return sorted(v)
            return dict(v)
        if d == "dir" and len(e.args) == 1 and self.prog.dotted(e.args[0]) == "builtins":
            return dir(builtins)
        if d == "getattr" and len(e.args) == 2 and self.prog.dotted(e.args[0]) == "builtins":
            try:
                return getattr(builtins, self.ev(e.args[1]))
            except Exception as error:
                raise Unresolvable(str(error)) from error
        if d == "callable" and len(e.args) == 1:
            return callable(self.ev(e.args[0]))
        if d == "getattr" and len(e.args) == 3:
            base = self.prog.dotted(e.args[0])
            al = self.mod.aliases.get(base or "")
            if al and al == ("ext", "keyword") and isinstance(e.args[1], ast.Constant):
                return list(getattr(keyword, e.args[1].value, self.ev(e.args[2])))
        if isinstance(f, ast.Attribute) and f.attr in ("startswith", "endswith", "isupper", "islower", "upper", "lower", "union"):
            base = self.ev(f.value)
            args = [self.ev(a) for a in e.args]
            try:
                return getattr(base, f.attr)(*args)
            except Exception as error:
                raise Unresolvable(str(error)) from error
        raise Unresolvable(f"call {short(e)}")


# ---------------------------------------------------------------------- pipeline extraction
def pipeline_calls(prog: Program, fn: Func) -> List[Tuple[ast.Call, Func]]:
    """Calls of repository rule functions in fn, in source order (``source = mod.rule(source, ...)``)."""
    out = []
    for n in sorted((c for c in prog.calls_in(fn)), key=lambda c: (c.lineno, c.col_offset)):
        r = prog.resolve_call(n.func, fn.mod, fn)
        if r and r[0] == "fn":
            out.append((n, r[1]))
    return out


def returns_after(fn_node: ast.AST, loop: ast.AST):
    """Return statements of the function that lie behind `loop` in source order and outside it - what the function
    answers when the loop runs to its end (independent of whether the code is written with early exits or nesting)."""
    inside = {id(x) for x in ast.walk(loop)}
    end = getattr(loop, "end_lineno", loop.lineno)
    return [r for r in walk_own(fn_node) if isinstance(r, ast.Return) and id(r) not in inside and r.lineno > end]


def last_return(fn_node: ast.AST):
    rets = [r for r in walk_own(fn_node) if isinstance(r, ast.Return)]
    return max(rets, key=lambda r: (r.lineno, r.col_offset)) if rets else None


def default_return(prog, fn):
    """The return statement that is reached when NONE of the branch conditions of the function holds (every literal of
    its path condition is negative) - the 'otherwise' answer of an if-chain, whichever way the chain is nested."""
    from .pathcond import PathAnalysis
    pa = PathAnalysis(prog, fn)
    best = None
    for r in walk_own(fn.node):
        if not isinstance(r, ast.Return):
            continue
        worlds = pa.worlds_at(r)
        if worlds and any(all(f[0] == "lit" and not f[2] for f in w.facts) for w in worlds):
            if best is None or len(worlds) <= best[1]:
                best = (r, len(worlds))
    return best[0] if best else last_return(fn.node)
