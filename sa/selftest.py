"""Self-test of the checkers: scratch-copy variants of /repo that must FIRE (break exactly one instance, still
compile) or stay SILENT (behaviour-preserving refactorings).  A variant whose anchor text is not present in the
current tree is skipped (the tree changed), never counted as a failure; a variant that applies but gives the
wrong verdict is a failure (exit 2 in the thorough tier: the checker lost its teeth or grew a false alarm).
"""
from __future__ import annotations

import concurrent.futures
import importlib
import os
import random
import shutil
import tempfile
from dataclasses import dataclass
from typing import List, Optional, Tuple

from . import model
from .report import VIOLATED, UNDECIDED


@dataclass
class Variant:
    name: str
    kind: str                 # "FIRE" | "SILENT" | "INFO" | "REPAIRED" (a scratch copy with a known finding repaired: the finding goes, nothing new comes)
    module: str               # file under pyrefact/ (without .py)
    old: str                  # text to replace (must occur exactly once)
    new: str
    expect_rule: Optional[str] = None   # FIRE: a new violated key must start with this rule
    expect_in: Optional[str] = None     # FIRE: ... and contain this text
    extra: Optional[List[Tuple[str, str, str]]] = None  # further (module, old, new) edits


def _keys(prop: str, root: str):
    mod = importlib.import_module(f"sa.props.{prop.lower()}")
    prog = model.Program(root)
    res = mod.check(prog, "quick")
    # vacuity floors count as errors
    errors = list(res.errors)
    for rule, floor in res.floors.items():
        if res.count(rule) < floor:
            errors.append(f"floor {rule}")
    return sorted({o.key for o in res.obligations if o.status == VIOLATED}), errors


def _run_variant(args):
    prop, repo_root, v = args
    tmp = tempfile.mkdtemp(prefix="sa_selftest_")
    try:
        shutil.copytree(os.path.join(repo_root, "pyrefact"), os.path.join(tmp, "pyrefact"),
                        ignore=shutil.ignore_patterns("__pycache__"))
        if v.module == "*":   # whole-tree ast.unparse round trip: every line and column changes, no semantics
            import ast as _ast
            import glob as _glob
            for path in _glob.glob(os.path.join(tmp, "pyrefact", "*.py")):
                with open(path, encoding="utf-8") as stream:
                    src = stream.read()
                with open(path, "w", encoding="utf-8") as stream:
                    stream.write(_ast.unparse(_ast.parse(src)) + "\n")
            keys, errors = _keys(prop, tmp)
            return (v.name, "ran", ";".join(errors), keys)
        if v.module in ("*rename", "*ifswap", "*nest", "*split", "*mirror", "*all"):   # whole-tree behaviour-preserving refactorings (sa/refactor.py)
            import glob as _glob
            from . import refactor
            transform = {"*rename": refactor.rename_locals, "*ifswap": refactor.swap_if_else, "*nest": refactor.nest_after_early_exit,
                         "*split": refactor.split_conjunctions, "*mirror": refactor.mirror_comparisons,
                         "*all": refactor.all_of_them}[v.module]
            for path in _glob.glob(os.path.join(tmp, "pyrefact", "*.py")):
                with open(path, encoding="utf-8") as stream:
                    src = stream.read()
                with open(path, "w", encoding="utf-8") as stream:
                    stream.write(transform(src))
            keys, errors = _keys(prop, tmp)
            return (v.name, "ran", ";".join(errors), keys)
        if v.module == "*patch":    # a seeded change kept under /verif/seeded: apply its patch to the scratch copy
            import subprocess
            r = subprocess.run(["git", "apply", "--whitespace=nowarn", v.old], cwd=tmp, capture_output=True, text=True)
            if r.returncode != 0:
                return (v.name, "skipped", "patch does not apply to the current tree", [])
            keys, errors = _keys(prop, tmp)
            return (v.name, "ran", ";".join(errors), keys)
        for module, old, new in [(v.module, v.old, v.new)] + list(v.extra or []):
            path = os.path.join(tmp, "pyrefact", module + ".py")
            with open(path, encoding="utf-8") as stream:
                src = stream.read()
            if src.count(old) != 1:
                return (v.name, "skipped", f"anchor text occurs {src.count(old)} times in {module}.py", [])
            src = src.replace(old, new)
            try:
                compile(src, path, "exec")
            except SyntaxError as error:
                return (v.name, "broken-variant", f"variant does not compile: {error}", [])
            with open(path, "w", encoding="utf-8") as stream:
                stream.write(src)
        try:
            keys, errors = _keys(prop, tmp)
        except model.AnalysisError as error:
            return (v.name, "analysis-error", str(error), [])
        return (v.name, "ran", ";".join(errors), keys)
    except Exception as error:  # pragma: no cover
        return (v.name, "crashed", f"{type(error).__name__}: {error}", [])
    finally:
        shutil.rmtree(tmp, ignore_errors=True)


def run(prop: str, seed: int = 0, only: Optional[str] = None, verbose: bool = False, repo_root: str = "/repo"):
    mod = importlib.import_module(f"sa.props.{prop.lower()}")
    variants: List[Variant] = list(getattr(mod, "VARIANTS", []))
    variants.append(Variant("unparse-round-trip-of-every-module", "SILENT", "*", "", ""))
    variants.append(Variant("every-local-variable-renamed", "SILENT", "*rename", "", ""))
    variants.append(Variant("every-if-else-swapped-with-negated-test", "SILENT", "*ifswap", "", ""))
    variants.append(Variant("early-exits-turned-into-nesting", "SILENT", "*nest", "", ""))
    variants.append(Variant("conjunctive-guards-split-into-nested-ifs", "SILENT", "*split", "", ""))
    variants.append(Variant("comparisons-written-the-other-way-round", "SILENT", "*mirror", "", ""))
    variants.append(Variant("all-five-refactorings-composed", "SILENT", "*all", "", ""))
    # the seeded changes of independent agents written against this property (see DESIGN.md section 9)
    import glob as _glob
    import json as _json
    seeded_dir = os.path.join(os.path.dirname(os.path.dirname(os.path.abspath(__file__))), "seeded")
    for meta_path in sorted(_glob.glob(os.path.join(seeded_dir, "*", "meta.json"))):
        try:
            with open(meta_path, encoding="utf-8") as stream:
                meta = _json.load(stream)
        except (OSError, ValueError):
            continue
        if meta.get("property") != prop:
            continue
        kind = "INFO" if str(meta.get("expected", "")).startswith("missed") else "FIRE"
        variants.append(Variant(f"seeded-change-{meta['id']}", kind, "*patch", os.path.join(os.path.dirname(meta_path), "patch.diff"), ""))
    if only:
        variants = [v for v in variants if only in v.name]
    random.Random(seed).shuffle(variants)
    failures: List[str] = []
    summary = {"variants": len(variants), "fired": 0, "silent": 0, "skipped": 0, "failed": 0, "names": []}
    if not variants:
        return {"summary": summary, "failures": failures}
    try:
        base_keys, base_errors = _keys(prop, repo_root)
    except model.AnalysisError as error:
        return {"summary": dict(summary, baseline_error=str(error)), "failures": []}
    base = set(base_keys)
    with concurrent.futures.ProcessPoolExecutor(max_workers=min(16, len(variants))) as pool:
        results = list(pool.map(_run_variant, [(prop, repo_root, v) for v in variants]))
    byname = {v.name: v for v in variants}
    for name, state, info, keys in results:
        v = byname[name]
        new = sorted(set(keys) - base)
        gone = sorted(base - set(keys))
        verdict = None
        if state == "skipped":
            summary["skipped"] += 1
            verdict = f"skipped ({info})"
        elif state != "ran" and not (state == "analysis-error" and v.kind == "FIRE" and v.expect_rule == "ANALYSIS-ERROR"):
            if state == "analysis-error" and v.kind == "FIRE":
                # an anchor that vanishes is reported as analysis error (exit 2), acceptable for FIRE variants
                summary["fired"] += 1
                verdict = f"fired as analysis-error ({info})"
            else:
                failures.append(f"{v.kind} variant {name}: {state}: {info}")
                summary["failed"] += 1
                verdict = f"FAILED {state}: {info}"
        elif v.kind == "INFO":
            summary["silent"] += 1
            verdict = ("reported: " + new[0]) if new else "not reported (expected: value-level)"
        elif v.kind == "REPAIRED":
            # a repaired scratch copy: the known finding of this rule is no longer reported, and nothing new is
            fixed = [k for k in gone if v.expect_rule is None or k.startswith(v.expect_rule + "|")]
            if fixed and not new and not (info and not base_errors):
                summary["silent"] += 1
                verdict = f"silent on the repaired copy (no longer reported: {fixed[0]})"
            else:
                failures.append(f"REPAIRED variant {name}: finding still reported or new alarm (gone: {gone[:2]}, new: {new[:2]}, errors: {info})")
                summary["failed"] += 1
                verdict = f"FAILED: gone {gone[:2]} new {new[:2]} {info}"
        elif v.kind == "FIRE":
            hit = [k for k in new if (v.expect_rule is None or k.startswith(v.expect_rule + "|"))
                   and (v.expect_in is None or v.expect_in in k)]
            if hit or (info and not base_errors):
                summary["fired"] += 1
                verdict = f"fired: {hit[0] if hit else info}"
            else:
                failures.append(f"FIRE variant {name} not reported (new keys: {new[:3]}, errors: {info})")
                summary["failed"] += 1
                verdict = f"FAILED: not reported; new keys {new[:3]}"
        else:
            if v.module.startswith("*") and gone:
                failures.append(f"round trip changed the verdicts: findings no longer reported {gone[:3]}")
                summary["failed"] += 1
                verdict = f"FAILED: verdicts changed {gone[:3]}"
            elif new or (info and not base_errors):
                failures.append(f"SILENT variant {name} raised an alarm: {new[:3]} {info}")
                summary["failed"] += 1
                verdict = f"FAILED: alarm {new[:3]} {info}"
            else:
                summary["silent"] += 1
                verdict = "silent" + (f" (also removed {len(gone)} baseline finding(s))" if gone else "")
        summary["names"].append(f"{v.kind}:{name}: {verdict}")
        if verbose:
            print(f"  [{prop}] {v.kind:6s} {name}: {verdict}")
    summary["names"].sort()
    return {"summary": summary, "failures": failures}
