"""Shared structural reading of processing._schedule_rewrites / _apply_rewrites (used by C10 and C06)."""
from __future__ import annotations

import ast
from typing import Dict, List, Optional, Set, Tuple

from .defuse import assignments
from .model import AnalysisError, Func, Program, norm, parent, walk_own

RANGE_PRODUCERS = {("processing", "_get_charnos"), ("core", "get_charnos")}

# shapes: ("tuple", [shape, ...]) | ("atom", label) | ("unknown",)
UNKNOWN = ("unknown",)


def atom(label: str):
    return ("atom", label)


class Scheduler:
    """Facts about the scheduling function read from its syntax tree (no names are assumed except the anchors)."""

    def __init__(self, prog: Program):
        self.prog = prog
        self.fn = prog.func("processing", "_schedule_rewrites")
        self.apply = prog.func("processing", "_apply_rewrites")
        fn = self.fn
        rets = [n for n in walk_own(fn.node) if isinstance(n, ast.Return) and n.value is not None]
        if len(rets) != 1 or not isinstance(rets[0].value, ast.Name):
            raise AnalysisError("_schedule_rewrites: expected a single `return <name>`")
        self.ret = rets[0]
        self.R = rets[0].value.id
        # insertion sites into R
        self.inserts: List[Tuple[ast.AST, ast.AST, str]] = []   # (statement/call node, inserted expr, kind one|many)
        for n in walk_own(fn.node):
            if isinstance(n, ast.Call) and isinstance(n.func, ast.Attribute) and isinstance(n.func.value, ast.Name) \
                    and n.func.value.id == self.R and n.args:
                if n.func.attr in ("append", "add"):
                    self.inserts.append((n, n.args[0], "one"))
                elif n.func.attr == "insert" and len(n.args) == 2:
                    self.inserts.append((n, n.args[1], "one"))
                elif n.func.attr in ("extend", "update"):
                    self.inserts.append((n, n.args[0], "many"))
            elif isinstance(n, ast.AugAssign) and isinstance(n.target, ast.Name) and n.target.id == self.R:
                self.inserts.append((n, n.value, "many"))
        self.R_defs = assignments(fn, self.R)

    # ------------------------------------------------------------------ loops
    def loops_around(self, node: ast.AST) -> List[ast.AST]:
        out = []
        n = parent(node)
        while n is not None and n is not self.fn.node:
            if isinstance(n, (ast.For, ast.While)):
                out.append(n)
            n = parent(n)
        return out  # innermost first

    # ------------------------------------------------------------------ shapes
    def elem_shape_of_collection(self, name: str, at: ast.AST, depth: int = 0) -> tuple:
        """Shape of the elements of collection `name` as defined by the bindings that precede `at` in the same loop."""
        if depth > 6:
            return UNKNOWN
        defs = [(s, v) for s, v in assignments(self.fn, name) if v is not None and getattr(s, "lineno", 0) <= getattr(at, "lineno", 0)]
        if not defs:
            return UNKNOWN
        s, v = max(defs, key=lambda d: d[0].lineno)
        return self.elem_shape(v, s, depth + 1)

    def elem_shape(self, v: ast.AST, at: ast.AST, depth: int = 0) -> tuple:
        if isinstance(v, ast.Call):
            d = self.prog.dotted(v.func)
            if d in ("sorted", "list", "tuple", "set", "frozenset", "reversed") and v.args:
                return self.elem_shape(v.args[0], at, depth)
        if isinstance(v, (ast.SetComp, ast.ListComp, ast.GeneratorExp)):
            env = {}
            for g in v.generators:
                if isinstance(g.iter, ast.Name):
                    self._bind_shape(g.target, self.elem_shape_of_collection(g.iter.id, _prev(at), depth + 1), env)
                else:
                    self._bind_shape(g.target, self.elem_shape(g.iter, at, depth + 1), env)
            return self.expr_shape(v.elt, env)
        if isinstance(v, ast.Name):
            return self.elem_shape_of_collection(v.id, _prev(at), depth + 1)
        if isinstance(v, ast.Subscript) and isinstance(v.value, ast.Name) and not isinstance(v.slice, ast.Slice):
            # D[t]: values of a dict of lists: elements appended elsewhere
            return self.dict_value_elem_shape(v.value.id)
        return UNKNOWN

    def dict_value_elem_shape(self, dname: str) -> tuple:
        for n in walk_own(self.fn.node):
            if isinstance(n, ast.Call) and isinstance(n.func, ast.Attribute) and n.func.attr == "append" and n.args \
                    and isinstance(n.func.value, ast.Subscript) and isinstance(n.func.value.value, ast.Name) \
                    and n.func.value.value.id == dname:
                return self.expr_shape(n.args[0], {})
        return UNKNOWN

    def _bind_shape(self, target: ast.AST, shape: tuple, env: Dict[str, tuple]) -> None:
        if isinstance(target, ast.Name):
            env[target.id] = shape
        elif isinstance(target, (ast.Tuple, ast.List)):
            for i, t in enumerate(target.elts):
                sub = shape[1][i] if shape[0] == "tuple" and i < len(shape[1]) else UNKNOWN
                self._bind_shape(t, sub, env)

    def expr_shape(self, e: ast.AST, env: Dict[str, tuple]) -> tuple:
        if isinstance(e, ast.Tuple):
            return ("tuple", [self.expr_shape(x, env) for x in e.elts])
        if isinstance(e, ast.Name):
            return env.get(e.id, atom(f"var:{e.id}"))
        if isinstance(e, ast.Call):
            r = self.prog.resolve_call(e.func, self.fn.mod, self.fn)
            if r and r[0] == "fn" and r[1].key in RANGE_PRODUCERS:
                return atom("range")
            if r and r[0] == "cls" and r[1].qual == "Range":
                return atom("range")
            if r and r[0] == "cls" and r[1].qual == "_Rewrite":
                return atom("rewrite")
            if r and r[0] == "cls" and r[1].qual == "_Transaction":
                return atom("transaction")
        if isinstance(e, ast.Subscript) and isinstance(e.slice, ast.Constant) and isinstance(e.slice.value, int):
            base = self.expr_shape(e.value, env)
            if base[0] == "tuple" and -len(base[1]) <= e.slice.value < len(base[1]):
                return base[1][e.slice.value]
            return UNKNOWN
        if isinstance(e, ast.Attribute):
            base = self.expr_shape(e.value, env)
            if base == atom("rewrite"):
                return atom(f"rewrite.{e.attr}")
            return UNKNOWN
        return UNKNOWN

    def mentions(self, e: ast.AST, env: Dict[str, tuple]) -> Set[str]:
        """Atom labels an expression depends on."""
        out: Set[str] = set()
        sh = self.expr_shape(e, env)
        if sh[0] == "atom":
            out.add(sh[1])
            return out
        if sh[0] == "tuple":
            def flat(s):
                if s[0] == "atom":
                    out.add(s[1])
                elif s[0] == "tuple":
                    for x in s[1]:
                        flat(x)
            flat(sh)
            return out
        for c in ast.iter_child_nodes(e):
            if isinstance(c, ast.expr):
                out |= self.mentions(c, env)
        return out

    # ------------------------------------------------------------------ sort key
    def resolve_key(self, key: ast.AST) -> Optional[Tuple[List[str], ast.AST]]:
        """-> (parameter names, returned expression) for a lambda, a local def or a module-level function."""
        if isinstance(key, ast.Lambda):
            return [a.arg for a in key.args.args], key.body
        if isinstance(key, ast.Name):
            fn = self.prog.resolve_name(self.fn.mod, key.id, self.fn)
            if fn is not None:
                rets = [n for n in walk_own(fn.node) if isinstance(n, ast.Return) and n.value is not None]
                if len(rets) == 1:
                    return fn.posparams, rets[0].value
        return None


def _prev(at: ast.AST):
    class P:  # a position just before `at`
        lineno = getattr(at, "lineno", 1) - 1
    return P
