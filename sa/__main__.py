"""CLI: python -m sa check <ID> [--tier quick|thorough] [--root /repo]
        python -m sa all [--tier ...]        run every claimed check
        python -m sa explain <replay.json>   print a stored violation report
        python -m sa selftest [<ID> ...]     run the checker self-tests (scratch-copy variants)
"""
from __future__ import annotations

import argparse
import importlib
import json
import os
import sys
import time
import traceback

from . import model, report

CLAIMED = ["C03", "C04", "C05", "C06", "C07", "C08", "C10", "C11", "C12", "C13", "C15", "C16", "C17", "C18",
           "C19", "C20"]


def run_check(prop: str, tier: str, root: str, seed: int, evidence_dir=None, out_dir=None, quiet=False) -> int:
    t0 = time.time()
    try:
        mod = importlib.import_module(f"sa.props.{prop.lower()}")
        prog = model.Program(root)
        result = mod.check(prog, tier)
        result.analysed.setdefault("root", prog.root)
        result.analysed.setdefault("source_digest", prog.digest)
        result.analysed.setdefault("modules", len(prog.modules))
        result.analysed.setdefault("functions", len(prog.funcs))
        if tier == "thorough" and evidence_dir is None and hasattr(mod, "VARIANTS"):
            from . import selftest
            st = selftest.run(prop, seed=seed)
            result.selftest = st["summary"]
            for failure in st["failures"]:
                result.errors.append(f"self-test: {failure}")
        return report.finish(result, tier, seed, t0, evidence_dir, out_dir, quiet)
    except model.AnalysisError as error:
        print(f"ANALYSIS-ERROR property={prop} reason={error}")
        return 2
    except Exception as error:  # a traceback must never look like a violation
        traceback.print_exc()
        print(f"ANALYSIS-ERROR property={prop} reason=internal error {type(error).__name__}: {error}")
        return 2


def main(argv=None) -> int:
    p = argparse.ArgumentParser(prog="sa")
    sub = p.add_subparsers(dest="cmd", required=True)
    c = sub.add_parser("check")
    c.add_argument("prop")
    c.add_argument("--tier", default=os.environ.get("VERIF_TIER", "quick"), choices=["quick", "thorough"])
    c.add_argument("--root", default="/repo")
    c.add_argument("--evidence-dir", default=None)
    c.add_argument("--out-dir", default=None)
    a = sub.add_parser("all")
    a.add_argument("--tier", default="quick", choices=["quick", "thorough"])
    a.add_argument("--root", default="/repo")
    a.add_argument("--evidence-dir", default=None)
    a.add_argument("--out-dir", default=None)
    e = sub.add_parser("explain")
    e.add_argument("path")
    s = sub.add_parser("selftest")
    s.add_argument("props", nargs="*")
    s.add_argument("--only", default=None, help="substring filter on variant names")
    s.add_argument("--keep", action="store_true")
    args = p.parse_args(argv)
    seed = int(os.environ.get("VERIF_SEED", "0") or 0)

    if args.cmd == "check":
        return run_check(args.prop.upper(), args.tier, args.root, seed, args.evidence_dir, args.out_dir)
    if args.cmd == "all":
        worst = 0
        for prop in CLAIMED:
            if not os.path.exists(os.path.join(os.path.dirname(__file__), "props", f"{prop.lower()}.py")):
                continue
            worst = max(worst, run_check(prop, args.tier, args.root, seed, args.evidence_dir, args.out_dir))
        return worst
    if args.cmd == "explain":
        with open(args.path, encoding="utf-8") as stream:
            data = json.load(stream)
        print(f"property {data['property']} (tier {data['tier']}, root {data.get('root')})")
        for v in data["violations"]:
            print(f"- {v['rule']} at {v['where']} in {v['function']}\n    construct: {v['construct']}\n    {v['detail']}\n    key: {v['key']}")
        return 0
    if args.cmd == "selftest":
        from . import selftest
        worst = 0
        for prop in (args.props or CLAIMED):
            st = selftest.run(prop.upper(), seed=seed, only=args.only, verbose=True)
            print(json.dumps(st["summary"]))
            if st["failures"]:
                worst = 2
                for f in st["failures"]:
                    print(f"SELFTEST-FAILURE {prop}: {f}")
        return worst
    return 2


if __name__ == "__main__":
    sys.exit(main())
