"""C16 Code is treated as unreachable or pointless only when it really is (partial, DESIGN 3/C16)."""
from __future__ import annotations

import ast
from typing import Dict, List, Optional, Set, Tuple

from ..evaluator import caught, handler_names
from ..model import AnalysisError, ConstEval, Func, Program, Unresolvable, norm, parent, short, walk_own, walk_body
from ..pathcond import Lit, PathAnalysis, entails
from ..report import Result
from .c15 import IMPURE

# Reference: fields whose sub-terms are evaluated when a node of that kind is executed / evaluated, and the
# remaining (inert) fields.  Every field of ast.<K>._fields of the running interpreter must be classified.
EVALUATED: Dict[str, List[str]] = {
    "Module": ["body"], "Expression": ["body"], "Interactive": ["body"],
    "Expr": ["value"], "Pass": [], "Constant": [], "Name": [],
    "List": ["elts"], "Set": ["elts"], "Tuple": ["elts"], "Dict": ["keys", "values"],
    "UnaryOp": ["operand"], "BinOp": ["left", "right"], "BoolOp": ["values"], "Compare": ["left", "comparators"],
    "Attribute": ["value"], "Subscript": ["value", "slice"], "Slice": ["lower", "upper", "step"], "Starred": ["value"],
    "IfExp": ["test", "body", "orelse"], "If": ["test", "body", "orelse"],
    "For": ["target", "iter", "body", "orelse"], "AsyncFor": ["target", "iter", "body", "orelse"],
    "While": ["test", "body", "orelse"],
    "ListComp": ["elt", "generators"], "SetComp": ["elt", "generators"], "GeneratorExp": ["elt", "generators"],
    "DictComp": ["key", "value", "generators"], "comprehension": ["target", "iter", "ifs"],
    "Call": ["func", "args", "keywords"], "keyword": ["value"],
    "Lambda": ["args"], "arguments": ["posonlyargs", "args", "vararg", "kwonlyargs", "kw_defaults", "kwarg", "defaults"],
    "arg": ["annotation"],
    "Assign": ["targets", "value"], "AnnAssign": ["target", "annotation", "value"], "AugAssign": ["target", "value"],
    "NamedExpr": ["target", "value"],
    "JoinedStr": ["values"], "FormattedValue": ["value", "format_spec"],
    "FunctionDef": ["decorator_list", "args", "returns"], "AsyncFunctionDef": ["decorator_list", "args", "returns"],
    "ClassDef": ["decorator_list", "bases", "keywords", "body"],
    "With": ["items", "body"], "AsyncWith": ["items", "body"], "withitem": ["context_expr", "optional_vars"],
    "Await": ["value"], "Yield": ["value"], "YieldFrom": ["value"], "Return": ["value"], "Raise": ["exc", "cause"],
    "Assert": ["test", "msg"], "Delete": ["targets"],
}
INERT: Dict[str, List[str]] = {
    "Module": ["type_ignores"], "Constant": ["value", "kind"], "Name": ["id", "ctx"], "List": ["ctx"], "Tuple": ["ctx"],
    "UnaryOp": ["op"], "BinOp": ["op"], "BoolOp": ["op"], "Compare": ["ops"], "Attribute": ["attr", "ctx"],
    "Subscript": ["ctx"], "Starred": ["ctx"], "For": ["type_comment"], "AsyncFor": ["type_comment"],
    "comprehension": ["is_async"], "keyword": ["arg"], "Lambda": ["body"], "arg": ["arg", "type_comment"],
    "Assign": ["type_comment"], "AnnAssign": ["simple"], "AugAssign": ["op"], "FormattedValue": ["conversion"],
    "FunctionDef": ["name", "body", "type_comment", "type_params"],
    "AsyncFunctionDef": ["name", "body", "type_comment", "type_params"],
    "ClassDef": ["name", "type_params"], "With": ["type_comment"], "AsyncWith": ["type_comment"],
}
# kinds for which "no effect" must be impossible (definitions, imports, control transfer) except the `_` convention
ALWAYS_EFFECT = ["FunctionDef", "AsyncFunctionDef", "ClassDef", "Import", "ImportFrom", "Return", "Raise", "Yield",
                 "YieldFrom", "Continue", "Break", "Assert", "Delete", "Global", "Nonlocal", "Try", "While", "With",
                 "AsyncWith", "AsyncFor", "Await", "Match"]
DEFINITIONS = ("FunctionDef", "AsyncFunctionDef", "ClassDef")


ABSTRACT = {"AST", "mod", "stmt", "expr", "expr_context", "boolop", "operator", "unaryop", "cmpop", "excepthandler",
            "pattern", "type_ignore", "type_param", "slice"}
DEPRECATED = {"Num", "Str", "Bytes", "NameConstant", "Ellipsis", "Index", "ExtSlice", "Suite", "AugLoad", "AugStore", "Param"}


def all_kinds() -> List[type]:
    out = []
    for name in sorted(dir(ast)):
        if name.startswith("_"):
            continue
        import warnings
        with warnings.catch_warnings():
            warnings.simplefilter("ignore")
            obj = getattr(ast, name)
        if isinstance(obj, type) and issubclass(obj, ast.AST) and name not in ABSTRACT and name not in DEPRECATED \
                and obj.__name__ not in DEPRECATED:
            out.append(obj)
    return out


class PE:
    """Per-kind partial evaluation of an isinstance-dispatch analyser."""

    def __init__(self, prog: Program, fn: Func, kind: type, depth: int = 0):
        self.prog, self.fn, self.kind, self.depth = prog, fn, kind, depth
        self.node = fn.posparams[0]
        self.fields: Set[str] = set()
        self.returns: List[Tuple[ast.Return, List[Tuple[ast.AST, Optional[bool]]]]] = []
        self.named = False   # some isinstance test mentions this kind positively
        self.path: List[Tuple[ast.AST, Optional[bool]]] = []
        self.fell_through = self._walk(fn.node.body)

    # 3-valued evaluation of a test for a node of this kind
    def test(self, t: ast.AST) -> Optional[bool]:
        if isinstance(t, ast.BoolOp):
            vals = [self.test(v) for v in t.values]
            if isinstance(t.op, ast.And):
                if any(v is False for v in vals):
                    return False
                return True if all(v is True for v in vals) else None
            if any(v is True for v in vals):
                return True
            return False if all(v is False for v in vals) else None
        if isinstance(t, ast.UnaryOp) and isinstance(t.op, ast.Not):
            v = self.test(t.operand)
            return None if v is None else not v
        if isinstance(t, ast.Call) and isinstance(t.func, ast.Name) and t.func.id == "isinstance" and len(t.args) == 2 \
                and isinstance(t.args[0], ast.Name) and t.args[0].id == self.node and not isinstance(t.args[1], ast.Name):
            classes = self.classes(t.args[1])
            if classes is None:
                return None
            r = any(issubclass(self.kind, c) for c in classes)
            if r:
                self.named = True
            return r
        if isinstance(t, ast.Compare) and len(t.ops) == 1 and isinstance(t.left, ast.Name) and t.left.id == self.node \
                and isinstance(t.comparators[0], ast.Constant) and t.comparators[0].value is None:
            return isinstance(t.ops[0], (ast.IsNot, ast.NotEq))
        if isinstance(t, ast.Call) and isinstance(t.func, ast.Name) and t.func.id == "isinstance" and len(t.args) == 2 \
                and isinstance(t.args[0], ast.Name) and t.args[0].id == self.node and isinstance(t.args[1], ast.Name):
            # a local bound on several paths to tuples of classes: decided when all bindings agree
            from ..defuse import assignments
            verdicts = set()
            for _, d in assignments(self.fn, t.args[1].id):
                cl = self.classes(d) if d is not None else None
                verdicts.add(None if cl is None else any(issubclass(self.kind, c) for c in cl))
            if len(verdicts) == 1:
                v = verdicts.pop()
                if v:
                    self.named = True
                return v
            if True in verdicts:
                self.named = True
            return None
        if isinstance(t, ast.Call) and len(t.args) == 1 and isinstance(t.args[0], ast.Name) and t.args[0].id == self.node and self.depth < 2:
            r = self.prog.resolve_call(t.func, self.fn.mod, self.fn)
            if r and r[0] == "fn" and r[1].key != self.fn.key and r[1].posparams:
                sub = PE(self.prog, r[1], self.kind, depth=self.depth + 1)
                ans = {const_of(x.value) for x, _ in sub.returns}
                if sub.named:
                    self.named = True
                if not sub.fell_through and ans == {False}:
                    return False
                if not sub.fell_through and ans == {True}:
                    return True
        return None

    def classes(self, e: ast.AST) -> Optional[List[type]]:
        if isinstance(e, ast.Tuple):
            out = []
            for x in e.elts:
                c = self.classes(x)
                if c is None:
                    return None
                out += c
            return out
        d = self.prog.dotted(e)
        if d and "." in d:
            head, name = d.rsplit(".", 1)
            if self.fn.mod.aliases.get(head) == ("ext", "ast") and isinstance(getattr(ast, name, None), type):
                return [getattr(ast, name)]
        if isinstance(e, ast.Name):
            # a local/global tuple of classes
            from ..defuse import assignments
            defs = assignments(self.fn, e.id)
            if len(defs) == 1 and defs[0][1] is not None:
                return self.classes(defs[0][1])
        return None

    def mention(self, e: ast.AST) -> None:
        for n in ast.walk(e):
            if isinstance(n, ast.Attribute) and isinstance(n.value, ast.Name) and n.value.id == self.node:
                self.fields.add(n.attr)
            if isinstance(n, ast.Call) and isinstance(n.func, ast.Name) and n.func.id == "getattr" and len(n.args) >= 2 \
                    and isinstance(n.args[0], ast.Name) and n.args[0].id == self.node and isinstance(n.args[1], ast.Constant):
                self.fields.add(n.args[1].value)

    def _walk(self, stmts) -> bool:
        """True if control can fall off the end of stmts for this kind."""
        pushed = 0
        try:
            return self._walk_inner(stmts)
        finally:
            pass

    def _walk_inner(self, stmts) -> bool:
        depth0 = len(self.path)
        try:
            return self._walk_block(stmts)
        finally:
            del self.path[depth0:]

    def _walk_block(self, stmts) -> bool:
        for s in stmts:
            if isinstance(s, ast.If):
                v = self.test(s.test)
                if v is not False:
                    self.mention(s.test)
                falls = False
                body_falls = orelse_falls = False
                if v is not False:
                    self.path.append((s.test, True if v is None else None))
                    body_falls = self._walk(s.body)
                    self.path.pop()
                if v is not True:
                    self.path.append((s.test, False if v is None else None))
                    orelse_falls = self._walk(s.orelse)
                    self.path.pop()
                falls = body_falls or orelse_falls
                if not falls:
                    return False
                # early exit: what follows runs under the negation of the branch that left
                if v is None and not body_falls:
                    self.path.append((s.test, False))
                elif v is None and not orelse_falls:
                    self.path.append((s.test, True))
            elif isinstance(s, ast.Return):
                if s.value is not None:
                    self.mention(s.value)
                self.returns.append((s, list(self.path)))
                return False
            elif isinstance(s, ast.Raise):
                return False
            elif isinstance(s, (ast.For, ast.While)):
                self.mention(s.iter if isinstance(s, ast.For) else s.test)
                self._walk(s.body)
                self._walk(s.orelse)
            elif isinstance(s, ast.Try):
                falls = self._walk(s.body)
                for h in s.handlers:
                    falls = self._walk(h.body) or falls
                if s.orelse:
                    falls = self._walk(s.orelse) or falls
                if s.finalbody:
                    self._walk(s.finalbody)
                if not falls:
                    return False
            elif isinstance(s, ast.With):
                if not self._walk(s.body):
                    return False
            else:
                self.mention(s)
        return True


def const_of(e: Optional[ast.AST]):
    if isinstance(e, ast.Constant):
        return e.value
    return "expr"


LATER_RULES = ' Later rules: R16.4 emptiness by iteration; R16.6/R16.12 through helpers; R16.11 also while-else and remove_dead_ifs; R16.13 counts parameters; (R16.14) analysers keep no module-level memory; (R16.15) named callees and undecorated functions only. (R16.24) the live branch of a decided `if` is not put in its place when the node is written as `elif`; (R16.23) the only stored name that is no effect is `_`, compared by equality with the constant; (R16.22) the whitelist handed to recursive calls is that of the caller, never a locally widened one; (R16.21) optional parameters of has_side_effect that recursive calls leave out have empty defaults; (R16.20) a with statement does not block through an exception raised in its body (the context manager may swallow it).'


def check(prog: Program, tier: str) -> Result:
    res = Result(
        "C16",
        explanation=(
            "Per-kind partial evaluation of the two analysers core.has_side_effect and core.is_blocking: for every "
            "concrete ast class K of the running interpreter the isinstance dispatch is walked with isinstance(node, T) "
            "decided by K, collecting the fields of node consulted and the possible answers. Decided: (R16.1) kinds no "
            "branch names get the conservative default (effect / not blocking); (R16.2) for every kind that can be "
            "answered 'no effect', every field that is evaluated when the node executes is consulted, and a decorated "
            "definition is an effect; (R16.3) definitions, imports and control transfers are effects except for the "
            "documented `_` convention; (R16.4) is_blocking answers 'blocking' for a loop only after its header was "
            "evaluated successfully; (R16.5) with an unknown `if` test both branches must block; (R16.6) the "
            "safe-callable inference starts from a set free of impure/stateful builtins and adds a function only if "
            "all its non-returning statements and returned expressions are effect-free; (R16.7) consumers delete on "
            "the safe polarity; (R16.8) the loop context travels with every recursive is_blocking call; (R16.9) the analysers do not "
            "mutate their arguments (shared whitelist); (R16.10) a break of a `while True:` loop is searched at any depth in if / with / try / match "
            "children; (R16.11) delete_unreachable_code deletes a whole if/while only when nothing of it runs; (R16.4 also: whether a for loop runs is decided by iterating the evaluated header, never by its truth value; R16.14: the analysers keep no module-level memory of verdicts) (R16.12) the statement that ends the "
            "scan of a function body is checked for effects; (R16.13) builtins the module redefines leave the initial safe set. "
            "Not decided: reachability proper (with-suppress, exceptions) and the answers for "
            "covered fields."),
        rule_text="instances = (analyser, ast kind) pairs, loop/if branches of is_blocking, consumer sites; non-trivial = kinds that can receive the unsafe answer",
    )
    res.explanation += LATER_RULES
    res.trusted_base = ["CPython ast (class list and _fields of the running interpreter)",
                        "reference table of evaluated fields per node kind in sa/props/c16.py",
                        "impure-builtin blacklist (shared with C15)"]
    kinds = all_kinds()
    # the reference table must classify every field of every kind it covers
    for k in kinds:
        name = k.__name__
        if name in EVALUATED:
            classified = set(EVALUATED[name]) | set(INERT.get(name, []))
            missing = set(k._fields) - classified
            if missing:
                raise AnalysisError(f"reference table does not classify fields {sorted(missing)} of ast.{name} (new Python version?)")
    hse = prog.func("core", "has_side_effect")
    isb = prog.func("core", "is_blocking")
    _has_side_effect(prog, res, hse, kinds)
    _is_blocking(prog, res, isb, kinds)
    _safe_callables(prog, res)
    _consumers(prog, res)
    _analyser_purity(prog, res)
    _whole_statement_deletes(prog, res)
    _r16_14(prog, res)
    _r16_15(prog, res)
    _r16_16(prog, res)
    _r16_17(prog, res)
    _r16_18(prog, res)
    _r16_19(prog, res)
    _r16_20(prog, res)
    _r16_21(prog, res)
    _r16_22(prog, res)
    _r16_23(prog, res)
    _r16_24(prog, res)
    res.floors.update({"R16.24": 1, "R16.23": 2, "R16.22": 1, "R16.21": 1, "R16.20": 1, "R16.1": 60, "R16.2": 25, "R16.3": 10, "R16.4": 2, "R16.5": 1, "R16.6": 3, "R16.7": 8, "R16.8": 5, "R16.9": 2, "R16.10": 4, "R16.11": 1, "R16.12": 1, "R16.13": 1, "R16.15": 2, "R16.16": 3, "R16.17": 1, "R16.18": 4, "R16.19": 1})
    res.analysed.update({"ast_kinds": len(kinds)})
    return res


BREAK_HOLDERS = ("If", "With", "AsyncWith", "Try", "TryStar", "Match")   # compound statements whose body can hold a break of the enclosing loop


def _break_search(prog: Program, res: Result, fn: Func) -> None:
    """R16.10: `while <truthy>:` is answered 'blocking' (an endless loop) after a scan of the loop body.  The scan must
    find a `break` of this loop wherever it can legally be: directly in the body or at any depth inside if / with /
    try / match statements (not inside nested loops, whose breaks are their own).  Read from the scan: for which kinds
    of child statement a deep search for ast.Break (walk(child, ..Break..)) is made."""
    node = fn.posparams[0]
    scans = [l for l in walk_own(fn.node) if isinstance(l, ast.For) and norm(l.iter) == f"{node}.body" and isinstance(l.target, ast.Name)]
    # the scan that precedes the final answer for loops: the one whose enclosing `if` names both loop kinds or While
    deep: Dict[str, Set[str]] = {}
    holders = [h for h in BREAK_HOLDERS if hasattr(ast, h)]
    found_any = False
    for l in scans:
        child = l.target.id
        for c in ast.walk(l):
            if not (isinstance(c, ast.Call) and norm(c.func).split(".")[-1] == "walk" and len(c.args) >= 2 and norm(c.args[0]) == child):
                continue
            if "Break" not in norm(c.args[1]):
                continue
            found_any = True
            # kind restrictions on `child` between the call and the loop: isinstance(child, K) / not isinstance(child, K)
            allowed = set(holders)
            a = parent(c)
            prev = c
            while a is not None and a is not l:
                tests = []
                if isinstance(a, ast.If) and (prev in a.body or prev is a.test or any(prev is x for x in ast.walk(a.test))):
                    tests.append((a.test, prev is a.test or any(prev is x for x in ast.walk(a.test))))
                for t, inside_test in tests:
                    conj = t.values if isinstance(t, ast.BoolOp) and isinstance(t.op, ast.And) else [t]
                    for cj in conj:
                        neg = isinstance(cj, ast.UnaryOp) and isinstance(cj.op, ast.Not)
                        core_ = cj.operand if neg else cj
                        if isinstance(core_, ast.Call) and norm(core_.func) in ("isinstance", "_isinstance_cache") and len(core_.args) == 2 and norm(core_.args[0]) == child:
                            ks = {x.attr for x in ast.walk(core_.args[1]) if isinstance(x, ast.Attribute)} | {x.id for x in ast.walk(core_.args[1]) if isinstance(x, ast.Name)}
                            if inside_test and cj is not prev and not any(prev is x for x in ast.walk(cj)):
                                allowed = (allowed - ks) if neg else (allowed & ks)
                            elif not inside_test:
                                allowed = (allowed - ks) if neg else (allowed & ks)
                # an `elif` chain: the call sits in the orelse of an If whose test selected other kinds
                if isinstance(a, ast.If) and prev in a.orelse:
                    t = a.test
                    conj = t.values if isinstance(t, ast.BoolOp) and isinstance(t.op, ast.And) else [t]
                    first = conj[0]
                    if isinstance(first, ast.Call) and norm(first.func) in ("isinstance", "_isinstance_cache") and norm(first.args[0]) == child and len(conj) == 1:
                        ks = {x.attr for x in ast.walk(first.args[1]) if isinstance(x, ast.Attribute)}
                        allowed -= ks
                prev, a = a, parent(a)
            for k in allowed:
                deep.setdefault(k, set()).add(f"line {c.lineno}")
    if not scans:
        res.undecided("R16.10", fn.loc(), fn.fq, "search for a break of the loop", f"no scan over {node}.body found")
        return
    for k in holders:
        ok = k in deep
        res.decide(ok, "R16.10", fn.loc(scans[-1]), fn.fq, f"break inside a child ast.{k} statement",
                   f"searched at any depth ({', '.join(sorted(deep[k]))})" if ok else
                   f"`while True:` whose body holds a break inside a{'n' if k[0] in 'AI' else ''} {k.lower()} statement is answered 'blocking': "
                   "the statements after the loop are deleted as unreachable although the loop can be left")


def _whole_statement_deletes(prog: Program, res: Result) -> None:
    """R16.11: delete_unreachable_code may delete a whole `if` / `while` statement only when nothing of it can run:
    a while loop whose test is false, or an if whose TAKEN branch is empty.  Where the taken branch has statements,
    only the statements of the other branch are dead.  Path condition at every `yield <the statement>, None`."""
    from ..pathcond import And, Or, Not
    for key in (("fixes", "delete_unreachable_code"), ("fixes", "remove_dead_ifs")):
        fn = prog.funcs.get(key)
        if fn is None:
            raise AnalysisError(f"anchor {key[0]}.{key[1]} not found")
        _whole_statement_deletes_in(prog, res, fn)


def _whole_statement_deletes_in(prog: Program, res: Result, fn: Func) -> None:
    from ..pathcond import And, Or, Not
    # the loop over the statements whose test is evaluated: its variable's .test is handed to literal_value
    loops = [l for l in walk_own(fn.node) if isinstance(l, ast.For) and isinstance(l.target, ast.Name)
             and any(isinstance(c, ast.Call) and norm(c.func).endswith("literal_value") and c.args and norm(c.args[0]) == f"{l.target.id}.test" for c in ast.walk(l))]
    if not loops:
        res.undecided("R16.11", fn.loc(), fn.fq, "deletion of whole if/while statements", "loop over the bodies not found")
        return
    loop = loops[0]
    subj = loop.target.id
    tv = None
    for a in ast.walk(loop):
        if isinstance(a, ast.Assign) and len(a.targets) == 1 and isinstance(a.targets[0], ast.Name) and isinstance(a.value, ast.Call) \
                and norm(a.value.func).endswith("literal_value") and a.value.args and norm(a.value.args[0]) == f"{subj}.test":
            tv = a.targets[0].id
    pa = PathAnalysis(prog, fn)
    n = 0
    for y in ast.walk(loop):
        if not (isinstance(y, ast.Yield) and isinstance(y.value, ast.Tuple) and len(y.value.elts) >= 2):
            continue
        tgt, new = y.value.elts[0], y.value.elts[1]
        if not (isinstance(tgt, ast.Name) and tgt.id == subj and isinstance(new, ast.Constant) and new.value is None):
            continue
        n += 1
        if tv is None:
            res.undecided("R16.11", fn.loc(y), fn.fq, short(y, 60), "evaluated test value not found")
            continue

        def goal(w):
            e = lambda text: pa.formula(ast.parse(text, mode="eval").body, w)
            # a while loop whose test is false still runs its else clause
            return Or(And(e(f"isinstance({subj}, ast.While)"), Not(e(tv)), Not(e(f"{subj}.orelse"))),
                      And(e(tv), Not(e(f"{subj}.body"))),
                      And(Not(e(tv)), Not(e(f"{subj}.orelse"))))
        ok, why = pa.holds_at(y, goal)
        res.decide(ok, "R16.11", fn.loc(y), fn.fq, f"{short(y, 50)} under {' / '.join(x[:60] for x in _conds_of(y, loop))}",
                   "the statement is deleted only when its test is false and it has no else clause (while) or the taken branch is empty (if)" if ok else
                   "the whole statement is deleted although a part of it runs (the taken branch of an if, the else clause of a `while <false>`): live code is removed with the dead part")
    if n == 0:
        res.ok("R16.11", fn.loc(loop), fn.fq, "deletion of whole if/while statements", "no whole-statement deletion", trivial=True)


def _conds_of(n: ast.AST, stop: ast.AST) -> List[str]:
    out = []
    child, a = n, parent(n)
    while a is not None and a is not stop:
        if isinstance(a, ast.If):
            out.append(("" if child in a.body else "not ") + norm(a.test))
        child, a = a, parent(a)
    return list(reversed(out))[-2:]


def _analyser_purity(prog: Program, res: Result) -> None:
    """R16.9: the answer for one statement must not change the answer for another one - the analysers do not mutate
    what they are given (the whitelist of safe callables is shared by all statements of a module; the node is the
    tree being analysed).  Decided with the mutation summaries of the ownership interpreter (sa/ownership.py)."""
    from ..ownership import Ownership
    own = Ownership(prog)
    for mod, name in (("core", "has_side_effect"), ("core", "is_blocking")):
        fn = prog.func(mod, name)
        summ = own.summaries.get(fn.key)
        if summ is None:
            res.undecided("R16.9", fn.loc(), fn.fq, f"{name}: parameters left unmodified", "no summary")
            continue
        for prm in fn.all_params:
            what = summ.mutates.get(prm)
            res.decide(what is None, "R16.9", fn.loc(), fn.fq, f"{name}: parameter '{prm}' is left unmodified",
                       "no statement of the analyser (or of a callee) mutates it" if what is None else
                       f"the analyser modifies its argument in place ({what}): the collection is shared by the caller across statements, "
                       "so a name judged safe while looking at one statement stays 'safe' for every later statement of the module")


def _truthy_when(expr: ast.AST, assume: Dict[str, bool], default_calls: bool) -> Optional[bool]:
    """3-valued evaluation of a boolean expression with given truth of some sub-expressions (by normalised text)."""
    t = norm(expr)
    if t in assume:
        return assume[t]
    if isinstance(expr, ast.Compare) and len(expr.ops) == 1 and isinstance(expr.ops[0], (ast.Eq, ast.NotEq)):
        # the same test written the other way round / with the complementary operator
        a, b = norm(expr.left), norm(expr.comparators[0])
        same, other = ("==", "!=") if isinstance(expr.ops[0], ast.Eq) else ("!=", "==")
        for l, r in ((a, b), (b, a)):
            if f"{l} {same} {r}" in assume:
                return assume[f"{l} {same} {r}"]
            if f"{l} {other} {r}" in assume:
                return not assume[f"{l} {other} {r}"]
    if isinstance(expr, ast.Constant):
        return bool(expr.value)
    if isinstance(expr, ast.BoolOp):
        vals = [_truthy_when(v, assume, default_calls) for v in expr.values]
        if isinstance(expr.op, ast.Or):
            if any(v is True for v in vals):
                return True
            return False if all(v is False for v in vals) else None
        if any(v is False for v in vals):
            return False
        return True if all(v is True for v in vals) else None
    if isinstance(expr, ast.UnaryOp) and isinstance(expr.op, ast.Not):
        v = _truthy_when(expr.operand, assume, default_calls)
        return None if v is None else not v
    if isinstance(expr, ast.Call):
        return default_calls
    return None


def _has_side_effect(prog: Program, res: Result, fn: Func, kinds: List[type]) -> None:
    node = fn.posparams[0]
    for k in kinds:
        name = k.__name__
        pe = PE(prog, fn, k)
        answers = []
        for r, path in pe.returns:
            answers.append(const_of(r.value))
        if pe.fell_through:
            answers.append(None)
        can_be_false = any(a is not True for a in answers)
        where = fn.loc()
        if not pe.named:
            # R16.1: conservative default
            ok = answers == [True]
            res.decide(ok, "R16.1", fn.loc(pe.returns[-1][0]) if pe.returns else where, fn.fq, f"has_side_effect default for ast.{name}",
                       "unnamed kind -> True (effect)" if ok else f"a node kind no branch names can be answered {answers}: unknown constructs would be deleted as pointless")
            continue
        if name in ALWAYS_EFFECT:
            # R16.3
            if name in DEFINITIONS:
                # allowed: False only through the `_` name convention and never for a decorated definition
                ok = True
                why = []
                for r, path in pe.returns:
                    if const_of(r.value) is True:
                        continue
                    v = r.value
                    scenarios = (
                        ({f"{node}.name != '_'": True}, "a definition with a real name can be answered 'no effect'"),
                        ({f"{node}.name != '_'": False, f"{node}.decorator_list": True},
                         "a decorated definition named `_` is answered 'no effect': the decorator call (e.g. @register) is lost"),
                    )
                    for assume, message in scenarios:
                        feasible = True
                        for t, pol in path:
                            if pol is None:
                                continue
                            tv = _truthy_when(t, assume, default_calls=None)
                            if tv is not None and tv != pol:
                                feasible = False
                        if feasible and _truthy_when(v, assume, default_calls=False) is not True:
                            ok = False
                            why.append(message)
                res.decide(ok, "R16.3", fn.loc(pe.returns[0][0]) if pe.returns else where, fn.fq, f"has_side_effect on ast.{name}",
                           "definition is an effect unless it is named `_` and undecorated" if ok else "; ".join(dict.fromkeys(why)))
            else:
                ok = not can_be_false
                res.decide(ok, "R16.3", fn.loc(pe.returns[0][0]) if pe.returns else where, fn.fq, f"has_side_effect on ast.{name}",
                           "always an effect" if ok else f"can be answered {answers}")
        if not can_be_false:
            if name not in ALWAYS_EFFECT:
                res.ok("R16.2", where, fn.fq, f"fields of ast.{name}", "always answered True: no obligation", trivial=True)
            continue
        if name not in EVALUATED:
            res.undecided("R16.2", where, fn.fq, f"fields of ast.{name}", "kind can be answered 'no effect' but has no entry in the reference table")
            continue
        required = list(EVALUATED[name])
        if name in DEFINITIONS:
            required = [f for f in required if f != "decorator_list"]  # judged above: must force True
        missing = [f for f in required if f not in pe.fields]
        first = pe.returns[0][0] if pe.returns else fn.node
        for r, path in pe.returns:
            if const_of(r.value) is not True:
                first = r
                break
        res.decide(not missing, "R16.2", fn.loc(first), fn.fq, f"fields of ast.{name}",
                   f"consults {sorted(set(EVALUATED[name]) & pe.fields)}" if not missing else
                   f"can answer 'no effect' without looking at evaluated field(s) {missing} of ast.{name}: an effect inside is deleted with the statement")


def _is_blocking(prog: Program, res: Result, fn: Func, kinds: List[type]) -> None:
    node = fn.posparams[0]
    for k in kinds:
        name = k.__name__
        pe = PE(prog, fn, k)
        answers = [const_of(r.value) for r, _ in pe.returns] + ([None] if pe.fell_through else [])
        if not pe.named and name not in ("Raise", "Assert", "Return", "Continue", "Break"):
            ok = all(a is False for a in answers if a != "expr") and all(
                _delegates_exception_only(prog, fn, r) for r, _ in pe.returns if const_of(r.value) == "expr" or const_of(r.value) is True)
            res.decide(ok, "R16.1", fn.loc(pe.returns[-1][0]) if pe.returns else fn.loc(), fn.fq, f"is_blocking default for ast.{name}",
                       "unnamed kind -> False (not blocking)" if ok else f"a node kind no branch names can be answered {answers}: code after unknown constructs would be deleted as unreachable")
    # R16.4 loops
    pa = EvalPA(prog, fn, max_worlds=2048)
    for cls in ("While", "For"):
        hdr = "test" if cls == "While" else "iter"
        k = getattr(ast, cls)
        pe = PE(prog, fn, k)
        for r, path in pe.returns:
            v = r.value
            c = const_of(v)
            if c is False:
                continue
            # a `return True` / `return <expr>` reached for this kind
            if _delegates_exception_only(prog, fn, r):
                continue
            if isinstance(v, ast.Call) and prog.resolve_call(v.func, fn.mod, fn) and norm(v.args[0] if v.args else None) == f"{node}.{hdr}":
                # returning the evaluated header itself: must be in a try that handles the signal
                h = caught(v, fn, "ValueError")
                res.decide(h is not None, "R16.4", fn.loc(r), fn.fq, f"{cls}: {norm(r)}", "answer is the evaluated header (unknown -> handler)" if h else "header evaluated outside a handler")
                continue
            worlds = [w for w in pa.worlds_at(r) if _feasible_for(prog, fn, w, k, node)]
            goal = f"evaluated({node}#0.{hdr})"
            ok = bool(worlds) and all(entails(w.facts, Lit(goal)) for w in worlds)
            if not worlds:
                res.ok("R16.4", fn.loc(r), fn.fq, f"{cls}: {norm(r)}", "unreachable for this kind", trivial=True)
                continue
            res.decide(ok, "R16.4", fn.loc(r), fn.fq, f"{cls}: {norm(r)}",
                       f"reached only after {node}.{hdr} was evaluated successfully" if ok else
                       f"'blocking' can be answered for a {cls.lower()} loop whose header value is unknown: the loop may run zero times, yet the statements after it are deleted")
    # R16.4 (emptiness): whether a for loop runs at all is a question about ITERATING the header value, not about its truth
    # value - zip(), map(), filter(), reversed(), iter() objects are truthy when they yield nothing
    from ..defuse import bindings as _bindings
    tested = []
    for n in ast.walk(fn.node):
        if isinstance(n, (ast.If, ast.While, ast.IfExp)):
            tested.append(n.test)
        elif isinstance(n, ast.UnaryOp) and isinstance(n.op, ast.Not):
            tested.append(n.operand)
        elif isinstance(n, ast.BoolOp):
            tested.extend(n.values)
        elif isinstance(n, ast.comprehension):
            tested.extend(n.ifs)
        elif isinstance(n, ast.Call) and isinstance(n.func, ast.Name) and n.func.id == "bool" and n.args:
            tested.append(n.args[0])

    def header_value(e: ast.AST) -> bool:
        if isinstance(e, ast.Call) and e.args and norm(e.args[0]) == f"{node}.iter":
            r_ = prog.resolve_call(e.func, fn.mod, fn)
            return bool(r_ and r_[0] == "fn" and r_[1].name.lstrip("_").startswith("literal_value"))
        if isinstance(e, ast.NamedExpr):
            return header_value(e.value)
        if isinstance(e, ast.Name):
            defs = [v for (_s, v) in _bindings(fn).get(e.id, [])]
            return bool(defs) and all(v is not None and header_value(v) for v in defs)
        return False
    hits = [e for e in tested if header_value(e)]
    for e in hits:
        res.bad("R16.4", fn.loc(e), fn.fq, f"For: truth value of {norm(e)}",
                "the emptiness of a for loop's iterable is decided by its truth value: iterator objects (zip, map, filter, reversed, enumerate, iter) are truthy "
                "even when they yield nothing, so `for x in zip([], y): return` is called blocking and the code after it is deleted")
    iterated = [n for n in ast.walk(fn.node) if isinstance(n, ast.comprehension) and header_value(n.iter)] + \
               [n for n in ast.walk(fn.node) if isinstance(n, ast.Call) and isinstance(n.func, ast.Name) and n.func.id in ("list", "tuple", "iter", "next", "len", "sorted")
                and n.args and header_value(n.args[0])]
    if not hits:
        res.decide(bool(iterated), "R16.4", fn.loc(iterated[0]) if iterated else fn.loc(), fn.fq, "For: emptiness of the evaluated iterable",
                   "decided by iterating the value" if iterated else "no test of the evaluated iterable's emptiness found")
    # R16.10 a loop is only 'blocking' (never left) if no `break` of it exists at any depth
    _break_search(prog, res, fn)
    # R16.8 the loop context travels with every recursive call (break/continue block only outside a loop)
    ctx_param = fn.posparams[1] if len(fn.posparams) > 1 else None
    if ctx_param:
        for c in prog.calls_in(fn):
            r = prog.resolve_call(c.func, fn.mod, fn)
            if r and r[0] == "fn" and r[1].key == fn.key:
                from ..defuse import call_arg as _call_arg
                a = _call_arg(c, 1, ctx_param)
                ok = a is not None and (norm(a) == ctx_param or norm(a) == f"type({node})")
                res.decide(ok, "R16.8", fn.loc(c), fn.fq, short(c, 70),
                           f"passes the loop context on ({norm(a)})" if ok else
                           f"recursive call without the loop context '{ctx_param}': inside a loop, `break`/`continue` in the visited block is then treated like `return` and the code after the loop is deleted")
    # R16.5 if with unknown test
    for n in walk_own(fn.node):
        if isinstance(n, ast.If) and PE(prog, fn, ast.If).test(n.test) is True and isinstance(n.test, ast.Call):
            for t in [s for s in n.body if isinstance(s, ast.Try)]:
                for h in t.handlers:
                    for r in [x for x in walk_body(h.body) if isinstance(x, ast.Return)]:
                        v = r.value
                        ok = False
                        detail = "expected all(any(is_blocking(child) for child in branch) for branch in [body, orelse])"
                        if isinstance(v, ast.Call) and isinstance(v.func, ast.Name) and v.func.id == "all" and v.args:
                            g = v.args[0]
                            src = g.generators[0].iter if isinstance(g, (ast.GeneratorExp, ast.ListComp)) else None
                            if isinstance(src, ast.Name):
                                from ..defuse import assignments
                                defs = [d for _, d in assignments(fn, src.id) if d is not None]
                                src = defs[0] if len(defs) == 1 else src
                            fields = {x.attr for x in ast.walk(src) if isinstance(x, ast.Attribute)} if src is not None else set()
                            inner_any = isinstance(g, (ast.GeneratorExp, ast.ListComp)) and isinstance(g.elt, ast.Call) and isinstance(g.elt.func, ast.Name) and g.elt.func.id == "any"
                            ok = {"body", "orelse"} <= fields and inner_any
                            detail = "both branches must block (all over [body, orelse], any over the statements of a branch)" if ok else f"aggregates {sorted(fields)} with all(); inner any: {inner_any}"
                        res.decide(ok, "R16.5", fn.loc(r), fn.fq, f"If/unknown: {short(r, 80)}", detail)


def _feasible_for(prog: Program, fn: Func, w, kind: type, node: str) -> bool:
    """Drop worlds whose isinstance(node, T) facts contradict the node kind under consideration."""
    import re as _re
    helper = PE.__new__(PE)
    helper.prog, helper.fn, helper.kind, helper.depth, helper.node = prog, fn, kind, 0, node
    for f in w.facts:
        if f[0] != "lit":
            continue
        m = _re.fullmatch(r"isinstance#\w+\(" + _re.escape(node) + r"#0, (.*)\)", f[1])
        if not m:
            continue
        try:
            texpr = ast.parse(_re.sub(r"#\w+", "", m.group(1)), mode="eval").body
        except SyntaxError:
            continue
        classes = helper.classes(texpr)
        if classes is None:
            continue
        if any(issubclass(kind, c) for c in classes) != f[2]:
            return False
    return True


def _delegates_exception_only(prog: Program, fn: Func, r: ast.Return) -> bool:
    """`return True` guarded by `_is_exception(node)` or membership in blocking_types: the generic prologue."""
    p = parent(r)
    if isinstance(p, ast.If):
        t = norm(p.test)
        if "_is_exception(" in t or "blocking_types" in t:
            return True
        # isinstance(node, X) with X a local bound only to tuples of the jump statement classes (whatever it is called)
        c = p.test
        if isinstance(c, ast.Call) and isinstance(c.func, ast.Name) and c.func.id == "isinstance" and len(c.args) == 2 and isinstance(c.args[1], ast.Name):
            from ..defuse import bindings
            defs = [v for _s, v in bindings(fn).get(c.args[1].id, []) if v is not None]
            if defs and all(isinstance(v, ast.Tuple) and v.elts and all(norm(e) in ("ast.Return", "ast.Continue", "ast.Break", "ast.Raise") for e in v.elts) for v in defs):
                return True
    return False


class EvalPA(PathAnalysis):
    """Leaving the body of a try normally means every literal_value(X) in it returned: evaluated(X) holds."""

    def try_body_exit(self, s, w):
        for st in s.body:
            for c in ast.walk(st):
                if isinstance(c, ast.Call) and isinstance(c.func, ast.Name) and c.func.id == "literal_value" and c.args:
                    w.add(Lit(f"evaluated({self.term(c.args[0], w)})"))


# ------------------------------------------------------------------------------------------------ R16.6
def _admission_test(fn: Func, anycall: ast.Call):
    """any(has_side_effect(child, S) for child in chain(<statements>, <returned values>)), unfiltered."""
    from ..defuse import assignments
    g = anycall.args[0] if anycall.args else None
    txt = norm(g) if g is not None else ""
    covers_both = "has_side_effect(" in txt
    it = g.generators[0].iter if isinstance(g, (ast.GeneratorExp, ast.ListComp)) else None
    srcs = set()
    if it is not None:
        for x in ast.walk(it):
            if isinstance(x, ast.Name):
                srcs.add(x.id)
    ret_def_ok = False
    for s_ in srcs:
        for _, d in assignments(fn, s_):
            if d is not None and "ast.Return" in norm(d):
                ret_def_ok = True
    ok = covers_both and len(srcs) >= 2 and ret_def_ok and it is not None and not g.generators[0].ifs
    detail = (f"admitted only if no statement before the first blocking one and no returned value has an effect ({sorted(srcs)})" if ok else
              f"the admission test ranges over {sorted(srcs)}: statements and returned expressions must both be covered, unfiltered")
    return ok, detail


def _safe_callables(prog: Program, res: Result) -> None:
    node = prog.module("constants").globals.get("SAFE_CALLABLES")
    where = f"pyrefact/constants.py:{node.lineno if node is not None else 0}"
    try:
        safe = {x for x in prog.const("constants", "SAFE_CALLABLES") if isinstance(x, str)}
        bad = sorted(safe & IMPURE)
        res.decide(not bad, "R16.6", where, "constants.SAFE_CALLABLES", "initial safe-callable set",
                   f"{len(safe)} names, none impure or stateful" if not bad else
                   f"declares builtins with effects / iterator state / process-dependent results safe to drop: {bad} (e.g. the statement `next(it)` is deleted as pointless)")
    except Unresolvable as error:
        res.undecided("R16.6", where, "constants.SAFE_CALLABLES", "initial safe-callable set", f"not resolvable: {error}")
    fn = prog.func("parsing", "safe_callable_names")
    # the test that admits a function: not any(has_side_effect(child, S) for child in chain(nonreturn, returns))
    adds = [n for n in walk_own(fn.node) if isinstance(n, ast.Call) and isinstance(n.func, ast.Attribute) and n.func.attr == "add"
            and n.args and norm(n.args[0]).endswith(".name")]
    pa = PathAnalysis(prog, fn)
    for a in adds:
        host = parent(a)
        while host is not None and not isinstance(host, ast.If):
            host = parent(host)
        ok = False
        detail = "admission is not guarded by `not any(has_side_effect(child, safe) for child in <statements and returned values>)`"
        if isinstance(host, ast.If):
            t = host.test
            helper = None
            tcall = t.operand if isinstance(t, ast.UnaryOp) and isinstance(t.op, ast.Not) else t
            if isinstance(tcall, ast.Call) and norm(tcall.func) != "any":
                r_ = prog.resolve_call(tcall.func, fn.mod, fn)
                if r_ and r_[0] == "fn" and r_[1].mod is fn.mod:
                    helper = r_[1]
            if isinstance(t, ast.UnaryOp) and isinstance(t.op, ast.Not) and isinstance(t.operand, ast.Call) and norm(t.operand.func) == "any":
                ok, detail = _admission_test(fn, t.operand)
            elif helper is not None and tcall is t:
                # the admission test lives in a helper: every path on which it answers yes must carry the same test
                hpa = PathAnalysis(prog, helper)
                anys = [c for c in ast.walk(helper.node) if isinstance(c, ast.Call) and norm(c.func) == "any" and "has_side_effect(" in norm(c)]
                rets = [r for r in walk_own(helper.node) if isinstance(r, ast.Return)
                        and not (isinstance(r.value, ast.Constant) and r.value.value in (False, None))]
                ok = bool(rets) and bool(anys)
                detail = f"{helper.name}() answers yes only if no statement before the first blocking one and no returned value has an effect"
                for r in rets:
                    if isinstance(r.value, ast.UnaryOp) and isinstance(r.value.op, ast.Not) and any(r.value.operand is c for c in anys):
                        sub_ok, sub_detail = _admission_test(helper, r.value.operand)
                    else:
                        held = [c for c in anys if hpa.holds_at(r, lambda w, c=c: hpa.formula(c, w, False))[0]]
                        sub_ok, sub_detail = (_admission_test(helper, held[0]) if held else
                                              (False, f"{helper.name}() answers `{norm(r)}` at line {r.lineno} on a path that never tested the statements and returned values for effects"))
                    if not sub_ok:
                        ok, detail = False, sub_detail
                        break
            else:
                # admission of a class: all constructors known safe AND the base classes considered
                loop = parent(host)
                while loop is not None and not isinstance(loop, ast.For):
                    loop = parent(loop)
                if isinstance(loop, ast.For) and "ClassDef" in norm(loop.iter):
                    # all conditions between the admission and the loop (written as one conjunction or as nested ifs)
                    conds = []
                    a_ = host
                    while a_ is not None and a_ is not loop:
                        if isinstance(a_, ast.If):
                            conds.append(a_.test)
                        a_ = parent(a_)
                    txt = " and ".join(norm(c_) for c_ in conds)
                    names_in_test = {x.id for c_ in conds for x in ast.walk(c_) if isinstance(x, ast.Name)}
                    from ..defuse import assignments
                    # the constructors of the class: a local of the test whose definition selects __init__ / __new__
                    ctor = "__init__" in txt or any(d is not None and "__init__" in norm(d) for nm in names_in_test for _, d in assignments(fn, nm))
                    base_aware = ".bases" in txt or any(
                        d is not None and ".bases" in norm(d) for nm in names_in_test for _, d in assignments(fn, nm))
                    ok = ctor and base_aware
                    detail = ("class admitted only if its own constructors and its base classes are known safe" if ok else
                              "a class is admitted by looking at the constructors in its own body only: with `class C(Base): pass` the call `C()` is declared effect-free although Base.__init__ may have effects")
        res.decide(ok, "R16.6", fn.loc(a), fn.fq, norm(a) + (" [class]" if "class" in detail else ""), detail)
    _scan_stop(prog, res, fn)
    _shadowed_builtins(prog, res, fn)
    # starts from the literal set (not from a larger one)
    init = [v for n in walk_own(fn.node) if isinstance(n, ast.Assign) for v in [n.value]
            if isinstance(n.targets[0], ast.Name) and "SAFE_CALLABLES" in norm(v)]
    res.decide(bool(init), "R16.6", fn.loc(), fn.fq, "initial value of the inferred set",
               f"starts from {norm(init[0])}" if init else "does not start from constants.SAFE_CALLABLES")


# ------------------------------------------------------------------------------------------------ R16.17
def _r16_17(prog: Program, res: Result) -> None:
    """A statement that `cannot alter control flow` may still RAISE: the name lookup in `try: unicode / except NameError:`,
    the subscript in `try: mapping[key] / except KeyError:` are there to raise - inside a try, the exception is the
    control flow.  The side-effect analysis knows nothing of exceptions, so the deletion of pointless statements has to
    leave the statements of a try body alone: every deletion is reached only when the container whose body is scanned
    was tested not to be an ast.Try."""
    from ..pathcond import PathAnalysis, plain
    fn = prog.funcs.get(("fixes", "delete_pointless_statements"))
    if fn is None:
        raise AnalysisError("anchor fixes.delete_pointless_statements not found")
    pa = PathAnalysis(prog, fn)
    n = 0
    for y in walk_own(fn.node):
        if not (isinstance(y, ast.Yield) and isinstance(y.value, ast.Tuple) and len(y.value.elts) >= 2 and isinstance(y.value.elts[1], ast.Constant)
                and y.value.elts[1].value is None):
            continue
        # the container: X in `for .. in enumerate(X.body)` / `for .. in X.body` around the yield
        cont = None
        a = parent(y)
        while a is not None and a is not fn.node:
            if isinstance(a, ast.For):
                for x in ast.walk(a.iter):
                    if isinstance(x, ast.Attribute) and x.attr == "body" and isinstance(x.value, ast.Name):
                        cont = cont or x.value.id
            a = parent(a)
        if cont is None:
            continue
        n += 1
        worlds = pa.worlds_at(y)
        ok = bool(worlds) and all(any(f[0] == "lit" and not f[2] and plain(f[1]).startswith(f"isinstance({cont},") and "ast.Try" in plain(f[1]) for f in w.facts)
                                  for w in worlds)
        res.decide(ok, "R16.17", fn.loc(y), fn.fq, f"{short(y, 50)} # deletion of a pointless statement",
                   f"never a statement of a try body (`{cont}` is tested not to be an ast.Try)" if ok else
                   f"statements of a try body are deleted like any other: `try: unicode / except NameError: ..` loses the lookup that is there to raise, the handler "
                   "can never run")
    if n == 0:
        res.undecided("R16.17", fn.loc(), fn.fq, "deletion of pointless statements", "no deletion site found")



# ------------------------------------------------------------------------------------------------ R16.18
HIGHER_ORDER_REF = {      # builtins / stdlib functions that CALL an argument, and where that argument sits (reference: library documentation)
    "map": "first", "filter": "first", "reduce": "first", "filterfalse": "first", "starmap": "first", "takewhile": "first", "dropwhile": "first",
    "sorted": "key", "max": "key", "min": "key",
}


def _r16_18(prog: Program, res: Result) -> None:
    """`calls nothing user-defined or unknown`: map(f, xs), filter(f, xs), sorted(xs, key=f), max(xs, key=f) are calls of f.
    The whitelist of safe callables contains these higher-order functions, and a function NAME passed as an argument is a
    plain load.  For every member of the reference table that the whitelist contains, the call branch of the side-effect
    analysis consults a helper that hands back the function-valued argument of that callee (first positional argument /
    the `key` keyword), and answers `has a side effect` from the verdict on it before the generic answer."""
    from ..model import ConstEval
    try:
        safe = set(prog.const("constants", "SAFE_CALLABLES"))
    except Unresolvable as error:
        res.undecided("R16.18", "pyrefact/constants.py:0", "constants.SAFE_CALLABLES", "whitelist", str(error))
        return
    hs = prog.funcs.get(("core", "has_side_effect"))
    if hs is None:
        raise AnalysisError("anchor core.has_side_effect not found")
    # helpers called from has_side_effect that classify a callee by its NAME against tuples of strings
    slots: Dict[str, str] = {}
    consulted = None
    for c in prog.calls_in(hs):
        r = prog.resolve_call(c.func, hs.mod, hs)
        if not (r and r[0] == "fn") or r[1].key == hs.key:
            continue
        g = r[1]
        local_tuples: Dict[str, List[str]] = {}
        for st in g.node.body:
            if isinstance(st, (ast.Assign, ast.AugAssign)) and isinstance(st.value, ast.Tuple) and all(isinstance(e, ast.Constant) and isinstance(e.value, str) for e in st.value.elts):
                tgt = st.targets[0] if isinstance(st, ast.Assign) else st.target
                if isinstance(tgt, ast.Name):
                    local_tuples.setdefault(tgt.id, []).extend(e.value for e in st.value.elts)
        for i in walk_own(g.node):
            if not (isinstance(i, ast.If) and i.body and isinstance(i.body[-1], ast.Return) and i.body[-1].value is not None):
                continue
            names: List[str] = []
            for cmp_ in ast.walk(i.test):
                if isinstance(cmp_, ast.Compare) and isinstance(cmp_.ops[0], ast.In):
                    coll = cmp_.comparators[0]
                    if isinstance(coll, ast.Tuple):
                        names += [e.value for e in coll.elts if isinstance(e, ast.Constant) and isinstance(e.value, str)]
                    elif isinstance(coll, ast.Name):
                        names += local_tuples.get(coll.id, [])
            ret = norm(i.body[-1].value)
            slot = "first" if (".args[:1]" in ret or ".args[0]" in ret) else ("key" if (".keywords" in ret and "'key'" in ret.replace('"', "'")) else None)
            if names and slot:
                consulted = g
                for nm in names:
                    slots[nm] = slot
    # the verdict on those arguments leads to `return True` before the generic answer
    decisive = False
    if consulted is not None:
        for i in walk_own(hs.node):
            if isinstance(i, ast.If) and consulted.node.name in norm(i.test) and i.body and isinstance(i.body[-1], ast.Return) \
                    and isinstance(i.body[-1].value, ast.Constant) and i.body[-1].value.value is True:
                decisive = True
    for name, slot in sorted(HIGHER_ORDER_REF.items()):
        if name not in safe:
            res.ok("R16.18", hs.loc(), hs.fq, f"{name}(..) # calls its {slot} argument", "not in the whitelist of safe callables", trivial=True)
            continue
        ok = decisive and slots.get(name) == slot
        res.decide(ok, "R16.18", hs.loc(), hs.fq, f"{name}(..) # calls its {slot} argument",
                   f"the function-valued argument is judged first ({consulted.node.name})" if ok else
                   f"`{name}` is a safe callable and a function name passed to it is a plain load: `list(map(log, xs))` / `sorted(xs, key=log)` run the user's `log` "
                   "and are deleted as pointless")



# ------------------------------------------------------------------------------------------------ R16.19
# ------------------------------------------------------------------------------------------------ R16.24
def _r16_24(prog: Program, res: Result) -> None:
    """An `elif` IS an `if` in the syntax tree (the only statement of the else branch above), but its text stands at the level of that
    `if`.  A rule that replaces an If node with a decided test by the text of its live branch, at the node's own column, turns
    `if c: a / elif True: b` into `if c: a` followed by `b`: b now runs also when c held - code that was unreachable on that path is
    reached (and a `continue` / `return` among it makes what follows unreachable).  Obligation: every rewrite that puts the statements of
    a branch in the place of their If (a Range rewrite built from the node's span and the text of `node.body` / `node.orelse`) is
    reached only under a test that the node is not written as `elif`."""
    from ..pathcond import PathAnalysis, plain
    from ..defuse import bindings
    n = 0
    for fn in prog.funcs.values():
        if not fn.is_fix:
            continue
        ys = [y for y in walk_own(fn.node) if isinstance(y, ast.Yield) and isinstance(y.value, ast.Tuple) and len(y.value.elts) >= 2
              and isinstance(y.value.elts[0], ast.Call) and norm(y.value.elts[0].func).endswith("Range")]
        if not ys:
            continue
        # the branch whose statements are hoisted: a local bound to <node>.body and to <node>.orelse in the same function
        hoisted = [nm for nm, defs in bindings(fn).items() if {v.attr for _s, v in defs if isinstance(v, ast.Attribute)} >= {"body", "orelse"}
                   and len({norm(v.value) for _s, v in defs if isinstance(v, ast.Attribute)}) == 1]
        if not hoisted:
            continue
        subj = [norm(v.value) for _s, v in bindings(fn)[hoisted[0]] if isinstance(v, ast.Attribute)][0]
        pa = PathAnalysis(prog, fn)
        for y in ys:
            n += 1
            worlds = pa.worlds_at(y)
            ok = bool(worlds) and all(any(f[0] == "lit" and not f[2] and "elif" in plain(f[1]) for f in w.facts) for w in worlds)
            res.decide(ok, "R16.24", fn.loc(y), fn.fq, f"{short(y, 70)} # a branch put in the place of its if statement",
                       f"only for an `if` that is not written as `elif` ({subj})" if ok else
                       f"the statements of the live branch of {subj} replace the node at its own column also when the node is an `elif`: they leave the else branch of the "
                       "`if` above and run on every path - `if c: a / elif True: continue` becomes `if c: a` followed by an unconditional `continue`")
    if n == 0:
        res.undecided("R16.24", "pyrefact/fixes.py:0", "fixes", "branches put in the place of their if statement", "none found (remove_dead_ifs is expected)")


# ------------------------------------------------------------------------------------------------ R16.23
def _r16_23(prog: Program, res: Result) -> None:
    """Binding a name is an effect - with ONE documented exception: the name `_`.  The consumers (and safe mode: C07 R7.2 / R7.6 ask for
    `'_' in preserve` and nothing else) rely on the exception being exactly that name.  Obligation: wherever has_side_effect looks at the
    identifier of a stored name, it compares it with the constant "_" by == / != and in no other way (no strip / startswith / regular
    expression / membership in a set of throw-away names)."""
    fn = prog.func("core", "has_side_effect")
    n = 0
    for e in walk_own(fn.node):
        if not (isinstance(e, ast.Attribute) and e.attr == "id" and isinstance(e.ctx, ast.Load)):
            continue
        p_ = parent(e)
        # uses of `<x>.id` as the callee name test of calls (`child.id in whitelist`) are about CALLS, not about stores
        if isinstance(p_, ast.Compare) and any(isinstance(op, (ast.In, ast.NotIn)) for op in p_.ops) and p_.left is e and not isinstance(p_.comparators[0], (ast.Set, ast.Tuple, ast.List)):
            continue
        n += 1
        ok = isinstance(p_, ast.Compare) and len(p_.ops) == 1 and isinstance(p_.ops[0], (ast.Eq, ast.NotEq)) and any(
            isinstance(o, ast.Constant) and o.value == "_" for o in [p_.left] + p_.comparators)
        res.decide(ok, "R16.23", fn.loc(p_ if p_ is not None else e), fn.fq, f"{short(p_ if p_ is not None else e, 60)} # which stored names are no effect",
                   "exactly the name `_`" if ok else
                   "the identifier is tested in another way than `== \"_\"`: more names than `_` count as throw-away (`__`, `___`, ..), an assignment to one of them is deleted as "
                   "pointless although no rule and no option (safe mode asks for '_' only) knows that exception")
    if n == 0:
        res.undecided("R16.23", fn.loc(), fn.fq, "which stored names are no effect", "no test of an identifier found")


# ------------------------------------------------------------------------------------------------ R16.22
def _r16_22(prog: Program, res: Result) -> None:
    """The whitelist of safe callables is the CALLER's knowledge about the module.  has_side_effect widens it locally for one purpose
    (`"".join(..)`: the method of a constant receiver is safe) - that wider set describes the callee of this one call, not what its
    arguments call: in `"".join(join(parts))` the inner `join` is a function of the module.  Obligation: every recursive call
    of the analyser that passes the whitelist on passes the parameter as it was received (its first version), never a re-bound,
    wider one (versions of the path-condition engine)."""
    from ..pathcond import PathAnalysis
    fn = prog.func("core", "has_side_effect")
    wl = fn.posparams[1] if len(fn.posparams) > 1 else None
    if wl is None:
        raise AnalysisError("has_side_effect: whitelist parameter not found")
    rebound = any(isinstance(x, ast.Name) and x.id == wl and isinstance(x.ctx, ast.Store) for x in walk_own(fn.node))
    rec = [c for c in prog.calls_in(fn) if (lambda r: r and r[0] == "fn" and r[1].key == fn.key)(prog.resolve_call(c.func, fn.mod, fn))]
    pa = PathAnalysis(prog, fn, max_worlds=64) if rebound else None
    bad = None
    n = 0
    for c in rec:
        a = c.args[1] if len(c.args) > 1 else next((k.value for k in c.keywords if k.arg == wl), None)
        if isinstance(a, ast.Name) and a.id != wl:
            from ..defuse import bindings as _bindings
            widened = any(v is not None and wl in {x.id for x in ast.walk(v) if isinstance(x, ast.Name)} and (
                (isinstance(v, ast.BinOp) and isinstance(v.op, ast.BitOr)) or ".union(" in norm(v)) for _s, v in _bindings(fn).get(a.id, []))
            if widened:
                n += 1
                bad = bad or c
            continue
        if not (isinstance(a, ast.Name) and a.id == wl):
            continue
        n += 1
        toks = {w.token(wl) for w in pa.worlds_at(c)} if pa is not None else set()
        if toks - {f"{wl}#0"}:
            bad = bad or c
    res.decide(bad is None, "R16.22", fn.loc(bad) if bad is not None else fn.loc(), fn.fq,
               f"{short(bad, 70) if bad is not None else wl} # the whitelist handed to recursive calls",
               f"all {n} recursive calls that pass it on pass the caller's whitelist" if bad is None else
               f"`{wl}` was re-bound to a wider set before this recursive call: what was added for the callee of ONE call (the method name of a constant receiver, "
               "`\"\".join`) also whitewashes what the arguments call - `\"\".join(join(parts))` with a user-defined `join` is deleted as pointless")


# ------------------------------------------------------------------------------------------------ R16.21
def _r16_21(prog: Program, res: Result) -> None:
    """has_side_effect calls itself for sub-expressions; several of those calls do not hand the whitelist of safe callables on
    (receivers of attributes, assigned values, formatted values) and so judge the sub-expression with the DEFAULT whitelist.
    That is conservative only while the default is empty: a non-empty default (the table of builtin names) is a whitelist that
    was never reduced by the names the analysed module redefines (R16.13), so `f"{format(x)}"` with a user-defined `format`
    counts as effect-free.  Obligation: every optional parameter of the analyser that a recursive call can leave out and that
    names a collection of callables has an empty default."""
    fn = prog.func("core", "has_side_effect")
    args = fn.node.args
    pos = args.posonlyargs + args.args
    defaults = dict(zip([a.arg for a in pos[len(pos) - len(args.defaults):]], args.defaults))
    defaults.update({a.arg: d for a, d in zip(args.kwonlyargs, args.kw_defaults) if d is not None})
    rec = [c for c in prog.calls_in(fn) if (lambda r: r and r[0] == "fn" and r[1].key == fn.key)(prog.resolve_call(c.func, fn.mod, fn))]
    n = 0
    for p_name, d in defaults.items():
        idx = fn.posparams.index(p_name) if p_name in fn.posparams else None
        omitted = [c for c in rec if not any(k.arg == p_name for k in c.keywords) and not (idx is not None and len(c.args) > idx)]
        if not omitted:
            continue
        n += 1
        empty = (isinstance(d, ast.Constant) and d.value is None) or (isinstance(d, (ast.Tuple, ast.List, ast.Set, ast.Dict)) and not getattr(d, "elts", getattr(d, "keys", []))) \
            or (isinstance(d, ast.Call) and isinstance(d.func, ast.Name) and d.func.id in ("frozenset", "set", "tuple", "list", "dict") and not d.args)
        res.decide(empty, "R16.21", fn.loc(d), fn.fq, f"{p_name}={norm(d)} # default used by {len(omitted)} recursive call(s) that do not pass it on",
                   "the default is empty: what is judged without the caller's whitelist is judged conservatively" if empty else
                   f"{len(omitted)} recursive calls judge sub-expressions with this non-empty default instead of the whitelist the caller reduced by the names the module "
                   "redefines: a user-defined `format` / `sorted` / `len` called inside an f-string, an assigned value or an attribute receiver counts as effect-free")
    if n == 0:
        res.ok("R16.21", fn.loc(), fn.fq, "defaults of has_side_effect", "every recursive call passes every optional parameter on", trivial=False)


# ------------------------------------------------------------------------------------------------ R16.20
def _r16_20(prog: Program, res: Result) -> None:
    """`with cm: raise E` / `with cm: assert False` leave the with statement through cm.__exit__, which may swallow the
    exception (contextlib.suppress, pytest.raises, unittest's assertRaises): what follows the with statement is reachable.
    Obligation for the With kind of is_blocking: its answer does not count a child that "blocks" by raising - the branch
    answers False, or excludes raise / assert (a flag handed to the recursive call that switches the exception test off, or
    a search of the body for ast.Raise / ast.Assert in the branch)."""
    fn = prog.func("core", "is_blocking")
    node_p = fn.posparams[0] if fn.posparams else "node"
    branches = [n for n in walk_own(fn.node) if isinstance(n, ast.If) and "ast.With" in norm(n.test) and "isinstance(" in norm(n.test)
                and not any(k in norm(n.test) for k in ("ast.For", "ast.While", "ast.If,", "ast.Try"))]
    if not branches:
        res.ok("R16.20", fn.loc(), fn.fq, "with statements in is_blocking", "no branch for ast.With: the default answer (not blocking) applies", trivial=False)
        return
    # the exception test of the analyser: `if <is_exception>(node): return True` reached for every kind
    exc_tests = []
    for n in walk_own(fn.node):
        if isinstance(n, ast.If) and any(isinstance(r, ast.Return) and isinstance(r.value, ast.Constant) and r.value.value is True for r in n.body):
            calls = [c for c in ast.walk(n.test) if isinstance(c, ast.Call)]
            raising = any((lambda r: r and r[0] == "fn" and ("ast.Raise" in norm(r[1].node)))(prog.resolve_call(c.func, fn.mod, fn)) for c in calls) or "ast.Raise" in norm(n.test)
            if raising:
                exc_tests.append(n)
    for b in branches:
        rets = [r for r in walk_body(b.body) if isinstance(r, ast.Return)]
        if rets and all(isinstance(r.value, ast.Constant) and not r.value.value for r in rets):
            res.ok("R16.20", fn.loc(b), fn.fq, "with statements in is_blocking", "a with statement never blocks")
            continue
        text = " ".join(norm(x) for x in b.body)
        excludes = ("ast.Raise" in text and "ast.Assert" in text)
        flagged = False
        for t in exc_tests:
            # `if flag and is_exception(node)`: the test is switched off by a parameter, and the With branch passes it falsy
            params = {x.id for x in ast.walk(t.test) if isinstance(x, ast.Name) and x.id in fn.all_params and x.id != node_p}
            for c in [c for x in b.body for c in ast.walk(x) if isinstance(c, ast.Call)]:
                r = prog.resolve_call(c.func, fn.mod, fn)
                if r and r[0] == "fn" and r[1].key == fn.key and any(k.arg in params and isinstance(k.value, ast.Constant) and not k.value.value for k in c.keywords):
                    flagged = True
        ok = excludes or flagged or not exc_tests
        res.decide(ok, "R16.20", fn.loc(b), fn.fq, f"{short(b.body[-1], 70)} # when a with statement blocks",
                   "children that block by raising are not counted" if ok else
                   "a child that `blocks` by raising (raise, assert False) makes the whole with statement blocking, but the context manager may swallow the exception "
                   "(contextlib.suppress, pytest.raises): the code after the with statement is reachable and is deleted as unreachable")


def _r16_19(prog: Program, res: Result) -> None:
    """The whitelist is a set of NAMES.  A name with two definitions (one per branch of an `if sys.platform ..`, a method and a
    function, a nested and a module-level def) is whichever of them the call reaches; one pure definition says nothing about
    the other.  Every admission of a definition's name is reached only under a test of a census of the definitions of the
    module (a Counter over the names of all def / class statements) that found exactly one."""
    from ..defuse import bindings
    from ..pathcond import PathAnalysis, plain
    fn = prog.funcs.get(("parsing", "safe_callable_names"))
    if fn is None:
        raise AnalysisError("anchor parsing.safe_callable_names not found")
    counters = set()
    for nm, defs in bindings(fn).items():
        for _s, v in defs:
            if v is not None and "Counter(" in norm(v) and ".name" in norm(v) and "ast.FunctionDef" in norm(v) and "ast.ClassDef" in norm(v) and "walk(" in norm(v):
                counters.add(nm)
    sites = [c for c in prog.calls_in(fn) if isinstance(c.func, ast.Attribute) and c.func.attr == "add" and c.args and isinstance(c.args[0], ast.Attribute)
             and c.args[0].attr == "name"]
    if not sites:
        res.undecided("R16.19", fn.loc(), fn.fq, "admission of a definition's name", "site `<whitelist>.add(<def>.name)` not found")
        return
    # the census counts imports too: `try: from lib import notify / except ImportError: def notify(..): pass` binds the name twice
    for k in sorted(counters):
        upd = [c for c in prog.calls_in(fn) if isinstance(c.func, ast.Attribute) and c.func.attr == "update" and isinstance(c.func.value, ast.Name) and c.func.value.id == k]
        texts = " ".join(norm(c) for c in upd) + " " + " ".join(norm(v) for _s, v in bindings(fn).get(k, []) if v is not None)
        with_imports = "ast.alias" in texts and ".asname" in texts
        res.decide(with_imports, "R16.19", fn.loc(), fn.fq, f"{k} # census of the definitions of a name",
                   "counts def, class and import bindings" if with_imports else
                   "counts def and class statements only: a name that an import binds as well (optional-dependency fallback `except ImportError: def notify(..): pass`) has "
                   "`one definition`, the harmless fallback is judged, and every call of the real, imported function is deleted as pointless")
    pa = PathAnalysis(prog, fn)
    for c in sites:
        subject = norm(c.args[0])
        worlds = pa.worlds_at(c)
        def single(f) -> bool:
            if f[0] != "lit":
                return False
            t = plain(f[1]).replace(" ", "")
            for k in counters:
                if t in (f"lt(1,{k}[{subject}])", f"gt({k}[{subject}],1)") and not f[2]:
                    return True
                if t in (f"eq(1,{k}[{subject}])", f"eq({k}[{subject}],1)", f"le({k}[{subject}],1)", f"ge(1,{k}[{subject}])") and f[2]:
                    return True
                if t in (f"ne(1,{k}[{subject}])", f"ne({k}[{subject}],1)") and not f[2]:
                    return True
            return False
        ok = bool(counters) and bool(worlds) and all(any(single(f) for f in w.facts) for w in worlds)
        # a decorated definition is bound to whatever the decorator returns: not admitted, def or class (R16.15 for functions)
        undecorated = bool(worlds) and all(any(f[0] == "lit" and not f[2] and plain(f[1]).endswith(".decorator_list") for f in w.facts) for w in worlds)
        res.decide(undecorated, "R16.19", fn.loc(c), fn.fq, f"{short(c, 50)} # a decorated definition's name is not admitted",
                   "reached only for a definition without decorators" if undecorated else
                   "the name of a DECORATED definition becomes a safe callable: it is bound to what the decorator returns (a registering decorator, a class decorator that "
                   "instantiates), calling it is not calling the body that was judged")
        res.decide(ok, "R16.19", fn.loc(c), fn.fq, f"{short(c, 50)} # a definition's name becomes a safe callable",
                   f"only for a name with exactly one definition in the module (census {sorted(counters)})" if ok else
                   "the name of a pure definition becomes a safe callable although the module may define the name again (other branch of an if, nested def, method): "
                   "the call that reaches the other, effectful definition is deleted as pointless")



def _r16_16(prog: Program, res: Result) -> None:
    """Whose break is it?  A loop that is certainly entered is 'blocking' (nothing after it runs) only if nothing inside can leave
    it normally.  A `break` of THIS loop can stand at any depth of if / try / with / match - and in the ELSE clause of an inner
    loop, which is not part of that loop's own break scope; the breaks in an inner loop's body are its own.  In a `for` loop a
    `continue` of this loop skips the returning statement behind it, so the loop can run to its end.  Obligations on
    is_blocking: (a) every answer True for the kinds For / While is reached only under the negative outcome of ONE search over
    the loop's body made by a recursive repository helper; (b) that helper descends into body / orelse / finalbody / handlers,
    takes only the `orelse` of an inner loop, and does not enter function or class definitions; (c) for a `for` loop the
    searched kinds include ast.Continue."""
    from ..pathcond import plain, entails
    fn = prog.func("core", "is_blocking")
    node = fn.posparams[0]
    searches = []
    for c in prog.calls_in(fn):
        r = prog.resolve_call(c.func, fn.mod, fn)
        if r and r[0] == "fn" and r[1].key != fn.key and c.args and norm(c.args[0]) == f"{node}.body":
            h = r[1]
            if any((prog.resolve_call(x.func, h.mod, h) or (None, None))[1] is h for x in prog.calls_in(h)):      # recursive
                searches.append((c, h))
    if not searches:
        res.bad("R16.16", fn.loc(), fn.fq, "search for the break / continue statements of a loop",
                "is_blocking has no ownership-aware search over the body of a loop: breaks in the else clause of an inner loop, `continue` inside try in a for loop, "
                "or a dead return behind a break are misjudged and the code after the loop is deleted")
        return
    call, helper = searches[0]
    txt = norm(helper.node)
    descends = all(f in txt for f in ("'body'", "'orelse'", "'finalbody'")) and "handlers" in txt or all(f".{f}" in txt for f in ("body", "orelse", "finalbody", "handlers"))
    inner_loops = None
    for i in walk_own(helper.node):
        if isinstance(i, ast.If) and "isinstance(" in norm(i.test) and "ast.For" in norm(i.test) and "ast.While" in norm(i.test):
            body_txt = " ".join(norm(x) for x in i.body)
            inner_loops = ".orelse" in body_txt and ".body" not in body_txt
    skips_defs = any(isinstance(i, ast.If) and "FunctionDef" in norm(i.test) and i.body and isinstance(i.body[-1], ast.Continue) for i in walk_own(helper.node))
    ok_b = bool(descends and inner_loops and skips_defs)
    res.decide(ok_b, "R16.16", helper.loc(), helper.fq, f"{helper.name} # which statements can hold a jump of this loop",
               "descends into every block kind, takes only the else clause of an inner loop, skips definitions" if ok_b else
               f"the search (descends: {bool(descends)}, inner loops by their else clause only: {inner_loops}, definitions skipped: {skips_defs}) misattributes break / continue statements")
    # (c) the kinds searched for a for loop include Continue
    kinds = call.args[1] if len(call.args) > 1 else None
    ktxt = norm(kinds) if kinds is not None else ""
    if isinstance(kinds, ast.Name):
        from ..defuse import bindings
        ktxt += " " + " ".join(norm(v) for _s, v in bindings(fn).get(kinds.id, []) if v is not None)
    ok_c = "ast.Break" in ktxt and "ast.Continue" in ktxt and "ast.For" in ktxt
    res.decide(ok_c, "R16.16", fn.loc(call), fn.fq, f"{short(call, 50)} # kinds searched",
               "break for every loop, continue as well for a for loop" if ok_c else
               "a `continue` of a for loop is not searched for: `for x in [1, 2]: try: continue finally: pass; return` is called blocking")
    # (a) dominance
    pa = PathAnalysis(prog, fn, max_worlds=2048)
    n = 0
    for r in walk_own(fn.node):
        if not isinstance(r, ast.Return) or r.value is None or (isinstance(r.value, ast.Constant) and r.value.value is False):
            continue
        if _delegates_exception_only(prog, fn, r):
            continue         # the generic prologue (exceptions, return / break / continue themselves)
        worlds = [w for w in pa.worlds_at(r) if _feasible_for(prog, fn, w, ast.For, node) or _feasible_for(prog, fn, w, ast.While, node)]
        if not worlds:
            continue
        n += 1
        ok = all(entails(w.facts, pa.formula(call, w, False)) for w in worlds)
        res.decide(ok, "R16.16", fn.loc(r), fn.fq, f"loop: {short(r, 50)}",
                   "answered only after the search found no jump of this loop" if ok else
                   "a loop can be answered 'blocking' on a path that never asked whether a break / continue of this loop exists")
    if n == 0:
        res.undecided("R16.16", fn.loc(), fn.fq, "answers for loops", "no return for the loop kinds found")


def _r16_15(prog: Program, res: Result) -> None:
    """Who is called?  (a) has_side_effect judges a call by the NAMES in its callee expression.  That is only meaningful when
    the callee is named: in `Runner()()` or `get_printer()("x")` the names are those of the factory, what runs is its result.
    Every answer for the Call kind that can be 'no effect' must be reached only when the callee expression contains no call.
    (b) safe_callable_names admits a function by looking at its body; a DECORATED function's name is bound to whatever the
    decorator returned: admission only under `not node.decorator_list`."""
    from ..pathcond import plain
    fn = prog.func("core", "has_side_effect")
    node = fn.posparams[0]
    pa = PathAnalysis(prog, fn, max_worlds=2048)
    n = 0
    for r in walk_own(fn.node):
        if not isinstance(r, ast.Return) or r.value is None or (isinstance(r.value, ast.Constant) and r.value.value is True):
            continue
        worlds = [w for w in pa.worlds_at(r) if any(f[0] == "lit" and f[2] and plain(f[1]).replace(" ", "") == f"isinstance({node},ast.Call)" for f in w.facts)]
        if not worlds:
            continue
        n += 1

        def callee_named(w) -> bool:
            for f in w.facts:
                if f[0] != "lit":
                    continue
                t = plain(f[1]).replace(" ", "")
                if not f[2] and t.startswith("any(") and "ast.Call" in t and f"{node}.func" in t:
                    return True         # not any(isinstance(child, ast.Call) for child in ast.walk(node.func))
                if f[2] and t.startswith("isinstance(") and t.startswith(f"isinstance({node}.func,") and "ast.Call" not in t:
                    return True         # isinstance(node.func, (ast.Name, ast.Attribute))
            return False
        ok = all(callee_named(w) for w in worlds)
        res.decide(ok, "R16.15", fn.loc(r), fn.fq, f"Call: {short(r, 60)}",
                   "answered from the names of the callee only when the callee contains no call" if ok else
                   "a call is judged by the names in its callee expression also when the callee is itself the RESULT of a call: `Runner()()` and `get_printer()('x')` "
                   "are 'effect-free' because Runner / get_printer are, and the statement is deleted")
    if n == 0:
        res.undecided("R16.15", fn.loc(), fn.fq, "Call: callee form", "no answer for the Call kind found")
    # (b) decorated functions
    fn2 = prog.func("parsing", "safe_callable_names")
    pa2 = PathAnalysis(prog, fn2)
    m = 0
    for a in walk_own(fn2.node):
        if isinstance(a, ast.Call) and isinstance(a.func, ast.Attribute) and a.func.attr == "add" and a.args and isinstance(a.args[0], ast.Attribute) and a.args[0].attr == "name" \
                and isinstance(a.args[0].value, ast.Name):
            v = a.args[0].value.id
            # only the admission of FUNCTIONS (the loop over the function definitions)
            lp = parent(a)
            while lp is not None and not isinstance(lp, ast.For):
                lp = parent(lp)
            if lp is None or "ClassDef" in norm(lp.iter) and "FunctionDef" not in norm(lp.iter):
                continue
            from ..defuse import bindings as _b
            src = " ".join(norm(x) for _s, x in _b(fn2).get(norm(lp.iter), []) if x is not None) + norm(lp.iter)
            if "FunctionDef" not in src:
                continue
            m += 1
            test = ast.parse(f"{v}.decorator_list", mode="eval").body
            ok, _w = pa2.holds_at(a, lambda w: pa2.formula(test, w, False))
            res.decide(ok, "R16.15", fn2.loc(a), fn2.fq, f"{short(a, 50)} # admission of a function",
                       "only undecorated functions are admitted" if ok else
                       "a decorated function is admitted by its body, but its name is bound to what the decorator returns (a wrapper that logs, counts, registers ...): calls of it are deleted as pointless")
    if m == 0:
        res.undecided("R16.15", fn2.loc(), fn2.fq, "admission of a function", "admission site not found")


def _r16_14(prog: Program, res: Result) -> None:
    """R16.14: a verdict 'effect-free' / 'unreachable' is about ONE module: the names it depends on (which callables are safe,
    which names are rebound) differ from module to module.  The analysers must therefore keep no module-level memory of
    verdicts - decided by the ownership analysis of C05 (R5.2), restricted to the functions the deleting rules reach."""
    roots = [k for k in (("parsing", "safe_callable_names"), ("core", "has_side_effect"), ("core", "is_blocking"),
                         ("fixes", "delete_pointless_statements"), ("fixes", "delete_unreachable_code")) if k in prog.funcs]
    if len(roots) < 5:
        raise AnalysisError("anchors of the purity / reachability analysers not found")
    reach = set()
    todo = [prog.funcs[k] for k in roots]
    while todo:
        f = todo.pop()
        if f.key in reach:
            continue
        reach.add(f.key)
        for c in prog.calls_in(f):
            r = prog.resolve_call(c.func, f.mod, f)
            if r and r[0] == "fn":
                todo.append(r[1])
    fqs = {prog.funcs[k].fq for k in reach}
    from ..ownership import Ownership
    own = Ownership(prog)
    n = 0
    for f in own.unique_findings():
        if f.origin.startswith("module:") and f.fn.fq in fqs:
            n += 1
            res.bad("R16.14", f.fn.loc(f.node), f.fn.fq, norm(f.node)[:120],
                    f"{f.what}: the analyser writes the module-level object {f.origin[7:]}; a verdict reached for one module (whose helpers were effect-free) "
                    "is replayed for another module in which the same text calls something else")
    for k in sorted(reach):
        for g in walk_own(prog.funcs[k].node):
            if isinstance(g, ast.Global):
                n += 1
                res.bad("R16.14", prog.funcs[k].loc(g), prog.funcs[k].fq, norm(g), "module-level state rebound by an analyser")
    res.ok("R16.14", "pyrefact/", "package", f"module-level objects written by the {len(reach)} functions the purity and reachability analysers reach",
           f"{n} found", trivial=bool(n))


def _scan_stop(prog: Program, res: Result, fn: Func) -> None:
    """R16.12: the statements of a function are scanned up to the first blocking one.  That statement itself runs - a
    `raise`, an `assert False`, an if/else that prints and returns in both branches - so it must be among the checked
    statements unless it is a plain `return` (whose value is checked with the returned expressions)."""
    # the scan may live in a helper of the inference (one call level)
    hosts = [fn]
    for c in prog.calls_in(fn):
        r = prog.resolve_call(c.func, fn.mod, fn)
        if r and r[0] == "fn" and r[1].mod is fn.mod and r[1] not in hosts:
            hosts.append(r[1])
    loops = [(h, l) for h in hosts for l in walk_own(h.node) if isinstance(l, ast.For) and isinstance(l.target, ast.Name) and norm(l.iter).endswith(".body")]
    for fn, loop in loops:
        child = loop.target.id
        stops = [i for i in loop.body if isinstance(i, ast.If) and "is_blocking(" in norm(i.test) and any(isinstance(x, ast.Break) for x in ast.walk(i))]
        if not stops:
            continue
        stop = stops[0]
        appends = [c for c in ast.walk(loop) if isinstance(c, ast.Call) and isinstance(c.func, ast.Attribute) and c.func.attr == "append" and c.args and norm(c.args[0]) == child]
        before = [c for c in appends if any(c in list(ast.walk(st)) for st in loop.body[:loop.body.index(stop)])]
        inside = [c for c in appends if c in list(ast.walk(stop))]
        ok = bool(before)
        why = "appended to the checked statements before the test"
        if not ok and inside:
            # allowed restriction: not isinstance(child, ast.Return)
            c = inside[0]
            conds = []
            a, prev = parent(c), c
            while a is not None and a is not stop:
                if isinstance(a, ast.If):
                    conds.append((norm(a.test), prev in a.body))
                prev, a = a, parent(a)
            ok = all((t in (f"not isinstance({child}, ast.Return)",) and pos) or (t == f"isinstance({child}, ast.Return)" and not pos) for t, pos in conds)
            why = "appended to the checked statements unless it is a plain return" if ok else f"appended only under {conds}"
        res.decide(ok, "R16.12", fn.loc(stop), fn.fq, "the statement at which the scan of a function body stops",
                   why if ok else
                   "the first blocking statement is never checked for effects: a function that raises, asserts False, or prints inside an if/else whose "
                   "branches all return is declared safe to call, and statements calling it are deleted as pointless")
        return
    res.undecided("R16.12", fn.loc(), fn.fq, "the statement at which the scan of a function body stops", "scan loop not found")


def _shadowed_builtins(prog: Program, res: Result, fn: Func) -> None:
    """R16.13: the inference starts from builtins known to be effect-free; a module that defines its own `format`,
    `sorted`, ... function, class, variable or import under such a name must not inherit that verdict: the names the
    module binds are taken out of the initial set."""
    init = [n for n in walk_own(fn.node) if isinstance(n, ast.Assign) and isinstance(n.targets[0], ast.Name) and "SAFE_CALLABLES" in norm(n.value)]
    if not init:
        return     # reported by the initial-value clause
    target = init[0].targets[0].id
    removed: List[ast.AST] = []
    v = init[0].value
    if isinstance(v, ast.BinOp) and isinstance(v.op, ast.Sub):
        removed.append(v.right)
    for n in walk_own(fn.node):
        if isinstance(n, ast.AugAssign) and isinstance(n.op, ast.Sub) and norm(n.target) == target:
            removed.append(n.value)
        if isinstance(n, ast.Call) and isinstance(n.func, ast.Attribute) and n.func.attr in ("difference_update", "difference") and norm(n.func.value) in (target, norm(v)):
            removed.extend(n.args)
    from ..defuse import assignments
    text = ""
    todo = list(removed)
    seen = set()
    while todo:
        e = todo.pop()
        text += " " + norm(e)
        for x in ast.walk(e):
            if isinstance(x, ast.Name) and x.id not in seen:
                seen.add(x.id)
                todo.extend(d for _, d in assignments(fn, x.id) if d is not None)
                # `names |= {...}` / names.update(..) enlarge the same set
                for a_ in walk_own(fn.node):
                    if isinstance(a_, ast.AugAssign) and isinstance(a_.op, ast.BitOr) and isinstance(a_.target, ast.Name) and a_.target.id == x.id:
                        todo.append(a_.value)
                    if isinstance(a_, ast.Call) and isinstance(a_.func, ast.Attribute) and a_.func.attr in ("update", "add") and isinstance(a_.func.value, ast.Name) \
                            and a_.func.value.id == x.id:
                        todo.extend(a_.args)
            if isinstance(x, ast.Call):
                r = prog.resolve_call(x.func, fn.mod, fn)
                if r and r[0] == "fn" and r[1].key not in seen:
                    seen.add(r[1].key)
                    text += " " + norm(r[1].node)
    kinds = {"function definitions": "FunctionDef" in text, "class definitions": "ClassDef" in text,
             "assigned names": "Store" in text or "get_defined_names" in text, "imported names": "alias" in text or "Import" in text or "get_imported_names" in text,
             "parameters": "ast.arg" in text or "arguments" in text}
    if not removed:
        res.bad("R16.13", fn.loc(init[0]), fn.fq, "builtins redefined by the module",
                f"the inferred set starts from {norm(v)} without removing the names the module itself binds: a user function called `format` or "
                "`sorted` is taken for the effect-free builtin and statements calling it are deleted")
        return
    missing = [k for k, ok in kinds.items() if not ok]
    res.decide(not missing, "R16.13", fn.loc(init[0]), fn.fq, "builtins redefined by the module",
               "names bound by the module (functions, classes, assignments, imports, parameters) are removed from the initial set" if not missing else
               f"names bound through {missing} are not removed from the initial set of safe builtins")


# ------------------------------------------------------------------------------------------------ R16.7
def _consumers(prog: Program, res: Result) -> None:
    """Consumers delete on the safe polarity: a statement is yielded for deletion only under `not has_side_effect(..)`
    / after a blocking statement."""
    fn = prog.func("fixes", "delete_pointless_statements")
    pa = PathAnalysis(prog, fn)
    for y in [n for n in walk_own(fn.node) if isinstance(n, ast.Yield)]:
        v = y.value
        if isinstance(v, ast.Tuple) and len(v.elts) >= 2 and isinstance(v.elts[1], ast.Constant) and v.elts[1].value is None and isinstance(v.elts[0], ast.Name):
            x = v.elts[0].id
            worlds = pa.worlds_at(y)
            ok = bool(worlds) and all(any(f[0] == "lit" and not f[2] and "has_side_effect(" in f[1] and w.token(x) in f[1] for f in w.facts) for w in worlds)
            res.decide(ok, "R16.7", fn.loc(y), fn.fq, norm(y), f"deleted only under `not has_side_effect({x}, ..)`" if ok else f"`{x}` is deleted without a negative has_side_effect test on it")
    fn2 = prog.func("fixes", "_iter_unreachable_nodes")
    pa2 = PathAnalysis(prog, fn2)
    for y in [n for n in walk_own(fn2.node) if isinstance(n, ast.Yield)]:
        worlds = pa2.worlds_at(y)
        # flag idiom: yielded only when the flag set after is_blocking(previous) holds
        flags = set()
        for w in worlds:
            for f in w.facts:
                if f[0] == "lit" and f[2] and "#" in f[1] and "(" not in f[1]:
                    flags.add(f[1].split("#")[0])
        ok = False
        detail = "unreachable nodes are not conditioned on a flag"
        from ..defuse import assignments
        for F in flags:
            defs = assignments(fn2, F)
            trues = [s for s, v in defs if isinstance(v, ast.Constant) and v.value is True]
            falses = [s for s, v in defs if isinstance(v, ast.Constant) and v.value is False]
            if trues and all(isinstance(parent(s), ast.If) and "is_blocking(" in norm(parent(s).test) and _positive(parent(s).test) for s in trues) \
                    and all(parent(s) is fn2.node for s in falses) and len(trues) + len(falses) == len(defs):
                ok, detail = True, f"yielded only after `{F}` was set by a positive is_blocking test; never reset inside the loop"
        res.decide(ok, "R16.7", fn2.loc(y), fn2.fq, norm(y), detail)
    # polarity at the other consumers: `if core.is_blocking(x)` / `any(is_blocking ..)` used positively to delete
    n = 0
    for f in prog.funcs.values():
        for c in prog.calls_in(f):
            r = prog.resolve_call(c.func, f.mod, f)
            if r and r[0] == "fn" and r[1].key in (("core", "is_blocking"), ("core", "has_side_effect")) and f.mod.name != "core":
                n += 1
                res.ok("R16.7", f.loc(c), f.fq, short(c, 60), "consumer site (listed)", trivial=True)
    res.analysed["analyser_consumer_sites"] = n


def _positive(test: ast.AST) -> bool:
    return not (isinstance(test, ast.UnaryOp) and isinstance(test.op, ast.Not))


# ---------------------------------------------------------------------------------------------- self-test
from ..selftest import Variant  # noqa: E402

VARIANTS: List[Variant] = [
    Variant("census-of-definitions-without-imports", "FIRE", "parsing", "    definition_count.update(\n        (alias.asname or alias.name).split(\".\")[0] for alias in core.walk(root, ast.alias)\n    )\n", "", "R16.19"),
    Variant("decorated-classes-admitted-as-safe-callables", "FIRE", "parsing", "            continue  # Which of the definitions a call means is not known\n        if node.decorator_list:\n            continue  # The name is bound to whatever the decorator returns\n", "            continue  # Which of the definitions a call means is not known\n", "R16.19"),
    Variant("elif-branch-hoisted-to-the-level-of-its-if", "FIRE", "fixes", "            if source[node_start:node_end].startswith(\"elif\"):\n                continue  # Its branches are part of the else branch of the if above, not statements next to it\n\n", "", "R16.24"),
    Variant("arguments-judged-with-the-widened-whitelist", "FIRE", "core", "            or any(has_side_effect(item, safe_callable_whitelist) for item in node.args)\n", "            or any(has_side_effect(item, callee_whitelist) for item in node.args)\n", "R16.22"),
    Variant("with-blocks-only-without-raise-or-assert-inside", "REPAIRED", "core", '    if isinstance(node, ast.With):\n        return any(is_blocking(child, parent_type) for child in node.body)\n',
            "    if isinstance(node, ast.With):\n        if any(walk(node, (ast.Raise, ast.Assert))):\n            return False\n        return any(is_blocking(child, parent_type) for child in node.body)\n", "R16.20"),
    Variant("with-never-blocks", "REPAIRED", "core", '    if isinstance(node, ast.With):\n        return any(is_blocking(child, parent_type) for child in node.body)\n', "    if isinstance(node, ast.With):\n        return False\n", "R16.20"),
    Variant("twice-defined-functions-whitelisted-again", "FIRE", "parsing", "            if definition_count[node.name] > 1:\n                continue  # Which of the definitions a call means is not known\n", "", "R16.19"),
    Variant("twice-defined-classes-whitelisted-again", "FIRE", "parsing", "        if definition_count[node.name] > 1 or node.name in defined_names:\n            continue  # Which of the definitions a call means is not known\n        if node.decorator_list:", "        if node.decorator_list:", "R16.19"),
    Variant("census-of-function-definitions-only", "FIRE", "parsing", "        for node in core.walk(root, (ast.FunctionDef, ast.AsyncFunctionDef, ast.ClassDef))\n    )\n    # An import binds the name as well", "        for node in core.walk(root, (ast.FunctionDef, ast.AsyncFunctionDef))\n    )\n    # An import binds the name as well", "R16.19"),
    Variant("single-definition-tested-by-equality", "SILENT", "parsing", "            if definition_count[node.name] > 1:\n                continue  # Which of the definitions a call means is not known\n", "            if definition_count[node.name] != 1:\n                continue\n", "R16.19"),
    Variant("function-arguments-of-map-not-judged", "FIRE", "core", "        if any(\n            _may_call_something_unsafe(function, safe_callable_whitelist)\n            for function in _functions_called_by(node)\n        ):\n            return True\n\n", "", "R16.18"),
    Variant("key-functions-forgotten", "FIRE", "core", "    if name in (\"sorted\", \"max\", \"min\", \"sort\", \"groupby\", \"nlargest\", \"nsmallest\", \"accumulate\"):", "    if name in (\"sort\", \"groupby\", \"nlargest\", \"nsmallest\", \"accumulate\"):", "R16.18"),
    Variant("map-judged-by-its-second-argument", "FIRE", "core", "    if name in calls_first_argument:\n        return node.args[:1]\n", "    if name in calls_first_argument:\n        return node.args[1:2]\n", "R16.18"),
    Variant("try-bodies-scanned-for-pointless-statements", "FIRE", "fixes", "        if isinstance(node, (ast.Try, getattr(ast, \"TryStar\", ast.Try))):\n            continue  # What a statement in a try raises is there to be caught: \"try: unicode\"\n\n", "", "R16.17"),
    Variant("try-test-written-with-a-template", "SILENT", "fixes", "        if isinstance(node, (ast.Try, getattr(ast, \"TryStar\", ast.Try))):\n            continue  # What a statement in a try raises is there to be caught: \"try: unicode\"\n", "        if not isinstance(node, (ast.Try, getattr(ast, \"TryStar\", ast.Try))):\n            pass\n        else:\n            continue\n", "R16.17"),
    Variant("jump-search-enters-inner-loop-bodies", "FIRE", "core", "            blocks = [node.orelse]\n", "            blocks = [node.body, node.orelse]\n", "R16.16"),
    Variant("continue-of-a-for-loop-not-searched", "FIRE", "core", "        leaving = (ast.Break, ast.Continue) if isinstance(node, ast.For) else (ast.Break,)", "        leaving = (ast.Break,)", "R16.16"),
    Variant("jump-search-dropped", "FIRE", "core", "        if _has_jump_of_this_loop(node.body, leaving):\n            return False\n", "        pass\n", "R16.16"),
    Variant("called-result-judged-by-factory-name", "FIRE", "core",
            "        if any(isinstance(child, ast.Call) for child in ast.walk(node.func)):\n            return True\n\n", "", "R16.15"),
    Variant("callee-form-tested-by-isinstance", "SILENT", "core",
            "        if any(isinstance(child, ast.Call) for child in ast.walk(node.func)):\n            return True\n",
            "        if not isinstance(node.func, (ast.Name, ast.Attribute)):\n            return True\n        if any(isinstance(child, ast.Call) for child in ast.walk(node.func)):\n            return True\n"),
    Variant("decorated-functions-admitted", "FIRE", "parsing", "            if node.decorator_list:\n                continue  # The name is bound to whatever the decorator returns\n", "", "R16.15"),
    Variant("parameters-not-counted-as-bound-names", "FIRE", "parsing",
            "    # A parameter is whatever the caller passes, not the function or builtin of the same name\n    defined_names |= {node.arg for node in core.walk(root, ast.arg)}\n", "", "R16.13"),
    Variant("false-while-deleted-with-its-else", "FIRE", "fixes",
            "            if not node.orelse:  # The else clause of a loop that runs zero times does run\n                yield node, None, transaction\n", "            yield node, None, transaction\n", "R16.11"),
    Variant("dead-while-deleted-with-its-else", "FIRE", "fixes", "        if isinstance(node, ast.While) and not value and not node.orelse:", "        if isinstance(node, ast.While) and not value:", "R16.11"),
    Variant("for-emptiness-by-list", "SILENT", "core", "            if not any(True for _ in literal_value(node.iter)):", "            if not list(literal_value(node.iter)):"),
    Variant("for-emptiness-by-truth-value", "FIRE", "core", "            if not any(True for _ in literal_value(node.iter)):", "            iterable = literal_value(node.iter)\n            if not iterable:", "R16.4"),
    Variant("admission-test-in-a-helper", "SILENT", "parsing", '            nonreturn_children = []\n            for child in node.body:\n                if core.is_blocking(child):\n                    if not isinstance(child, ast.Return):\n                        # For example a raise, or an if where all branches return\n                        nonreturn_children.append(child)\n                    break\n\n                nonreturn_children.append(child)\n            return_children = [child.value for child in core.walk(node, ast.Return)]\n\n            if not any(\n                core.has_side_effect(child, safe_callables)\n                for child in itertools.chain(nonreturn_children, return_children)\n            ):\n                safe_callable_nodes.add(node)', '            if _definition_is_pure(node, safe_callables):\n                safe_callable_nodes.add(node)', extra=[("parsing", 'def safe_callable_names(root: ast.Module) -> Collection[str]:', 'def _definition_is_pure(node, safe_callables):\n    pass\n    nonreturn_children = []\n    for child in node.body:\n        if core.is_blocking(child):\n            if not isinstance(child, ast.Return):\n                nonreturn_children.append(child)\n            break\n\n        nonreturn_children.append(child)\n    return_children = [child.value for child in core.walk(node, ast.Return)]\n\n    if any(\n        core.has_side_effect(child, safe_callables)\n        for child in itertools.chain(nonreturn_children, return_children)\n    ):\n        return False\n    pass\n    return True\n\n\ndef safe_callable_names(root: ast.Module) -> Collection[str]:')]),
    Variant("admission-helper-remembers-verdicts", "FIRE", "parsing", '            nonreturn_children = []\n            for child in node.body:\n                if core.is_blocking(child):\n                    if not isinstance(child, ast.Return):\n                        # For example a raise, or an if where all branches return\n                        nonreturn_children.append(child)\n                    break\n\n                nonreturn_children.append(child)\n            return_children = [child.value for child in core.walk(node, ast.Return)]\n\n            if not any(\n                core.has_side_effect(child, safe_callables)\n                for child in itertools.chain(nonreturn_children, return_children)\n            ):\n                safe_callable_nodes.add(node)', '            if _definition_is_pure(node, safe_callables):\n                safe_callable_nodes.add(node)', "R16.14", extra=[("parsing", 'def safe_callable_names(root: ast.Module) -> Collection[str]:', '_SEEN = set()\n\n\ndef _definition_is_pure(node, safe_callables):\n    if ast.dump(node) in _SEEN:\n        return True\n    nonreturn_children = []\n    for child in node.body:\n        if core.is_blocking(child):\n            if not isinstance(child, ast.Return):\n                nonreturn_children.append(child)\n            break\n\n        nonreturn_children.append(child)\n    return_children = [child.value for child in core.walk(node, ast.Return)]\n\n    if any(\n        core.has_side_effect(child, safe_callables)\n        for child in itertools.chain(nonreturn_children, return_children)\n    ):\n        return False\n    _SEEN.add(ast.dump(node))\n    return True\n\n\ndef safe_callable_names(root: ast.Module) -> Collection[str]:')]),
    Variant("admission-helper-answers-yes-early", "FIRE", "parsing", '            nonreturn_children = []\n            for child in node.body:\n                if core.is_blocking(child):\n                    if not isinstance(child, ast.Return):\n                        # For example a raise, or an if where all branches return\n                        nonreturn_children.append(child)\n                    break\n\n                nonreturn_children.append(child)\n            return_children = [child.value for child in core.walk(node, ast.Return)]\n\n            if not any(\n                core.has_side_effect(child, safe_callables)\n                for child in itertools.chain(nonreturn_children, return_children)\n            ):\n                safe_callable_nodes.add(node)', '            if _definition_is_pure(node, safe_callables):\n                safe_callable_nodes.add(node)', "R16.6", extra=[("parsing", 'def safe_callable_names(root: ast.Module) -> Collection[str]:', 'def _definition_is_pure(node, safe_callables):\n    if len(node.body) == 1:\n        return True\n    nonreturn_children = []\n    for child in node.body:\n        if core.is_blocking(child):\n            if not isinstance(child, ast.Return):\n                nonreturn_children.append(child)\n            break\n\n        nonreturn_children.append(child)\n    return_children = [child.value for child in core.walk(node, ast.Return)]\n\n    if any(\n        core.has_side_effect(child, safe_callables)\n        for child in itertools.chain(nonreturn_children, return_children)\n    ):\n        return False\n    pass\n    return True\n\n\ndef safe_callable_names(root: ast.Module) -> Collection[str]:')]),
    Variant("blocking-statement-not-checked", "FIRE", "parsing",
            "                if core.is_blocking(child):\n                    if not isinstance(child, ast.Return):\n                        # For example a raise, or an if where all branches return\n                        nonreturn_children.append(child)\n                    break\n",
            "                if core.is_blocking(child):\n                    break\n", "R16.12"),
    Variant("blocking-statement-appended-first", "SILENT", "parsing",
            "                if core.is_blocking(child):\n                    if not isinstance(child, ast.Return):\n                        # For example a raise, or an if where all branches return\n                        nonreturn_children.append(child)\n                    break\n\n                nonreturn_children.append(child)\n",
            "                if not isinstance(child, ast.Return):\n                    nonreturn_children.append(child)\n                if core.is_blocking(child):\n                    break\n"),
    Variant("redefined-builtins-stay-safe", "FIRE", "parsing",
            "    safe_callables = set(constants.SAFE_CALLABLES) - redefined_names\n", "    safe_callables = set(constants.SAFE_CALLABLES)\n", "R16.13"),
    Variant("redefined-builtins-forget-classes", "FIRE", "parsing",
            "core.walk(root, (ast.FunctionDef, ast.AsyncFunctionDef, ast.ClassDef))}\n        | {(alias", "core.walk(root, (ast.FunctionDef, ast.AsyncFunctionDef))}\n        | {(alias", "R16.13"),
    Variant("break-searched-only-in-ifs", "FIRE", "core",
            "            elif not isinstance(child, (ast.For, ast.While)) and any(walk(child, ast.Break)):\n                return False  # The loop can be left from inside e.g. a try or with statement\n", "", "R16.10"),
    Variant("break-searched-in-every-child", "SILENT", "core",
            "            elif not isinstance(child, (ast.For, ast.While)) and any(walk(child, ast.Break)):\n", "            elif any(walk(child, ast.Break)):\n"),
    Variant("whole-if-deleted-with-its-live-branch", "FIRE", "fixes",
            "                for child in node.orelse:\n                    yield child, None, transaction\n", "                for _ in node.orelse:\n                    yield node, None, transaction\n", "R16.11"),
    Variant("whitelist-extended-in-place", "FIRE", "core",
            "            callee_whitelist = safe_callable_whitelist | {node.func.attr}\n",
            "            callee_whitelist = safe_callable_whitelist\n            callee_whitelist |= {node.func.attr}\n", "R16.9"),
    Variant("whitelist-extended-by-union-call", "SILENT", "core",
            "            callee_whitelist = safe_callable_whitelist | {node.func.attr}\n",
            "            callee_whitelist = frozenset(safe_callable_whitelist).union({node.func.attr})\n"),
    Variant("if-forgets-orelse", "FIRE", "core",
            "            for item in itertools.chain(node.body, [node.test], node.orelse)\n", "            for item in itertools.chain(node.body, [node.test])\n", "R16.2", "ast.If"),
    Variant("for-forgets-orelse", "FIRE", "core",
            "itertools.chain([node.target], [node.iter], node.body, node.orelse)", "itertools.chain([node.target], [node.iter], node.body)", "R16.2", "ast.For"),
    Variant("default-answer-false", "FIRE", "core",
            "        return any(has_side_effect(child) for child in (node.value, node.format_spec))\n\n    return True\n",
            "        return any(has_side_effect(child) for child in (node.value, node.format_spec))\n\n    return False\n", "R16.1"),
    Variant("decorated-underscore-def-pointless", "FIRE", "core",
            "        if node.name != \"_\" or node.decorator_list:\n", "        if node.name != \"_\":\n", "R16.3"),
    Variant("call-forgets-keywords", "FIRE", "core",
            "            or any(has_side_effect(item.value, safe_callable_whitelist) for item in node.keywords)\n", "", "R16.2", "ast.Call"),
    Variant("import-not-an-effect", "FIRE", "core",
            "    if isinstance(node, (ast.Import, ast.ImportFrom)):\n        return True\n", "    if isinstance(node, (ast.Import, ast.ImportFrom)):\n        return False\n", "R16.3"),
    Variant("while-unknown-falls-through", "FIRE", "core",
            "        except ValueError:\n            return False  # The loop may not be entered at all\n", "        except ValueError:\n            pass\n", "R16.4"),
    Variant("for-unknown-falls-through", "FIRE", "core",
            "        except (ValueError, TypeError):  # TypeError: The value is known, but cannot be iterated\n            return False\n",
            "        except (ValueError, TypeError):  # TypeError: The value is known, but cannot be iterated\n            pass\n", "R16.4"),
    Variant("if-unknown-any-branch", "FIRE", "core",
            "            return all(\n                any(is_blocking(child, parent_type) for child in branch) for branch in branches\n            )",
            "            return any(\n                any(is_blocking(child, parent_type) for child in branch) for branch in branches\n            )", "R16.5"),
    Variant("with-branch-drops-loop-context", "FIRE", "core",
            "        return any(is_blocking(child, parent_type) for child in node.body)\n\n    return False\n",
            "        return any(is_blocking(child) for child in node.body)\n\n    return False\n", "R16.8"),
    Variant("is-blocking-default-true", "FIRE", "core",
            "        return any(is_blocking(child, parent_type) for child in node.body)\n\n    return False\n",
            "        return any(is_blocking(child, parent_type) for child in node.body)\n\n    return True\n", "R16.1"),
    Variant("next-is-safe-again", "FIRE", "constants", "    \"min\",\n    \"object\",", "    \"min\",\n    \"next\",\n    \"object\",", "R16.6"),
    Variant("safe-callable-ignores-returns", "FIRE", "parsing",
            "                for child in itertools.chain(nonreturn_children, return_children)\n", "                for child in nonreturn_children\n", "R16.6"),
    Variant("class-admission-ignores-bases", "FIRE", "parsing",
            "        if bases_are_safe and not constructors - safe_callable_nodes:", "        if not constructors - safe_callable_nodes:", "R16.6"),
    Variant("pointless-polarity-flipped", "FIRE", "fixes",
            "            if not core.has_side_effect(child, safe_callables):\n                if i > 0 or not _is_pointless_string(child):  # Docstring",
            "            if core.has_side_effect(child, safe_callables):\n                if i > 0 or not _is_pointless_string(child):  # Docstring", "R16.7"),
    Variant("split-branch-in-two", "SILENT", "core",
            "    if isinstance(node, (ast.List, ast.Set, ast.Tuple)):\n        return any(has_side_effect(value, safe_callable_whitelist) for value in node.elts)\n",
            "    if isinstance(node, ast.List):\n        return any(has_side_effect(value, safe_callable_whitelist) for value in node.elts)\n\n    if isinstance(node, (ast.Set, ast.Tuple)):\n        return any(has_side_effect(value, safe_callable_whitelist) for value in node.elts)\n"),
    Variant("early-return-restructured", "SILENT", "core",
            "    if isinstance(node, ast.Expr):\n        return has_side_effect(node.value, safe_callable_whitelist)\n",
            "    if isinstance(node, ast.Expr):\n        value = node.value\n        return has_side_effect(value, safe_callable_whitelist)\n"),
    Variant("while-handler-as-else", "SILENT", "core",
            "        except ValueError:\n            return False  # The loop may not be entered at all\n        else:\n            if not test_value:\n                return False\n",
            "        except ValueError:\n            return False\n\n        if not test_value:\n            return False\n\n        if True:\n"),
]

META = {
    "design_ref": "DESIGN.md section 3, C16",
    "technique": "per-kind partial evaluation of the isinstance-dispatch analysers against a reference table of evaluated fields; path-condition check of the loop rules; constant-set evaluation of the safe-callable set; parameter-mutation summaries of the analysers (ownership interpreter); with-statement rule (exceptions swallowed by the context manager); defaults of optional analyser parameters",
    "level_text": ("Decides on the current source, for every ast node kind of the running interpreter, which answers "
                   "has_side_effect / is_blocking can give and which fields they consult, and from that: conservative "
                   "defaults, field coverage for every kind that can be called effect-free, definitions/imports/control "
                   "transfers as effects, 'blocking' for loops only after their header was evaluated, both branches for "
                   "an unknown if, conservative safe-callable inference. It does not decide reachability proper nor the "
                   "correctness of the answers computed from the consulted fields."),
    "level_note": "Trusted: CPython ast; the reference table EVALUATED/INERT (cross-checked against _fields on every run); IMPURE blacklist.",
}
