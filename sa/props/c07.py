"""C07 Safe mode never removes or renames a module's public surface (partial, DESIGN 3/C07)."""
from __future__ import annotations

import ast
from typing import Dict, List, Optional, Set, Tuple

from .. import preserve as P
from ..defuse import assignments
from ..model import AnalysisError, Func, Program, norm, parent, short, walk_own, walk_body
from ..pathcond import PathAnalysis
from ..report import Result
from .c08 import plumbing, site_obligations

MEMBERS = ("module function/class", "module variable", "method of a module-level class", "attribute assigned in a module-level class body",
           "class nested in a module-level class")
TARGET_KINDS = {"Name", "Tuple", "List", "Starred"}


LATER_RULES = ' Later rules: (R7.3) the producer also descends into module-level compound statements and emits classes nested in classes; (R7.7) = C05 R5.6; (R7.8) guards over walk_sequence items operate on nodes, not on match tuples.'


def check(prog: Program, tier: str) -> Result:
    res = Result(
        "C07",
        explanation=(
            "(R7.1) `safe` and `preserve` are passed down every call chain (call graph, def-use of the argument). "
            "(R7.2) every definition-affecting site of the preserve consumers is guarded by a preserve test on some key "
            "form of the subject's name (same engine as C08). (R7.3) producer/consumer agreement: the `if safe:` block of "
            "format_code is read into a table member class -> key forms emitted (bare name / 'Class.member'); for every "
            "member class of the public surface the bare form must be emitted, because at least one consumer "
            "(align_variable_names_with_convention, which reaches methods and class attributes through its worklist) "
            "tests the bare form only; where only the qualified form is emitted, every consumer that is not restricted "
            "to module-level subjects must test the qualified form. (R7.4) the assignment-target unpacker handles every "
            "binding target kind (Name, Tuple, List, Starred). (R7.5) the augmented preserve set is what is passed on. "
            "(R7.6) a rule without a preserve parameter deletes a direct child statement of the module only under `not has_side_effect` or a kind test that excludes definitions. "
            "Not decided: removal of a definition by other means than the enumerated sites (e.g. inside dead code)."),
        rule_text="instances = option plumbing calls, definition-affecting sites, producer table entries per member class, target kinds of the unpacker",
    )
    res.explanation += LATER_RULES
    res.trusted_base = ["CPython ast", "sa/pathcond.py", "sa/preserve.py", "member classes of the public surface as stated by the property"]
    plumbing(prog, res, "R7.1", ("preserve", "safe"))
    stats = site_obligations(prog, res, "R7.2", need_bare=False)
    _producer(prog, res)
    _unpacker(prog, res)
    _module_level_deletes(prog, res)
    # a memo inside the rule wrappers would replay results computed under ANOTHER preserve set: decided by the C05 check
    from . import c05 as _c05
    _tmp = Result("C05", "", "")
    _c05._r5_6(prog, _tmp)
    res.adopt(_tmp, {"R5.6"}, "R7.7", "safe mode / preserve only protect the surface if no rule result is replayed from a memo that ignores the preserve set")
    _r7_8(prog, res)
    from . import c16 as _c16
    _tmp16 = Result("C16", "", "")
    _c16._r16_23(prog, _tmp16)
    res.adopt(_tmp16, {"R16.23"}, "R7.9", "safe mode protects a module-level `_` by asking for '_' in preserve; any OTHER name has_side_effect treats as throw-away is deleted in safe mode")
    res.floors.update({"R7.1": 14, "R7.2": 8, "R7.3": 4, "R7.4": 5, "R7.8": 2, "R7.9": 2})
    res.analysed.update(stats)
    return res


def _r7_8(prog: Program, res: Result) -> None:
    """Matches are not nodes.  core.walk_sequence yields, per statement of a run, a MATCH tuple (the node first, then the
    wildcard bindings).  A guard that asks `isinstance(m, ast.FunctionDef)`, `core.filter_nodes(matches, (ast.FunctionDef, ..))`,
    `core.walk(m, ..)` or `match_template(m, ..)` of the match itself is dead code - a tuple is never an instance of a node
    class - so the rule goes on where it meant to stop: missing_context_manager moved every following statement, function and
    class definitions included, into the `with` block (and they are then no top-level definitions any more, which is all
    safe mode protects).  Instance: every use of a match variable of a walk_sequence loop (an element of the loop target that
    is not destructured, or its starred rest, or an element drawn from that) in a node position of those four calls, before
    the variable is rebound to the projected nodes (`[m[0] for m in ms]`, `m.root`)."""
    n = 0
    for fn in prog.funcs.values():
        for lp in walk_own(fn.node):
            if not isinstance(lp, (ast.For, ast.AsyncFor)):
                continue
            it, tg = lp.iter, lp.target
            if isinstance(it, ast.Call) and isinstance(it.func, ast.Name) and it.func.id == "enumerate" and it.args and isinstance(tg, ast.Tuple) and len(tg.elts) == 2:
                it, tg = it.args[0], tg.elts[1]
            if not (isinstance(it, ast.Call) and (prog.dotted(it.func) or "").split(".")[-1] == "walk_sequence" and isinstance(tg, ast.Tuple)):
                continue
            single, lists = set(), set()
            for e in tg.elts:
                if isinstance(e, ast.Name):
                    single.add(e.id)
                elif isinstance(e, ast.Starred) and isinstance(e.value, ast.Name):
                    lists.add(e.value.id)
            if not (single or lists):
                continue
            # first rebinding of each variable inside the loop (by line)
            rebound = {}
            for st in ast.walk(lp):
                if isinstance(st, ast.Assign):
                    for t in st.targets:
                        if isinstance(t, ast.Name) and t.id in single | lists and st is not lp:
                            rebound[t.id] = min(rebound.get(t.id, 10 ** 9), st.lineno)

            def is_match_expr(e: ast.AST, at_line: int, env: dict) -> bool:
                if isinstance(e, ast.Name):
                    if e.id in env:
                        return env[e.id]
                    return e.id in single and at_line <= rebound.get(e.id, 10 ** 9)
                return False

            def is_match_list(e: ast.AST, at_line: int) -> bool:
                return isinstance(e, ast.Name) and e.id in lists and at_line <= rebound.get(e.id, 10 ** 9)
            for c in ast.walk(lp):
                if not isinstance(c, ast.Call):
                    continue
                d = (prog.dotted(c.func) or "").split(".")[-1]
                line = c.lineno
                # element variables of comprehensions / generator expressions over a match list
                env = {}
                a = parent(c)
                while a is not None and a is not lp:
                    if isinstance(a, (ast.GeneratorExp, ast.ListComp, ast.SetComp)):
                        for g in a.generators:
                            if isinstance(g.target, ast.Name):
                                env[g.target.id] = is_match_list(g.iter, line)
                    a = parent(a)
                hit = None
                if d == "isinstance" and len(c.args) == 2 and is_match_expr(c.args[0], line, env) and "ast." in norm(c.args[1]):
                    hit = c.args[0]
                elif d == "filter_nodes" and c.args and is_match_list(c.args[0], line):
                    hit = c.args[0]
                elif d in ("walk", "match_template") and c.args and is_match_expr(c.args[0], line, env):
                    hit = c.args[0]
                elif d in ("isinstance", "filter_nodes", "walk", "match_template") and c.args and isinstance(c.args[0], ast.Name) and (c.args[0].id in single | lists or c.args[0].id in env):
                    n += 1
                    res.ok("R7.8", fn.loc(c), fn.fq, short(c, 70), "applied to the projected nodes")
                    continue
                if hit is not None:
                    n += 1
                    res.bad("R7.8", fn.loc(c), fn.fq, short(c, 70),
                            f"`{norm(hit)}` is a walk_sequence MATCH (a tuple), not a node: this test can never succeed, the guard is dead and the rule goes on where it meant to stop")
    if n == 0:
        raise AnalysisError("R7.8: no node test on the items of a walk_sequence loop found")


def _scope_of_iter(prog: Program, fn: Func, it: ast.AST, env: Dict[str, str]) -> Optional[str]:
    """'module' | 'class' | None for the collection an iteration draws definitions from."""
    if isinstance(it, ast.Call):
        d = prog.dotted(it.func) or ""
        if d in ("core.filter_nodes",) and it.args:
            a = it.args[0]
            if isinstance(a, ast.Attribute) and a.attr == "body" and isinstance(a.value, ast.Name):
                return env.get(a.value.id)
        if d.startswith("parsing.iter_") and it.args and isinstance(it.args[0], ast.Name):
            return env.get(it.args[0].id)
    return None


def _producer(prog: Program, res: Result) -> None:
    fn = prog.func("main", "format_code")
    safe_if = None
    for s in walk_own(fn.node):      # wherever it sits: after early returns or nested in their else branches
        if isinstance(s, ast.If) and norm(s.test) == "safe" and safe_if is None:
            safe_if = s
    if safe_if is None:
        res.bad("R7.3", fn.loc(), fn.fq, "if safe:", "format_code has no safe-mode block: nothing is added to preserve")
        return
    # module variable: the parsed module
    def module_value(v: ast.AST):
        """(is a module whose .body holds at least the direct children of the parsed module, descends into compound statements)"""
        if isinstance(v, ast.Call) and (prog.dotted(v.func) or "") in ("core.parse", "ast.parse"):
            return True, False
        if isinstance(v, ast.Call) and (prog.dotted(v.func) or "") == "ast.Module":
            body = next((k.value for k in v.keywords if k.arg == "body"), None)
            while isinstance(body, ast.Call) and isinstance(body.func, ast.Name) and body.func.id in ("list", "tuple", "sorted") and body.args:
                body = body.args[0]
            if isinstance(body, ast.Call) and body.args and isinstance(body.args[0], ast.Call) and (prog.dotted(body.args[0].func) or "") in ("core.parse", "ast.parse"):
                r = prog.resolve_call(body.func, fn.mod, fn)
                if r and r[0] == "fn" and r[1].posparams:
                    h = r[1]
                    txt = norm(h.node)
                    p0 = h.posparams[0]
                    yields_all = f"{p0}.body" in txt and any(
                        isinstance(l, ast.For) and isinstance(l.target, ast.Name) and l.body and isinstance(l.body[0], ast.Expr) and isinstance(l.body[0].value, ast.Yield)
                        and isinstance(l.body[0].value.value, ast.Name) and l.body[0].value.value.id == l.target.id for l in walk_own(h.node))
                    descends = all(f in txt for f in ("orelse", "handlers", "finalbody")) and "FunctionDef" in txt and "ClassDef" in txt
                    return yields_all, descends
        return False, False
    module_vars = set()
    descends_any = False
    mod_stmt = None
    for s in safe_if.body:
        if isinstance(s, ast.Assign):
            is_mod, desc = module_value(s.value)
            if is_mod:
                module_vars |= {t.id for t in s.targets if isinstance(t, ast.Name)}
                descends_any = descends_any or desc
                mod_stmt = mod_stmt or s
    if mod_stmt is not None:
        res.decide(descends_any, "R7.3", fn.loc(mod_stmt), fn.fq, "definitions inside module-level if / try / with / loops",
                   "the statements scanned for definitions include the blocks of module-level compound statements (functions and classes are not entered)" if descends_any else
                   "only the direct children of the module are scanned: a fallback `except ImportError: def dumps(..)`, a platform switch `if sys.platform == ..: def helper ..` "
                   "define public names that safe mode does not protect - they are deleted or renamed")
    emitted: Dict[str, Set[str]] = {m: set() for m in MEMBERS}
    sets: Dict[str, ast.AST] = {}
    for s in safe_if.body:
        if isinstance(s, ast.Assign) and isinstance(s.targets[0], ast.Name) and isinstance(s.value, (ast.SetComp, ast.Set, ast.BinOp, ast.Call)):
            sets[s.targets[0].id] = s.value
    # which of the sets reach `preserve = ... | ...`
    final = [s for s in safe_if.body if isinstance(s, ast.Assign) and any(isinstance(t, ast.Name) and t.id == "preserve" for t in s.targets)]
    if not final:
        res.bad("R7.5", fn.loc(safe_if), fn.fq, "preserve augmentation", "the safe block does not rebind `preserve`")
        return
    used = {n.id for n in ast.walk(final[-1].value) if isinstance(n, ast.Name)}
    keeps_old = "preserve" in used
    res.decide(keeps_old, "R7.5", fn.loc(final[-1]), fn.fq, norm(final[-1])[:100], "the caller's preserve set is kept and extended" if keeps_old else "safe mode drops the caller's preserve set")

    def classify(expr: ast.AST, name: str):
        comps = [c for c in ast.walk(expr) if isinstance(c, (ast.SetComp, ast.GeneratorExp, ast.ListComp))]
        for comp in comps:
            env = {m: "module" for m in module_vars}
            for g in comp.generators:
                sc = _scope_of_iter(prog, fn, g.iter, env)
                d = (prog.dotted(g.iter.func) or "") if isinstance(g.iter, ast.Call) else ""
                kinds = None
                if d == "core.filter_nodes" and len(g.iter.args) >= 2:
                    kinds = P.template_kinds(prog, fn, g.iter.args[1])
                elif d == "parsing.iter_assignments":
                    kinds = {"Name"}
                elif d == "parsing.iter_funcdefs":
                    kinds = {"FunctionDef", "AsyncFunctionDef"}
                elif d == "parsing.iter_classdefs":
                    kinds = {"ClassDef"}
                if isinstance(g.target, ast.Name):
                    env[g.target.id] = "class" if (kinds == {"ClassDef"} and sc == "module") else env.get(g.target.id, "")
                    env[g.target.id + ":scope"] = sc or ""
                    env[g.target.id + ":kinds"] = ",".join(sorted(kinds)) if kinds else ""
            elt = comp.elt
            form = None
            subj = None
            if isinstance(elt, ast.Attribute) and elt.attr in P.NAME_FIELDS and isinstance(elt.value, ast.Name):
                form, subj = "bare", elt.value.id
            elif isinstance(elt, ast.JoinedStr):
                fv = [v for v in elt.values if isinstance(v, ast.FormattedValue)]
                if len(fv) == 2 and all(isinstance(v.value, ast.Attribute) and isinstance(v.value.value, ast.Name) for v in fv):
                    form, subj = "qualified", fv[1].value.value.id
            elif isinstance(elt, ast.Subscript) or isinstance(elt, ast.Call):
                # e.g. funcdef.split(".")[-1] over the qualified set: bare names of the same members
                src = comp.generators[0].iter
                if isinstance(src, ast.Name) and src.id in sets and "split" in norm(elt):
                    for m in MEMBERS:
                        if "qualified" in emitted_by.get((src.id, m), set()):
                            emitted[m].add("bare")
                            emitted_by.setdefault((name, m), set()).add("bare")
                continue
            if form is None or subj is None:
                continue
            scope = env.get(subj + ":scope", "")
            kinds = set(filter(None, env.get(subj + ":kinds", "").split(",")))
            member = None
            if scope == "module" and kinds & {"FunctionDef", "AsyncFunctionDef", "ClassDef"}:
                member = MEMBERS[0]
            elif scope == "module" and kinds == {"Name"}:
                member = MEMBERS[1]
            elif scope == "class" and kinds & {"FunctionDef", "AsyncFunctionDef"}:
                member = MEMBERS[2]
            elif scope == "class" and kinds == {"Name"}:
                member = MEMBERS[3]
            elif scope == "class" and kinds == {"ClassDef"}:
                member = MEMBERS[4]
            if member:
                emitted[member].add(form)
                emitted_by.setdefault((name, member), set()).add(form)

    emitted_by: Dict[Tuple[str, str], Set[str]] = {}
    order = [s.targets[0].id for s in safe_if.body if isinstance(s, ast.Assign) and isinstance(s.targets[0], ast.Name) and s.targets[0].id in sets]
    for name in order:
        if name in used:
            classify(sets[name], name)
    # inline comprehensions inside the final union
    classify(final[-1].value, "<inline>")
    # consumers that test only the bare form and are not restricted to module-level subjects
    bare_only_everywhere = []
    for c in P.consumers(prog):
        pa = PathAnalysis(prog, c, term_hook=P.name_hook)
        sites = [s for s in P.find_sites(prog, c) if s.kind in ("delete", "rename", "unbind", "collect") and s.subject]
        tests_qualified = any("f'" in norm(n) or 'f"' in norm(n) for n in walk_own(c.node) if isinstance(n, ast.Compare) and "preserve" in norm(n))
        module_only = _module_level_only(prog, c)
        if sites and not tests_qualified and not module_only:
            bare_only_everywhere.append(c.fq)
    for m in MEMBERS:
        forms = emitted[m]
        if "bare" in forms:
            res.ok("R7.3", fn.loc(safe_if), fn.fq, f"{m}: emitted {sorted(forms)}", "bare name emitted: every consumer that tests the bare name sees it")
        elif forms:
            res.decide(not bare_only_everywhere, "R7.3", fn.loc(safe_if), fn.fq, f"{m}: emitted {sorted(forms)}",
                       "every consumer reaching this member class tests the qualified form" if not bare_only_everywhere else
                       f"safe mode emits only the qualified 'Class.member' key for this member class, but {bare_only_everywhere} reach(es) class members and test(s) the bare name only: the member is renamed in safe mode")
        else:
            res.bad("R7.3", fn.loc(safe_if), fn.fq, f"{m}: emitted nothing",
                    f"safe mode adds no key for this member class; consumers reaching it: {bare_only_everywhere or 'all'}")


def _module_level_only(prog: Program, fn: Func) -> bool:
    """All node sources of the consumer draw from the module body only (no walk over the whole tree, no worklist)."""
    for n in walk_own(fn.node):
        if isinstance(n, ast.Call):
            d = prog.dotted(n.func) or ""
            if d == "core.walk":
                t = n.args[1] if len(n.args) > 1 else None
                k = P.template_kinds(prog, fn, t) if t is not None else None
                if k is None or k & {"FunctionDef", "AsyncFunctionDef", "ClassDef", "Assign", "AnnAssign", "AugAssign"}:
                    return False
            if d.startswith("parsing.iter_") and n.args and not (isinstance(n.args[0], ast.Name) and n.args[0].id in ("root", "ast_tree", "module")):
                return False
            if d in ("_iter_unused_names",):
                return False
        if isinstance(n, ast.While):
            return False
    return True


def _root_vars(prog: Program, fn: Func) -> Set[str]:
    out = set()
    for name, defs in P.bindings(fn).items():
        for _, v in defs:
            if isinstance(v, ast.Call) and (prog.dotted(v.func) or "") in ("core.parse", "ast.parse"):
                out.add(name)
    return out


def _may_be_root(prog: Program, fn: Func, var: str, at: ast.AST, roots: Set[str]) -> bool:
    if var in roots:
        return True
    loop = P.binding_loop(fn, at, var)
    if loop is None:
        return False
    # the module itself is an element of what the loop iterates: [root], (root, ..), chain([root], ..)
    for n in ast.walk(loop.iter):
        if isinstance(n, (ast.List, ast.Tuple, ast.Set)) and any(isinstance(x, ast.Name) and x.id in roots for x in n.elts):
            return True
        if isinstance(n, ast.Starred):
            continue
    # ... or of what a repository generator yields when it is handed the module: a helper that yields its own argument
    # (`def iter_bodies(root): yield root; ..`) makes the module an element, whatever its name suggests
    for c in ast.walk(loop.iter):
        if isinstance(c, ast.Call):
            r = prog.resolve_call(c.func, fn.mod, fn)
            if r and r[0] == "fn":
                callee = r[1]
                for i_, a in enumerate(c.args):
                    if isinstance(a, ast.Name) and a.id in roots and i_ < len(callee.posparams):
                        p_ = callee.posparams[i_]
                        if any(isinstance(y, ast.Yield) and isinstance(y.value, ast.Name) and y.value.id == p_ for y in walk_own(callee.node)):
                            return True
    if isinstance(loop.iter, ast.Call) and (prog.dotted(loop.iter.func) or "") in ("itertools.chain",) and any(
            isinstance(a, ast.Name) and a.id in roots for a in loop.iter.args):
        return False   # chain(root, ..) iterates the fields of root, not root
    return False


def _module_level_deletes(prog: Program, res: Result) -> None:
    """R7.6: a rule that has no `preserve` parameter may delete a direct child statement of the module only under a
    test that rules out definitions (`not has_side_effect(x)` - definitions and name stores are effects, C16 R16.3 -
    or a kind test)."""
    from ..pathcond import world_has
    for fn in prog.funcs.values():
        if not fn.is_fix or "preserve" in fn.all_params:
            continue
        roots = _root_vars(prog, fn)
        if not roots:
            continue
        pa = None
        for y in [n for n in walk_own(fn.node) if isinstance(n, ast.Yield)]:
            v = y.value
            if not (isinstance(v, ast.Tuple) and len(v.elts) >= 2 and isinstance(v.elts[0], ast.Name)
                    and isinstance(v.elts[1], ast.Constant) and v.elts[1].value is None):
                continue
            x = v.elts[0].id
            loop = P.binding_loop(fn, y, x)
            if loop is None:
                continue
            holder = None
            for n in ast.walk(loop.iter):
                if isinstance(n, ast.Attribute) and n.attr in ("body", "orelse", "finalbody") and isinstance(n.value, ast.Name):
                    holder = n.value.id
            if holder is None or not _may_be_root(prog, fn, holder, loop, roots):
                continue
            kinds = P.subject_kinds(prog, fn, x, at=y)
            if kinds and not (kinds & {"FunctionDef", "AsyncFunctionDef", "ClassDef", "Assign", "AnnAssign", "AugAssign", "AST"}):
                res.ok("R7.6", fn.loc(y), fn.fq, short(y, 80), f"'{x}' is selected by a template of kind {sorted(kinds)}: not part of the public surface")
                continue
            pa = pa or PathAnalysis(prog, fn, term_hook=P.name_hook)
            worlds = pa.worlds_at(y)
            tok = lambda w: w.token(x)
            by_kind = bool(worlds) and all(
                world_has(w, True, lambda t: t.startswith(f"isinstance({x},") and not any(k in t for k in ("FunctionDef", "ClassDef", "Assign")))
                for w in worlds)
            by_effect = bool(worlds) and all(
                world_has(w, False, lambda t: "has_side_effect(" + x in t.replace(" ", "") or f"has_side_effect({x}," in t or f"has_side_effect({x})" in t)
                for w in worlds)
            if by_kind:
                res.ok("R7.6", fn.loc(y), fn.fq, short(y, 80), f"'{x}' can be a top-level statement of the module, deleted only under a kind test that excludes definitions")
            elif by_effect:
                # core.has_side_effect answers 'no effect' for a statement that binds the name `_` (documented convention);
                # a rule without a preserve parameter cannot know that `_` is part of the module's surface
                res.bad("R7.6", fn.loc(y), fn.fq, short(y, 80),
                        f"'{x}' can be a top-level statement of the module and is deleted under `not has_side_effect({x})`; that test lets a binding of `_` through "
                        "(`_ = value`, `def _()`), and this rule has no `preserve` parameter: in safe mode a top-level variable named _ is deleted")
            else:
                res.bad("R7.6", fn.loc(y), fn.fq, short(y, 80),
                        f"'{x}' can be a top-level statement of the module ('{holder}' may be the module itself) and is deleted without any test that rules out definitions; "
                        "this rule has no `preserve` parameter, so safe mode cannot protect the module's public surface from it")


def _unpacker(prog: Program, res: Result) -> None:
    fn = prog.func("parsing", "_unpack_ast_target")
    handled: Set[str] = set()
    for n in walk_own(fn.node):
        if isinstance(n, ast.Call) and isinstance(n.func, ast.Name) and n.func.id == "isinstance" and len(n.args) == 2:
            k = P.template_kinds(prog, fn, n.args[1])
            if k:
                handled |= k
    for kind in sorted(TARGET_KINDS):
        ok = kind in handled
        res.decide(ok, "R7.4", fn.loc(), fn.fq, f"assignment target kind ast.{kind}",
                   "unpacked" if ok else f"names bound through an ast.{kind} target (e.g. `[a, b] = ..` / `a, *rest = ..`) are not added to preserve in safe mode and get renamed or unbound")
    # targets nest: `NAME, (MAJOR, MINOR) = ..`, `a, [b, *c] = ..` - the elements of a Tuple / List and the value of a Starred are
    # targets again, so they must go through the unpacker itself (recursion) or a worklist, not through a test for ast.Name
    container_kinds = {"Tuple", "List", "Starred"}
    recursive = [c for c in prog.calls_in(fn) if (lambda r: r and r[0] == "fn" and r[1].key == fn.key)(prog.resolve_call(c.func, fn.mod, fn))]
    worklist = any(isinstance(w, ast.While) for w in walk_own(fn.node)) and any(
        isinstance(c, ast.Call) and isinstance(c.func, ast.Attribute) and c.func.attr in ("extend", "append", "appendleft", "extendleft") for c in walk_own(fn.node))
    fed = set()
    for c in recursive:
        for a in c.args:
            t = norm(a)
            if t.endswith(".value"):
                fed.add("Starred")
            if isinstance(a, ast.Name):
                for lp in walk_own(fn.node):
                    if isinstance(lp, (ast.For, ast.AsyncFor)) and isinstance(lp.target, ast.Name) and lp.target.id == a.id and norm(lp.iter).endswith(".elts"):
                        fed |= {"Tuple", "List"}
    nests = worklist or container_kinds <= fed
    res.decide(nests, "R7.4", fn.loc(), fn.fq, "nested assignment targets",
               "the elements of a Tuple / List target and the value of a Starred target are unpacked again" if nests else
               f"the elements of {sorted(container_kinds - fed)} targets are not unpacked again: names nested one level deeper (`NAME, (MAJOR, MINOR) = ..`) never reach the "
               "preserve set of safe mode and are renamed to `_`")
    # iter_assignments covers Assign, AnnAssign, AugAssign
    fn2 = prog.func("parsing", "iter_assignments")
    kinds: Set[str] = set()
    for n in walk_own(fn2.node):
        if isinstance(n, ast.Call) and isinstance(n.func, ast.Name) and n.func.id == "isinstance" and len(n.args) == 2:
            k = P.template_kinds(prog, fn2, n.args[1])
            if k:
                kinds |= k
    for kind in ("Assign", "AnnAssign", "AugAssign"):
        res.decide(kind in kinds, "R7.4", fn2.loc(), fn2.fq, f"assignment statement kind ast.{kind}",
                   "covered" if kind in kinds else f"module-level ast.{kind} statements are not part of the safe surface")


# ---------------------------------------------------------------------------------------------- self-test
from ..selftest import Variant  # noqa: E402

VARIANTS = [
    Variant("safe-mode-scans-direct-children-only", "FIRE", "main",
            "        module = ast.Module(\n            body=list(parsing.iter_module_scope_statements(core.parse(source))), type_ignores=[]\n        )\n", "        module = core.parse(source)\n", "R7.3"),
    Variant("nested-classes-not-emitted", "FIRE", "main",
            "        } | {\n            classdef.name  # A class in a class is a member of it\n            for node in core.filter_nodes(module.body, ast.ClassDef)\n            for classdef in core.filter_nodes(node.body, ast.ClassDef)\n        }\n", "        }\n", "R7.3"),
    Variant("guards-applied-to-the-match-tuples", "FIRE", "fixes",
            "        nodes = [tup[0] for tup in nodes]  # The statements themselves, not their matches\n", "", "R7.8",
            extra=[("fixes", "            continue\n\n        while nodes:\n            if core.walk(nodes[-1], target_template):", "            continue\n\n        nodes = [tup[0] for tup in nodes]\n        while nodes:\n            if core.walk(nodes[-1], target_template):")]),
    Variant("pointless-statements-without-preserve", "FIRE", "fixes",
            "def delete_pointless_statements(source: str, preserve: Collection[str] = frozenset()) -> str:", "def delete_pointless_statements(source: str, preserved: Collection[str] = frozenset()) -> str:", "R7.6",
            extra=[("fixes", "    underscore_is_a_variable = \"_\" in preserve or any(", "    underscore_is_a_variable = \"_\" in preserved or any("),
                   ("main", "    source = fixes.delete_pointless_statements(source, preserve=preserve)\n", "    source = fixes.delete_pointless_statements(source)\n")]),
    Variant("underscore-binding-stripped-without-preserve-test", "FIRE", "fixes",
            "    if \"_\" in preserve or any(core.walk(root, ast.Name(id=\"_\", ctx=ast.Load))):\n        return\n", "", "R7.2"),
    Variant("format-file-forgets-safe", "FIRE", "main",
            "    source = format_code(initial_content, preserve=preserve, safe=safe, keep_imports=keep_imports)", "    source = format_code(initial_content, preserve=preserve, keep_imports=keep_imports)", "R7.1"),
    Variant("main-forgets-safe", "FIRE", "main", "            source = format_code(source, preserve=preserve, safe=args.safe)", "            source = format_code(source, preserve=preserve)", "R7.1"),
    Variant("safe-block-drops-assignments", "FIRE", "main", "        preserve = set(preserve) | defs | class_funcs | assignments | class_members", "        preserve = set(preserve) | defs | class_funcs | class_members", "R7.3"),
    Variant("safe-block-drops-defs", "FIRE", "main", "        preserve = set(preserve) | defs | class_funcs | assignments | class_members", "        preserve = set(preserve) | class_funcs | assignments | class_members", "R7.3"),
    Variant("safe-block-drops-class-members", "FIRE", "main", "        preserve = set(preserve) | defs | class_funcs | assignments | class_members", "        preserve = set(preserve) | defs | class_funcs | assignments", "R7.3"),
    Variant("safe-block-forgets-callers-preserve", "FIRE", "main", "        preserve = set(preserve) | defs | class_funcs | assignments | class_members", "        preserve = defs | class_funcs | assignments | class_members", "R7.5"),
    Variant("unpacker-forgets-starred", "FIRE", "parsing", "    if isinstance(target, ast.Starred):\n        yield from _unpack_ast_target(target.value)\n", "", "R7.4"),
    Variant("worker-safe-constant", "FIRE", "main", "                    (filename, filename_preserve[filename], safe)", "                    (filename, filename_preserve[filename], False)", "R7.1"),
    Variant("unreachable-code-at-module-level", "FIRE", "fixes",
            "    for node in parsing.iter_bodies_recursive(root):\n        if not isinstance(node, (ast.If, ast.While)):\n            for unreachable_node in _iter_unreachable_nodes(node.body):",
            "    for node in itertools.chain([root], parsing.iter_bodies_recursive(root)):\n        if not isinstance(node, (ast.If, ast.While)):\n            for unreachable_node in _iter_unreachable_nodes(node.body):", "R7.6"),
    Variant("safe-positional", "SILENT", "main", "            source = format_code(source, preserve=preserve, safe=args.safe)", "            source = format_code(source, safe=args.safe, preserve=preserve)"),
]

META = {
    "design_ref": "DESIGN.md section 3, C07",
    "technique": "call-graph option plumbing, path-condition guards at definition-affecting sites, producer/consumer key-form table extracted from the safe block, target-kind coverage of the unpacker; recursion check of the target unpacker; generator-yields-its-argument summaries for module-level deletion",
    "level_text": ("Decides on the current source that safe/preserve reach every rule, that every definition-affecting site "
                   "tests a preserve key of its subject, that the safe block emits for every member class of the public "
                   "surface a key form the consumers test, and that all binding target kinds are unpacked. It does not "
                   "decide removal by means outside the enumerated sites."),
    "level_note": "Trusted: CPython ast; sa/pathcond.py; the member classes of the surface as the property states them; site enumeration of sa/preserve.py.",
}
