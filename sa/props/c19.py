"""C19 Renaming is consistent and capture-free (partial, DESIGN 3/C19)."""
from __future__ import annotations

import ast
import re
import textwrap
from typing import Dict, List, Optional, Set, Tuple

from ..defuse import assignments, bindings, call_arg, names_in
from ..model import AnalysisError, Func, Program, norm, parent, short, walk_own, walk_body
from ..pathcond import PathAnalysis, plain, world_has
from ..preserve import binding_loop
from ..report import Result

ID_FIELDS = {"Name": "id", "FunctionDef": "name", "AsyncFunctionDef": "name", "ClassDef": "name", "arg": "arg"}
COPY_ATTRS = {"id", "name", "arg", "attr", "asname"}
STRING_BUILDERS = {"join", "format", "replace", "lower", "upper", "lstrip", "rstrip", "strip", "title", "capitalize"}
TREE_NAME_SOURCES = ("tracing.get_defined_names", "tracing.get_imported_names", "get_defined_names", "get_imported_names")
_WC = re.compile(r"\{\{(\w+)[?*+]?\}\}")


def _ctor_kind(prog: Program, fn: Func, c: ast.Call) -> Optional[str]:
    d = prog.dotted(c.func) or ""
    if "." in d:
        head, name = d.rsplit(".", 1)
        if fn.mod.aliases.get(head) == ("ext", "ast") and name in ID_FIELDS:
            return name
    return None


def ident_kind(prog: Program, fn: Func, e: ast.AST, at: ast.AST, depth: int = 0) -> str:
    """'copy' (an identifier taken from the tree) | 'underscore' | 'synth' (constructed text) | 'unknown'"""
    if depth > 5:
        return "unknown"
    if isinstance(e, ast.Attribute) and e.attr in COPY_ATTRS:
        return "copy"
    if isinstance(e, ast.Constant) and isinstance(e.value, str):
        return "underscore" if e.value == "_" else "synth"
    if isinstance(e, ast.JoinedStr):
        return "synth"
    if isinstance(e, ast.BinOp) and isinstance(e.op, ast.Add):
        return "synth"
    if isinstance(e, ast.Call):
        d = prog.dotted(e.func) or ""
        if isinstance(e.func, ast.Attribute) and e.func.attr in STRING_BUILDERS:
            return "synth"
        if d in ("re.sub", "str") or d.startswith("style.rename_"):
            return "synth"
        if d == "next":
            return "synth"
        return "unknown"
    if isinstance(e, ast.Subscript):
        return ident_kind(prog, fn, e.value, at, depth + 1) if isinstance(e.value, ast.Attribute) else "unknown"
    if isinstance(e, ast.Name):
        if binding_loop(fn, at, e.id) is not None:
            return "unknown"   # drawn from a collection: origin not followed
        defs = [v for s, v in assignments(fn, e.id) if v is not None]
        if e.id in fn.all_params and not defs:
            return "unknown"
        if not defs:
            return "unknown"
        kinds = {ident_kind(prog, fn, v, at, depth + 1) for v in defs}
        if "synth" in kinds:
            return "synth"
        if kinds == {"copy"}:
            return "copy"
        if kinds <= {"copy", "underscore"}:
            return "copy"
        return "unknown"
    if isinstance(e, ast.IfExp):
        ks = {ident_kind(prog, fn, e.body, at, depth + 1), ident_kind(prog, fn, e.orelse, at, depth + 1)}
        return "synth" if "synth" in ks else ("copy" if ks == {"copy"} else "unknown")
    return "unknown"


def output_names(prog: Program, fn: Func) -> Set[str]:
    out: Set[str] = set()
    for n in walk_own(fn.node):
        if isinstance(n, (ast.Yield, ast.YieldFrom)) and n.value is not None:
            out |= names_in(n.value)
        if isinstance(n, ast.Call):
            r = prog.resolve_call(n.func, fn.mod, fn)
            if r and r[0] == "fn" and r[1].key == ("processing", "alter_code"):
                for k in n.keywords:
                    if k.arg in ("additions", "replacements"):
                        out |= names_in(k.value)
    for _ in range(3):
        for n in walk_own(fn.node):
            if isinstance(n, ast.Call) and isinstance(n.func, ast.Attribute) and n.func.attr in ("append", "add", "extend", "update", "insert") \
                    and isinstance(n.func.value, ast.Name) and n.func.value.id in out:
                for a in n.args:
                    out |= names_in(a)
            if isinstance(n, ast.Assign) and isinstance(n.value, (ast.Attribute, ast.Subscript, ast.BoolOp)) and names_in(n.value) & out:
                # a part / alias of an output object (args = funcdef_copy.args.posonlyargs or funcdef_copy.args.args)
                for t in n.targets:
                    if isinstance(t, ast.Name):
                        out.add(t.id)
            if isinstance(n, ast.Assign):
                for t in n.targets:
                    base = t
                    while isinstance(base, (ast.Subscript, ast.Attribute)):
                        base = base.value
                    if isinstance(base, ast.Name) and base.id in out:
                        out |= names_in(n.value)
    return out


def tree_derived_sets(prog: Program, fn: Func) -> Dict[str, str]:
    """set variable -> 'complete' (all identifiers of the tree) | 'incomplete' (some binding class only)"""
    out: Dict[str, str] = {}
    for name, defs in bindings(fn).items():
        for _, v in defs:
            if v is None:
                continue
            t = norm(v)
            # follow locals that are bound once (names = core.walk(root, ast.Name); used = {n.id for n in names})
            for nm in names_in(v):
                ds = [d for _, d in assignments(fn, nm) if d is not None]
                if len(ds) == 1 and nm != name:
                    t += " <- " + norm(ds[0])
            complete = any(s in t for s in TREE_NAME_SOURCES) or ("core.walk(" in t and "ast.Name" in t and ".id" in t) \
                or ("ast.walk(" in t and ".id" in t)
            partial = ("iter_funcdefs(" in t or "iter_classdefs(" in t or "iter_assignments(" in t or "core.walk(" in t) and (".name" in t or ".id" in t or ".arg" in t)
            if complete:
                out[name] = "complete"
            elif partial and name not in out:
                out[name] = "incomplete"
    # unions of known sets
    for _ in range(2):
        for name, defs in bindings(fn).items():
            for _, v in defs:
                if v is not None and isinstance(v, ast.BinOp) and isinstance(v.op, ast.BitOr):
                    parts = names_in(v)
                    if any(out.get(p) == "complete" for p in parts):
                        out[name] = "complete"
    return out


def guarded_generators(prog: Program) -> Set[Tuple[str, str]]:
    """Repository generators of names whose every yield is under `name not in <tree-derived set>`."""
    out = set()
    for fn in prog.funcs.values():
        if not fn.is_generator or fn.is_fix:
            continue
        ys = [y for y in walk_own(fn.node) if isinstance(y, ast.Yield) and isinstance(y.value, ast.Name)]
        if not ys:
            continue
        sets = tree_derived_sets(prog, fn)
        pa = PathAnalysis(prog, fn)
        ok = True
        for y in ys:
            worlds = pa.worlds_at(y)
            tok = y.value.id
            if not (worlds and all(any(f[0] == "lit" and not f[2] and f[1].startswith(f"in({w.token(tok)}, ") and
                                       sets.get(f[1].split(", ", 1)[1].rstrip(")").split("#")[0]) == "complete" for f in w.facts) for w in worlds)):
                ok = False
        if ok:
            out.add(fn.key)
    return out


LATER_RULES = ' Later rules: R19.2 demands imported names as the imports bind them (component found through the call graph); (R19.4) parameter kinds; (R19.5) injective renaming; (R19.6) delete only what was redirected; (R19.7) name-kind agreement and inclusive line containment. (R19.14) the table of builtin names holds every public name of builtins, values included; (R19.13) functions are merged as duplicates under a key that spells out builtins, imported and defined names of the module, and every constant.'


def check(prog: Program, tier: str) -> Result:
    res = Result(
        "C19",
        explanation=(
            "(R19.1) freshness of synthesised binders. A synthesised identifier is a str expression that reaches the "
            "id/name/arg of a constructed ast.Name/FunctionDef/ClassDef/arg which flows into a yielded rewrite or an "
            "alter_code addition/replacement, and that is built (f-string, concatenation, str methods, re.sub, "
            "style.rename_*, next(generator), a literal other than '_') rather than copied from an identifier attribute of "
            "a matched node; or a literal identifier in binding position of a replace template that its find template "
            "does not contain. Obligation: the path condition at the construction entails `ident not in S` for a set S "
            "derived from all identifiers of the tree (ids of a walk over ast.Name, tracing.get_defined_names / "
            "get_imported_names), or the identifier is drawn from a repository generator whose every yield is under such "
            "a test. (R19.2) names produced by style.rename_* pass a blacklist that includes keywords, builtins, imported "
            "and defined names. (R19.3) all rewrites of one renamed binding carry one transaction id, and the scheduler applies a transaction "
            "wholly or not at all (clauses R10.1/R10.3/R10.6 of the C10 check, adopted). (R19.4) use-site discovery sees shadowing by every "
            "kind of parameter. Not decided: "
            "completeness of use-site discovery, validity of the produced identifier."),
        rule_text="instances = constructions of named nodes reaching the output, literal binders of replace templates, blacklist components, rename transactions; non-trivial = synthesised identifiers",
    )
    res.explanation += LATER_RULES
    res.trusted_base = ["CPython ast", "sa/pathcond.py", "classification of identifier expressions (copy vs synthesised) in sa/props/c19.py"]
    gens = guarded_generators(prog)
    n_ctor = 0
    for fn in prog.funcs.values():
        outs = None
        pa = None
        sets = None
        for c in prog.calls_in(fn):
            kind = _ctor_kind(prog, fn, c)
            if kind is None:
                continue
            fld = ID_FIELDS[kind]
            e = call_arg(c, list(getattr(ast, kind)._fields).index(fld), fld)
            if e is None:
                continue
            # only constructions that can reach the output
            outs = outs if outs is not None else output_names(prog, fn)
            st = c
            while not isinstance(st, ast.stmt):
                st = parent(st)
            reaches = any(isinstance(x, (ast.Yield, ast.YieldFrom)) for x in ast.walk(st)) or (
                isinstance(st, ast.Assign) and any(isinstance(t, ast.Name) and t.id in outs for t in st.targets)) or (
                isinstance(st, ast.Assign) and any(isinstance(b, ast.Name) and b.id in outs for t in st.targets for b in [_base(t)])) or (
                isinstance(st, ast.Expr) and isinstance(st.value, ast.Call) and isinstance(st.value.func, ast.Attribute)
                and isinstance(_base(st.value.func.value), ast.Name) and _base(st.value.func.value).id in outs)
            if not reaches:
                continue
            # templates handed to the matcher are not output
            if _inside_matcher_call(prog, fn, c):
                continue
            n_ctor += 1
            ik = ident_kind(prog, fn, e, c)
            text = f"ast.{kind}({fld}={short(e, 50)})"
            if ik == "synth" and kind == "Name" and isinstance(e, ast.Constant) and not _binding_position(fn, c):
                res.ok("R19.1", fn.loc(c), fn.fq, text, "reference to a well-known name (load context), not a binder", trivial=True)
                continue
            if ik == "synth" and kind == "Name" and isinstance(e, ast.Name) and _all_constant_defs(fn, e.id) and not _binding_position(fn, c):
                res.ok("R19.1", fn.loc(c), fn.fq, text, "reference to one of a fixed set of well-known names (load context), not a binder", trivial=True)
                continue
            if ik == "copy":
                res.ok("R19.1", fn.loc(c), fn.fq, text, "identifier copied from the tree", trivial=True)
                continue
            if ik == "underscore" and not _binding_position(fn, c):
                res.ok("R19.1", fn.loc(c), fn.fq, text, "`_` in load context, not a binder", trivial=True)
                continue
            # `_` as a BINDER is a synthesised name like any other: where the program uses a variable called _ (gettext's
            # `_ = gettext.gettext`, a loop that calls _(..)), storing a throw-away value into it captures that variable
            if ik == "unknown":
                res.ok("R19.1", fn.loc(c), fn.fq, text, "identifier drawn from a collection / parameter: not a synthesised name (origin not followed)", trivial=True)
                continue
            # synthesised: drawn from a guarded generator?
            if _from_guarded_generator(prog, fn, e, gens):
                res.ok("R19.1", fn.loc(c), fn.fq, text, "drawn from a name generator whose every yield is tested against the identifiers of the tree")
                continue
            pa = pa or PathAnalysis(prog, fn)
            sets = sets if sets is not None else tree_derived_sets(prog, fn)
            verdict, detail = _fresh_at(pa, sets, fn, c, e)
            if verdict == "ok":
                res.ok("R19.1", fn.loc(c), fn.fq, text, detail)
            elif verdict == "incomplete":
                res.bad("R19.1", fn.loc(c), fn.fq, text,
                        f"{detail}: a variable, class or import of that name is not seen and is captured by the new binding")
            else:
                res.bad("R19.1", fn.loc(c), fn.fq, text, detail)
    _template_binders(prog, res)
    _r19_2(prog, res)
    _r19_3(prog, res)
    _r19_4(prog, res)
    _r19_5(prog, res)
    _r19_6(prog, res)
    _r19_7(prog, res)
    _r19_8(prog, res)
    _r19_9(prog, res)
    _r19_10(prog, res)
    _r19_11(prog, res)
    _r19_12(prog, res)
    _r19_13(prog, res)
    _r19_14(prog, res)
    _r19_15(prog, res)
    _r19_16(prog, res)
    _r19_17(prog, res)
    # a renamed binding is rewritten as ONE transaction (R19.3); that only keeps definition and uses together if the
    # scheduler applies a transaction wholly or not at all - decided by the C10 check, adopted here
    from . import c10 as _c10
    res.adopt(_c10.check(prog, tier), {"R10.1", "R10.3", "R10.6"}, "R19.3",
              "a rename is consistent only if its transaction is applied as a whole or not at all")
    res.floors.update({"R19.1": 8, "R19.2": 4, "R19.3": 2, "R19.4": 1, "R19.5": 1, "R19.6": 1, "R19.7": 2, "R19.8": 6, "R19.9": 1, "R19.10": 1, "R19.11": 3, "R19.12": 1, "R19.13": 4, "R19.14": 1, "R19.15": 1, "R19.16": 1, "R19.17": 1})
    res.analysed.update({"named_node_constructions_reaching_output": n_ctor, "guarded_name_generators": sorted(f"{a}.{b}" for a, b in gens)})
    return res


def _all_constant_defs(fn: Func, name: str) -> bool:
    defs = [v for _, v in assignments(fn, name) if v is not None]
    return bool(defs) and all(isinstance(v, ast.Constant) and isinstance(v.value, str) for v in defs)


def _binding_position(fn: Func, c: ast.Call) -> bool:
    """The constructed Name is a binder: ctx=Store, or the value of a target-like field of an enclosing constructor."""
    for k in c.keywords:
        if k.arg == "ctx" and "Store" in norm(k.value):
            return True
    # `yield old, ast.Name(id=..)`: the new name stands where the OLD node stood; unless the old nodes are selected in load
    # context only, it can stand in a store position
    tup = parent(c)
    if isinstance(tup, ast.Tuple) and isinstance(parent(tup), ast.Yield) and len(tup.elts) >= 2 and tup.elts[1] is c and isinstance(tup.elts[0], ast.Name):
        loop = binding_loop(fn, c, tup.elts[0].id)
        if loop is not None:
            it = norm(loop.iter)
            if not ("ctx=ast.Load" in it or "ctx=(ast.Load)" in it or "ast.Load)" in it):
                return True
    p = parent(c)
    child = c
    while p is not None and not isinstance(p, ast.stmt):
        if isinstance(p, ast.keyword) and p.arg in ("target", "targets", "optional_vars", "name"):
            return True
        child, p = p, parent(p)
    # bound to a variable that is later used in a target-like field
    st = p
    if isinstance(st, ast.Assign) and len(st.targets) == 1 and isinstance(st.targets[0], ast.Name) and st.value is c:
        var = st.targets[0].id
        for n in walk_own(fn.node):
            if isinstance(n, ast.keyword) and n.arg in ("target", "targets", "optional_vars") and var in names_in(n.value):
                return True
    return False


def _base(t):
    while isinstance(t, (ast.Subscript, ast.Attribute)):
        t = t.value
    return t


def _inside_matcher_call(prog: Program, fn: Func, c: ast.Call) -> bool:
    a = parent(c)
    while a is not None and not isinstance(a, ast.stmt):
        if isinstance(a, ast.Call) and (prog.dotted(a.func) or "") in ("core.walk", "core.match_template", "core.filter_nodes", "core.walk_wildcard",
                                                                         "core.walk_sequence", "core.compile_template", "core.Wildcard"):
            return True
        a = parent(a)
    return False


def _from_guarded_generator(prog: Program, fn: Func, e: ast.AST, gens) -> bool:
    if isinstance(e, ast.Name):
        defs = [v for _, v in assignments(fn, e.id) if v is not None]
        return bool(defs) and all(_from_guarded_generator(prog, fn, v, gens) for v in defs)
    if isinstance(e, ast.Call) and (prog.dotted(e.func) or "") == "next" and e.args and isinstance(e.args[0], ast.Name):
        gdefs = [v for _, v in assignments(fn, e.args[0].id) if v is not None]
        for g in gdefs:
            if isinstance(g, ast.Call):
                r = prog.resolve_call(g.func, fn.mod, fn)
                if r and r[0] == "fn" and r[1].key in gens:
                    return True
    return False


def _skeleton(text: str) -> str:
    """f-string / expression text with the interpolated parts blanked: f'var_{n + 1}' -> f'var_{}'"""
    return re.sub(r"\{[^{}]*\}", "{}", text)


def _walk_guard(atom_plain: str, ident_plain: str) -> Optional[str]:
    """`any(core.walk(<scope>, <template naming ident>))`: the identifier does not occur in the scope."""
    t = atom_plain.replace(" ", "")
    i = ident_plain.replace(" ", "")
    if t.startswith("any(core.walk(") and (f"ast.Name(id={i})" in t or f"ast.Name(id={i}," in t):
        if i == "'_'":
            return "complete"     # the throw-away name only matters where it is READ; reads of a parameter _ are Name loads too
        return "complete" if f"ast.arg(arg={i})" in t else "incomplete"
    return None


def _disjunct_ok(f, ident_plain: str, sets: Dict[str, str]) -> Optional[str]:
    """A fact that is (a disjunction of) freshness evidence for the identifier."""
    parts = [f] if f[0] == "lit" else list(f[1]) if f[0] == "or" else None
    if not parts:
        return None
    verdict = "complete"
    saw_guard = False
    for p_ in parts:
        if p_[0] != "lit":
            return None
        a = plain(p_[1])
        g = _walk_guard(a, ident_plain) if not p_[2] else None
        if g:
            saw_guard = True
            if g != "complete":
                verdict = "incomplete"
            continue
        if p_[2] and a.startswith("eq(") and ident_plain in a:
            continue   # e.g. the argument already is called cls
        # any(f'var_{..}' in S for ..) negated
        if not p_[2] and a.startswith("any(") and " in " in a and _skeleton(ident_plain).strip("f") in _skeleton(a):
            sname = a.split(" in ", 1)[1].split(" ")[0].rstrip(")")
            if sets.get(sname) == "complete":
                saw_guard = True
                continue
        return None
    return verdict if saw_guard else None


def _fresh_at(pa: PathAnalysis, sets: Dict[str, str], fn: Func, site: ast.AST, e: ast.AST) -> Tuple[str, str]:
    worlds = pa.worlds_at(site)
    if not worlds:
        return "ok", "unreachable"
    best = "ok"
    detail = ""
    for w in worlds:
        term = pa.term(e, w)
        found = None
        ident_plain = plain(term)
        for f in w.facts:
            v = _disjunct_ok(f, ident_plain, sets)
            if v:
                found = ("a walk over the scope", v) if found is None or v == "complete" else found
        for f in w.facts:
            # the identifier equals a name that is ALREADY bound at this position (`first_arg_name == 'cls'` with
            # first_arg_name read from the .arg of the parameter being replaced): nothing new is bound
            if found is None and f[0] == "lit" and f[2] and plain(f[1]).startswith("eq(") and ident_plain in plain(f[1]):
                others = [x for x in re.findall(r"[A-Za-z_]\w*", plain(f[1])[3:-1]) if x not in ident_plain]
                for o in others:
                    ds = [d for _, d in assignments(fn, o) if d is not None]
                    if len(ds) == 1 and re.search(r"\.(arg|id|name)$", norm(ds[0])):
                        found = (f"the name already bound there ({o})", "complete")
        for f in w.facts:
            if f[0] == "lit" and not f[2] and f[1].startswith("in("):
                inner = f[1][3:-1]
                left, _, right = inner.rpartition(", ")
                if left == term or (isinstance(e, ast.Name) and left == w.token(e.id)):
                    sname = right.split("#")[0]
                    cls = sets.get(sname)
                    if cls:
                        found = (sname, cls) if found is None or cls == "complete" else found
        if found is None:
            # a loop `while name in S: <rename>` establishes the same on exit
            return "bad", (f"the synthesised identifier {short(e, 40)} is bound in the rewritten code without any test against the names already visible there: "
                           "an existing variable of that name is captured / overwritten")
        if found[1] != "complete":
            best = "incomplete"
            detail = f"tested against '{found[0]}', which holds only part of the names in scope"
        elif best == "ok":
            detail = f"reached only under `{short(e, 30)} not in {found[0]}` ({found[0]} derives from all identifiers of the tree)"
    return best, detail


def _binders_of(tree: ast.AST) -> Set[str]:
    out = set()
    for n in ast.walk(tree):
        if isinstance(n, ast.Name) and isinstance(n.ctx, ast.Store):
            out.add(n.id)
        elif isinstance(n, ast.ExceptHandler) and n.name:
            out.add(n.name)
        elif isinstance(n, ast.arg):
            out.add(n.arg)
        elif isinstance(n, (ast.FunctionDef, ast.AsyncFunctionDef, ast.ClassDef)):
            out.add(n.name)
        elif isinstance(n, ast.alias):
            out.add((n.asname or n.name).split(".")[0])
    return out


def _names_of(tree: ast.AST) -> Set[str]:
    return {n.id for n in ast.walk(tree) if isinstance(n, ast.Name)} | _binders_of(tree)


def _parse_template(t: str) -> Optional[ast.AST]:
    probe = _WC.sub(lambda m: "wc__" + m.group(1), t)
    probe = re.sub(r"\{\{\.\.\.[?*+]?\}\}", "wc__any", probe)
    probe = re.sub(r"\{\{\w+\([\w, ]*\)\}\}", "wc__call", probe)
    try:
        return ast.parse(textwrap.dedent(probe))
    except SyntaxError:
        return None


def _template_binders(prog: Program, res: Result) -> None:
    from .c04 import _literal_templates, _nearest_def
    for fn in prog.funcs.values():
        for c in prog.calls_in(fn):
            r = prog.resolve_call(c.func, fn.mod, fn)
            if not (r and r[0] == "fn" and r[1].key == ("processing", "find_replace")):
                continue
            find = call_arg(c, 1, "find")
            repl = call_arg(c, 2, "replace")
            if isinstance(find, ast.Name):
                find = _nearest_def(fn, find.id, c) or find
            if isinstance(repl, ast.Name):
                repl = _nearest_def(fn, repl.id, c) or repl
            finds = _literal_templates(prog, fn, find) if find is not None else None
            repls = _literal_templates(prog, fn, repl) if repl is not None else None
            if not finds or not repls:
                continue
            fnames: Set[str] = set()
            parsed_ok = True
            for f in finds:
                t = _parse_template(f)
                if t is None:
                    parsed_ok = False
                else:
                    fnames |= _names_of(t)
            if not parsed_ok:
                continue
            for rt in repls:
                t = _parse_template(rt)
                if t is None:
                    continue
                new = {b for b in _binders_of(t) if not b.startswith("wc__") and b != "_" and b not in fnames}
                text = f"replace template binders at line {c.lineno}"
                if new:
                    pa = PathAnalysis(prog, fn)
                    worlds = pa.worlds_at(c)
                    guarded = {b for b in new if worlds and all(any(_disjunct_ok(f, repr(b), {}) for f in w.facts) for w in worlds)}
                    if guarded == new:
                        res.ok("R19.1", fn.loc(c), fn.fq, f"{text}: {sorted(new)}", f"the rule runs only if the literal binder(s) {sorted(new)} occur nowhere in the tree (walk over ast.Name / ast.arg)")
                        continue
                if not new:
                    res.ok("R19.1", fn.loc(c), fn.fq, text, "the replacement binds no literal name that the pattern does not already contain", trivial=True)
                else:
                    res.bad("R19.1", fn.loc(c), fn.fq, f"{text}: {sorted(new)}",
                            f"the replacement template binds the literal name(s) {sorted(new)} that do not occur in the matched code: a variable of that name in scope is "
                            "captured / overwritten, and a template cannot test for it")


def _expand(prog: Program, fn: Func, e: ast.AST, depth: int = 0) -> str:
    """Text of an expression with single-definition locals and single-return repository helpers inlined."""
    t = norm(e)
    if depth > 3:
        return t
    for x in ast.walk(e):
        if isinstance(x, ast.Name) and isinstance(x.ctx, ast.Load):
            ds = [d for _, d in assignments(fn, x.id) if d is not None]
            if len(ds) == 1 and ds[0] is not e:
                t += " <- " + _expand(prog, fn, ds[0], depth + 1)
        if isinstance(x, ast.Call):
            r = prog.resolve_call(x.func, fn.mod, fn)
            if r and r[0] == "fn" and r[1].mod.name == fn.mod.name:
                rets = [y for y in walk_own(r[1].node) if isinstance(y, ast.Return) and y.value is not None]
                if len(rets) == 1:
                    t += " <- " + _expand(prog, r[1], rets[0].value, depth + 1)
    return t


def _import_component(prog: Program, fn: Func, e: ast.AST, depth: int = 0, seen=None):
    """(an operand of the expression is made of the names the module IMPORTS, those names are reduced to what the import BINDS).
    Follows single-definition locals, single-return helpers and repository calls; a function is import-derived if it reads
    the aliases of import statements (`.names` of Import / ImportFrom nodes) or calls such a function; the reduction is a
    `.split('.')[0]` / `.partition('.')[0]` on the way (`import os.path` binds `os`)."""
    seen = seen if seen is not None else set()
    present, reduced = False, False
    if depth > 4:
        return present, reduced
    for x in ast.walk(e):
        if isinstance(x, ast.Name) and isinstance(x.ctx, ast.Load):
            ds = [d for _, d in assignments(fn, x.id) if d is not None]
            if len(ds) == 1 and ds[0] is not e and id(ds[0]) not in seen:
                seen.add(id(ds[0]))
                p2, r2 = _import_component(prog, fn, ds[0], depth + 1, seen)
                present, reduced = present or p2, reduced or r2
        if isinstance(x, ast.Call):
            r = prog.resolve_call(x.func, fn.mod, fn)
            if r and r[0] == "fn" and r[1].key not in seen:
                seen.add(r[1].key)
                callee = r[1]
                body_text = norm(callee.node)
                direct = (".names" in body_text and (".asname" in body_text or "Import" in body_text)) or "ast.alias" in body_text
                p2, r2 = False, False
                for y in walk_own(callee.node):
                    if isinstance(y, ast.Return) and y.value is not None:
                        a2, b2 = _import_component(prog, callee, y.value, depth + 1, seen)
                        p2, r2 = p2 or a2, r2 or b2
                if direct or p2:
                    present = True
                    red_here = ".split('.')[0]" in body_text or ".partition('.')[0]" in body_text
                    reduced = reduced or r2 or red_here
    t = norm(e)
    if present and (".split('.')[0]" in t or ".partition('.')[0]" in t):
        reduced = True
    return present, reduced


def _r19_2(prog: Program, res: Result) -> None:
    need = {"PYTHON_KEYWORDS": "keywords", "BUILTIN_FUNCTIONS": "builtins"}
    for m, q, extra in (("fixes", "align_variable_names_with_convention", {"get_defined_names": "defined names"}), ("fixes", "_fix_variable_names", {})):
        fn = prog.func(m, q)
        # the blacklist is a collection that new names are tested against (`X.isdisjoint(names)` / `name in X`) and that
        # is made of tables of forbidden names - found by what it contains, not by what anything is called
        tests = []
        for n in walk_own(fn.node):
            coll = None
            if isinstance(n, ast.Call) and isinstance(n.func, ast.Attribute) and n.func.attr == "isdisjoint" and n.args:
                coll = n.func.value
            elif isinstance(n, ast.Compare) and len(n.ops) == 1 and isinstance(n.ops[0], (ast.In, ast.NotIn)) \
                    and not isinstance(n.comparators[0], (ast.Tuple, ast.List, ast.Set, ast.Constant)):
                coll = n.comparators[0]
            if coll is not None and (any(key in _expand(prog, fn, coll) for key in need) or _import_component(prog, fn, coll)[0]):
                tests.append((n, coll))
        if not tests:
            res.bad("R19.2", fn.loc(), fn.fq, "blacklist applied", "new names are not tested against any collection of forbidden names")
            continue
        # several collections may be tested; the blacklist is the one made of the most tables of forbidden names
        site, coll = max(tests, key=lambda sc: sum(key in _expand(prog, fn, sc[1]) for key in {**need, **extra}))
        t = _expand(prog, fn, coll)
        for key, what in {**need, **extra}.items():
            res.decide(key in t, "R19.2", fn.loc(site), fn.fq, f"blacklist contains {what}", "component present" if key in t else f"new names are not checked against {what}")
        present, reduced = _import_component(prog, fn, coll)
        res.decide(present, "R19.2", fn.loc(site), fn.fq, "blacklist contains imported names", "component present" if present else "new names are not checked against imported names")
        if present:
            res.decide(reduced, "R19.2", fn.loc(site), fn.fq, "imported names as the imports BIND them",
                       "`import a.b` contributes `a`" if reduced else
                       "the imported names are the dotted module names: `import os.path` contributes 'os.path', which no identifier equals, so a variable can be renamed to `os` "
                       "and shadows the module")
        res.ok("R19.2", fn.loc(site), fn.fq, "blacklist applied", f"substitutes are tested against it ({short(site, 50)})")


def _r19_3(prog: Program, res: Result) -> None:
    fn = prog.func("fixes", "align_variable_names_with_convention")
    ys = [y for y in walk_own(fn.node) if isinstance(y, ast.Yield) and isinstance(y.value, ast.Tuple) and len(y.value.elts) == 3]
    for y in ys:
        tvar = y.value.elts[2]
        if not isinstance(tvar, ast.Name):
            res.undecided("R19.3", fn.loc(y), fn.fq, short(y, 60), "transaction is not a variable")
            continue
        inner = binding_loop(fn, y, y.value.elts[0].id) if isinstance(y.value.elts[0], ast.Name) else None
        steps = [n for n in walk_own(fn.node) if isinstance(n, ast.AugAssign) and isinstance(n.target, ast.Name) and n.target.id == tvar.id]
        ok = inner is not None and bool(steps) and all(not _within(s, inner) for s in steps) and all(_within(s, parent_loop(inner)) for s in steps)
        res.decide(ok, "R19.3", fn.loc(y), fn.fq, short(y, 60),
                   "the definition and all its uses share one transaction id (stepped once per renamed name, outside the loop over its nodes)" if ok else
                   "the transaction id changes between the nodes of one renamed binding: the definition can be renamed without its uses")


def _r19_6(prog: Program, res: Result) -> None:
    """Delete only what was redirected: fixes._fix_variable_names silently refuses to rename anything TO a name of its
    blacklist (imports, builtins, keywords).  A caller that renames the uses of a definition and then deletes the
    definition must test the new name against the same blacklist before it marks the definition for deletion -
    otherwise the uses keep the old name and the definition is gone."""
    fv = prog.funcs.get(("fixes", "_fix_variable_names"))
    if fv is None:
        raise AnalysisError("anchor fixes._fix_variable_names not found")
    # the refusal: `if substitute in V: continue`
    black = None
    for i in walk_own(fv.node):
        if isinstance(i, ast.If) and i.body and isinstance(i.body[-1], ast.Continue) and isinstance(i.test, ast.Compare) \
                and isinstance(i.test.ops[0], ast.In) and isinstance(i.test.comparators[0], ast.Name):
            v = i.test.comparators[0].id
            defs = [d for _, d in assignments(fv, v) if d is not None]
            if len(defs) == 1:
                black = defs[0]
    if black is None:
        res.ok("R19.6", fv.loc(), fv.fq, "refusal of blacklisted new names", "_fix_variable_names refuses nothing", trivial=True)
        return

    def source_of(e: ast.AST, fn: Func) -> frozenset:
        """the components a blacklist expression is made of: repository callees and CONSTANT tables, helpers inlined"""
        t = _expand(prog, fn, e)
        return frozenset(re.findall(r"\b(?:[a-z_]+\.)?(?:get_\w+|[A-Z][A-Z_]{3,})\b", t))
    want = source_of(black, fv)
    n = 0
    for fn in prog.funcs.values():
        calls = [c for c in prog.calls_in(fn) if (prog.resolve_call(c.func, fn.mod, fn) or (None, None))[1] is fv]
        removes = [c for c in prog.calls_in(fn) if (prog.dotted(c.func) or "").endswith("remove_nodes") and len(c.args) >= 2 and isinstance(c.args[1], ast.Name)]
        if not calls or not removes:
            continue
        dvar = removes[0].args[1].id
        for add in [c for c in prog.calls_in(fn) if isinstance(c.func, ast.Attribute) and c.func.attr == "add" and norm(c.func.value) == dvar]:
            n += 1
            # the new name recorded next to the deletion: <dict>[old] = <new>
            loop = parent(add)
            while loop is not None and not isinstance(loop, ast.For):
                loop = parent(loop)
            new_exprs = [norm(a.value) for a in (ast.walk(loop) if loop is not None else []) if isinstance(a, ast.Assign) and isinstance(a.targets[0], ast.Subscript)]
            # a membership test of the new name in the refusing blacklist that is known to be FALSE where the
            # definition is marked for deletion (early `continue`, nesting, or a negative guard: the path condition decides)
            ok = False
            pa = PathAnalysis(prog, fn)
            for cmp_ in walk_own(fn.node):
                if isinstance(cmp_, ast.Compare) and len(cmp_.ops) == 1 and isinstance(cmp_.ops[0], (ast.In, ast.NotIn)) \
                        and norm(cmp_.left) in new_exprs and want <= source_of(cmp_.comparators[0], fn):
                    pol = isinstance(cmp_.ops[0], ast.NotIn)
                    if pa.reached(add) and pa.holds_at(add, lambda w, c=cmp_, p_=pol: pa.formula(c, w, p_))[0]:
                        ok = True
            res.decide(ok, "R19.6", fn.loc(add), fn.fq, f"{short(add, 40)} (uses redirected to {new_exprs[:1]})",
                       f"skipped when the new name is one {fv.name} refuses ({sorted(want)})" if ok else
                       f"{fv.name} refuses to rename to names of {sorted(want)}; here the definition is marked for deletion without that test: with `def sum` and an identical "
                       "`def total`, total is deleted while its uses keep calling total")
    if n == 0:
        res.ok("R19.6", fv.loc(), fv.fq, "delete-after-rename sites", "none", trivial=True)


def _r19_5(prog: Program, res: Result) -> None:
    """Renaming is injective: the rewrites are grouped by NEW name; a group that holds nodes with two different old
    names (fooBar and FooBar both become foo_bar) would merge two variables.  Obligation: in the loop over the groups
    the yields are reached only after a test that the nodes of the group share one old name."""
    fn = prog.func("fixes", "align_variable_names_with_convention")
    groups = [l for l in walk_own(fn.node) if isinstance(l, ast.For) and isinstance(l.target, ast.Tuple) and len(l.target.elts) == 2
              and norm(l.iter).endswith(".items()") and any(isinstance(y, ast.Yield) for y in ast.walk(l))]
    if not groups:
        res.undecided("R19.5", fn.loc(), fn.fq, "groups of rewrites per new name", "grouping loop not found")
        return
    loop = groups[0]
    nodes_var = norm(loop.target.elts[1])
    ok = False
    for i in loop.body:
        if isinstance(i, ast.If) and i.body and isinstance(i.body[-1], ast.Continue):
            t = i.test
            m = re.fullmatch(r"len\((\w+)\) (>|!=|>=) (1|2)", norm(t))
            if not m:
                continue
            var = m.group(1)
            for _st, v in assignments(fn, var):
                if v is not None and isinstance(v, (ast.SetComp,)) and norm(v.generators[0].iter) == nodes_var and (".id" in norm(v.elt) or ".name" in norm(v.elt)):
                    ok = True
    res.decide(ok, "R19.5", fn.loc(loop), fn.fq, f"groups of rewrites per new name: for {norm(loop.target)} in {short(loop.iter, 40)}",
               "a group whose nodes have more than one old name is skipped" if ok else
               "nodes with different old names that map to the same new name are rewritten together: two variables (fooBar, FooBar) become one (foo_bar)")


def _r19_4(prog: Program, res: Result) -> None:
    """Use-site discovery respects shadowing by EVERY kind of parameter: where the collector of uses decides whether a
    nested function has its own binding of the name, it must look at positional-only, positional, *args, keyword-only
    and **kwargs parameters alike (a walk over the whole ast.arguments node does) - otherwise the loads of a
    keyword-only parameter are renamed together with an outer variable of the same name and captured by it."""
    fn = prog.funcs.get(("fixes", "_get_uses_of"))
    if fn is None:
        raise AnalysisError("anchor fixes._get_uses_of not found")
    ALL = {"posonlyargs", "args", "vararg", "kwonlyargs", "kwarg"}
    whole: List[ast.AST] = []
    partial: Dict[str, ast.AST] = {}
    for n in walk_own(fn.node):
        if isinstance(n, ast.Attribute) and n.attr == "args" and not (isinstance(parent(n), ast.Attribute) and parent(n).value is n):
            # `<funcdef>.args` used as a whole (argument of a walk / iteration over the arguments node)
            if isinstance(n.value, ast.Name) and not isinstance(n.value.ctx, ast.Store):
                whole.append(n)
        if isinstance(n, ast.Attribute) and n.attr in ALL and isinstance(n.value, ast.Attribute) and n.value.attr == "args":
            partial[n.attr] = n
    # through a helper that collects the names a scope binds: it must walk the scope for ast.arg (every parameter kind is an ast.arg)
    via_helper = None
    for c in prog.calls_in(fn):
        r = prog.resolve_call(c.func, fn.mod, fn)
        if r and r[0] == "fn" and c.args and isinstance(c.args[0], ast.Name):
            body = norm(r[1].node)
            if "ast.arg" in body and ".arg" in body and "walk(" in body:
                # the argument is the nested function (a loop variable over function definitions)
                lp = binding_loop_of(fn, c, c.args[0].id)
                if lp is not None and "FunctionDef" in norm(lp.iter):
                    via_helper = (c, r[1])
    if whole:
        res.ok("R19.4", fn.loc(whole[0]), fn.fq, "parameter shadowing test", f"looks at the whole arguments node ({short(parent(whole[0]), 60)}): every parameter kind is seen")
    elif partial:
        missing = sorted(ALL - set(partial))
        res.decide(not missing, "R19.4", fn.loc(next(iter(partial.values()))), fn.fq, "parameter shadowing test",
                   "all five parameter lists are consulted" if not missing else
                   f"only {sorted(partial)} are consulted; a parameter in {missing} with the name being renamed is not seen as a binding of "
                   "its own: its uses inside the function are renamed with the outer variable and captured by it")
    elif via_helper is not None:
        res.ok("R19.4", fn.loc(via_helper[0]), fn.fq, "parameter shadowing test",
               f"asks {via_helper[1].name}() for the names the nested function binds, which walks it for ast.arg: every parameter kind is seen")
    else:
        res.undecided("R19.4", fn.loc(), fn.fq, "parameter shadowing test", "no access to the parameters of nested functions found: written in an unrecognised way")


def binding_loop_of(fn: Func, at: ast.AST, var: str):
    a = parent(at)
    while a is not None and a is not fn.node:
        if isinstance(a, (ast.For, ast.AsyncFor)) and any(isinstance(x, ast.Name) and x.id == var for x in ast.walk(a.target)):
            return a
        a = parent(a)
    return None


def parent_loop(n):
    a = parent(n)
    while a is not None and not isinstance(a, ast.For):
        a = parent(a)
    return a


def _within(n, container) -> bool:
    a = n
    while a is not None:
        if a is container:
            return True
        a = parent(a)
    return False


BINDER_KINDS = {          # every way a name gets bound in a scope, and the field that holds it (reference table: Python's grammar)
    "assignment / loop / with / walrus targets": ("Name", "ctx=ast.Store"),
    "function definitions": ("FunctionDef", ".name"),
    "class definitions": ("ClassDef", ".name"),
    "parameters": ("arg", ".arg"),
    "except .. as name": ("ExceptHandler", ".name"),
    "match captures (case x / case [*rest])": ("MatchAs", ".name"),
    "match star captures": ("MatchStar", ".name"),
    "match mapping rest (case {**rest})": ("MatchMapping", ".rest"),
}


def _r19_8(prog: Program, res: Result) -> None:
    """The names a new name is tested against must be ALL names bound in the module: besides stores, definitions and parameters
    also `except E as name`, the captures of match patterns and `**rest` - these are plain strings in the tree, not Name nodes.
    `err_msg` was free for a renaming although `except ValueError as err_msg` existed in the same function: two variables
    merged.  Table check of tracing.get_defined_names against the binder kinds of the grammar."""
    fn = prog.funcs.get(("tracing", "get_defined_names"))
    if fn is None:
        raise AnalysisError("anchor tracing.get_defined_names not found")
    txt = norm(fn.node)
    for what, (cls, field) in BINDER_KINDS.items():
        ok = f"ast.{cls}" in txt and (field in txt or field.replace("ctx=ast.Store", "Store") in txt)
        res.decide(ok, "R19.8", fn.loc(), fn.fq, f"defined names include {what}",
                   f"ast.{cls}{field if field.startswith('.') else ''} is collected" if ok else
                   f"names bound through {what} (ast.{cls}) are not among the defined names: a variable can be renamed to, or a binder synthesised with, a name that is taken")


def _r19_10(prog: Program, res: Result) -> None:
    """A nested function that binds the name ITSELF - by a parameter, an assignment, a loop, an import, `except .. as`, a match
    capture - has a variable of its own by that name: none of the Names inside it are uses of the outer variable.  In the
    collector of uses, every statement that exempts names from renaming because of such a function must exempt ALL names of
    the function (`walk(<the function>, ast.Name)`) - exempting the names inside the Store node itself exempts nothing - and the
    decision must cover imports as well as the defined names (whose completeness is R19.8)."""
    fn = prog.func("fixes", "_get_uses_of")
    n = 0
    for c in walk_own(fn.node):
        if not (isinstance(c, ast.Call) and isinstance(c.func, ast.Attribute) and c.func.attr == "update" and c.args and isinstance(c.args[0], ast.Call)
                and (prog.dotted(c.args[0].func) or "").split(".")[-1] == "walk" and len(c.args[0].args) >= 2 and norm(c.args[0].args[1]) == "ast.Name"):
            continue
        n += 1
        walked = c.args[0].args[0]
        lp = binding_loop_of(fn, c, walked.id) if isinstance(walked, ast.Name) else None
        over_function = lp is not None and "FunctionDef" in norm(lp.iter)
        # the condition under which the names are exempted
        conds = []
        a, child = parent(c), c
        while a is not None and a is not fn.node:
            if isinstance(a, ast.If) and child in a.body:
                conds.append(norm(a.test))
            child, a = a, parent(a)
        cond = " and ".join(conds)
        covers = ("arg" in cond) or ("get_defined_names" in cond)
        full = "get_defined_names" in cond and ("import" in cond.lower())
        ok = over_function and covers
        res.decide(ok and (full or "ast.arg" in cond), "R19.10", fn.loc(c), fn.fq, short(c, 70),
                   "exempts every name of a function that binds the name itself" if ok else
                   (f"exempts the names inside `{norm(walked)}`, which is not the nested function: a function with a local of that name keeps its reads, which are renamed with the outer "
                    "variable and captured" if not over_function else "the exemption does not depend on how the function binds the name"))
    # the decision as a whole covers imports and all defined-name kinds
    txt = norm(fn.node)
    whole = "get_defined_names" in txt and "get_import_bound_names" in txt
    res.decide(whole, "R19.10", fn.loc(), fn.fq, "kinds of local binding that shadow",
               "defined names (R19.8) and names bound by imports" if whole else
               "a function that binds the name by an import, `except .. as` or a match capture (or an assignment, when only parameters are looked at) is not recognised as having its own variable")
    if n == 0:
        res.undecided("R19.10", fn.loc(), fn.fq, "exemption of shadowed names", "no exemption statement found")


# ------------------------------------------------------------------------------------------------ R19.11 / R19.12
SPELLING_KINDS = ("Name", "arg", "alias", "Global", "Nonlocal", "ExceptHandler", "MatchAs", "MatchStar", "MatchMapping")   # every node kind that spells a variable's name, def / class aside


def _spelling_census(prog: Program, f: Func, depth: int = 0) -> Set[str]:
    """Node kinds whose names a function takes a census of: isinstance tests against ast classes in f or in helpers it calls, provided
    the function (or the helper) walks the whole tree (ast.walk)."""
    kinds: Set[str] = set()
    for n in ast.walk(f.node):
        if isinstance(n, ast.Call) and norm(n.func) == "isinstance" and len(n.args) == 2:
            for c in (n.args[1].elts if isinstance(n.args[1], ast.Tuple) else [n.args[1]]):
                t = norm(c)
                if t.startswith("ast."):
                    kinds.add(t[4:])
    if depth < 2:
        for c in prog.calls_in(f):
            r = prog.resolve_call(c.func, f.mod, f)
            if r and r[0] == "fn" and r[1].mod.name == f.mod.name and r[1].key != f.key:
                kinds |= _spelling_census(prog, r[1], depth + 1)
    return kinds


def _census_functions(prog: Program) -> Dict[Tuple[str, str], Func]:
    """Functions that answer `which names are renamed in some places and still spelled in others`: they walk the whole tree, count
    spellings (collections.Counter) and compare the counts."""
    out = {}
    for f in prog.funcs.values():
        if f.mod.name != "fixes":
            continue
        text = norm(f.node)
        if "ast.walk(" in text and text.count("collections.Counter(") >= 2 and any(isinstance(c, ast.Compare) and isinstance(c.ops[0], (ast.NotEq, ast.Eq)) for c in ast.walk(f.node)):
            out[f.key] = f
    return out


def _r19_11(prog: Program, res: Result) -> None:
    """One variable stays one variable.  The renaming rules collect the places of a variable through their own idea of scopes
    (uses found by _get_uses_of, assignments found by iter_assignments).  Whatever that idea misses - a re-binding in an if,
    a loop target, a read in a closure above the assignment, a lambda parameter or comprehension target of the same name -
    stays behind under the old name, and the program then has two variables where it had one (or one where it had two).
    Obligation: where renamings become rewrites, the old name was tested against the names that are renamed in some places
    and still spelled in others - a census over the WHOLE tree of every node kind that spells a variable."""
    from ..pathcond import PathAnalysis, plain
    census = _census_functions(prog)
    for key, f in census.items():
        kinds = _spelling_census(prog, f)
        missing = [k for k in SPELLING_KINDS if k not in kinds]
        res.decide(not missing, "R19.11", f.loc(), f.fq, f"{f.node.name}() # census of the places that spell a name",
                   f"counts {len(SPELLING_KINDS)} node kinds: {', '.join(SPELLING_KINDS)}" if not missing else
                   f"the census does not count {missing}: a name that is left behind in such a place does not stop the renaming of the other places")
        # what an import spells is the name it BINDS: `import a.b` spells `a` (the first component), `import a.b as c` spells `c`
        alias_branches = []
        todo_f = [f] + [r[1] for c in prog.calls_in(f) for r in [prog.resolve_call(c.func, f.mod, f)] if r and r[0] == "fn" and r[1].mod.name == f.mod.name]
        for g in todo_f:
            for b in walk_own(g.node):
                if isinstance(b, ast.If) and "ast.alias" in norm(b.test) and "isinstance(" in norm(b.test):
                    alias_branches.append((g, b))
        for g, b in alias_branches:
            text = " ".join(norm(x) for x in b.body)
            reduced = ".split('.')[0]" in text or ".partition('.')[0]" in text
            res.decide(reduced, "R19.11", g.loc(b), g.fq, f"{short(b.body[0], 70)} # the name an import spells",
                       "the first component of a dotted module name: what the import binds" if reduced else
                       "a dotted import without alias is spelled as `a.b`, which no variable equals: `import a.b` next to an assignment `a = None` is not counted as a "
                       "place that spells `a`, the variable is renamed and the import keeps binding the old name")
    sites = (("fixes", "align_variable_names_with_convention", "yield"), ("fixes", "_fix_variable_names", "append"))
    for m, q, how in sites:
        fn = prog.funcs.get((m, q))
        if fn is None:
            raise AnalysisError(f"anchor {m}.{q} not found")
        # locals that hold the answer of a census function
        holders = set()
        from ..defuse import bindings
        for nm, defs in bindings(fn).items():
            for _s, v in defs:
                if v is None:
                    continue
                for c in ast.walk(v):
                    if isinstance(c, ast.Call):
                        r = prog.resolve_call(c.func, fn.mod, fn)
                        if r and r[0] == "fn" and r[1].key in census:
                            holders.add(nm)
        if how == "yield":
            points = [y for y in walk_own(fn.node) if isinstance(y, ast.Yield)]
        else:
            # the rewrites of Name nodes: `X.append((start, end, new))` reached under isinstance(node, ast.Name)
            pa0 = PathAnalysis(prog, fn)
            points = [c for c in prog.calls_in(fn) if isinstance(c.func, ast.Attribute) and c.func.attr == "append" and c.args
                      and isinstance(c.args[0], ast.Tuple) and len(c.args[0].elts) == 3
                      and (pa0.worlds_at(c) or None) and all(any(f_[0] == "lit" and f_[2] and "isinstance(" in plain(f_[1]) and "ast.Name" in plain(f_[1]) for f_ in w.facts)
                                                                for w in pa0.worlds_at(c))]
        if not points:
            res.undecided("R19.11", fn.loc(), fn.fq, "places where renamings become rewrites", "none found")
            continue
        pa = PathAnalysis(prog, fn)
        ok = bool(holders)
        for p_ in points:
            worlds = pa.worlds_at(p_)
            # `old & X` / `old in X` false, or `old.isdisjoint(X)` true
            good = bool(worlds) and all(any(f_[0] == "lit" and (f_[2] == ("isdisjoint(" in plain(f_[1]))) and any(_word_in(h, plain(f_[1])) for h in holders) for f_ in w.facts)
                                        for w in worlds)
            ok = ok and good
        # the census is taken over THE renamings that are applied: an argument of the census call that is re-bound between the
        # call and the rewrites (filtered, merged) makes the census speak about another set of places
        stale = None
        for c in prog.calls_in(fn):
            r = prog.resolve_call(c.func, fn.mod, fn)
            if not (r and r[0] == "fn" and r[1].key in census):
                continue
            for a in c.args + [k.value for k in c.keywords]:
                if not (isinstance(a, ast.Name) and len(bindings(fn).get(a.id, [])) > 1):
                    continue
                at_call = {w.token(a.id) for w in pa.worlds_at(c)}
                at_points = {w.token(a.id) for p_ in points for w in pa.worlds_at(p_)}
                if at_call and at_points and not (at_call & at_points):
                    stale = (c, a.id)
        if stale is not None:
            res.bad("R19.11", fn.loc(stale[0]), fn.fq, f"{short(stale[0], 70)} # census of the places that spell a name",
                    f"the census is taken over `{stale[1]}` as it is BEFORE it is re-bound; the rewrites are built from the later value: places that are dropped in between "
                    "(two candidate names, a blacklisted candidate) count as renamed, so a name that is renamed in some places only is no longer left alone")
        res.decide(ok, "R19.11", fn.loc(points[0]), fn.fq, "a name is renamed everywhere or nowhere",
                   f"rewrites are reached only after the old name was tested against the names still spelled elsewhere ({sorted(holders)})" if ok else
                   "renamings become rewrites without a test that no place spelling the old name is left behind: a re-binding in an `if`, a loop target, a read in "
                   "a closure above the assignment, a lambda parameter keep the old name - one variable becomes two (`last_seen = None` / `for lastSeen in xs`)")


# ------------------------------------------------------------------------------------------------ R19.13
def _r19_13(prog: Program, res: Result) -> None:
    """Uses of a removed duplicate are redirected to the function that stays: the two must be the same function up to the names
    they bind THEMSELVES.  The equivalence key (abstractions.hash_node) replaces every name by a counter unless it is in the
    collection of names that keep their spelling, and hashes the str / int fields of the nodes.  Obligations: (a) where the
    duplicate remover computes the key, that collection contains the builtins, the names the module defines and the names
    its imports bind (`len(x)` is not `sum(x)`, `helper_a(x)` is not `helper_b(x)`); (b) the key function hashes the value of
    every Constant whatever its type (`return 1.5` is not `return 2.5`: a filter for str / int fields lets float, bytes,
    complex, None through unhashed)."""
    fn = prog.funcs.get(("fixes", "remove_duplicate_functions"))
    key_fn = prog.funcs.get(("abstractions", "hash_node"))
    if fn is None or key_fn is None:
        raise AnalysisError("anchors fixes.remove_duplicate_functions / abstractions.hash_node not found")
    calls = [c for c in prog.calls_in(fn) if (lambda r: r and r[0] == "fn" and r[1].key == key_fn.key)(prog.resolve_call(c.func, fn.mod, fn))]
    if not calls:
        res.undecided("R19.13", fn.loc(), fn.fq, "equivalence key of duplicate functions", "no call of abstractions.hash_node")
    for c in calls:
        kept = call_arg(c, 1, key_fn.posparams[1]) if len(key_fn.posparams) > 1 else None
        if kept is None:
            res.ok("R19.13", fn.loc(c), fn.fq, f"{short(c, 60)} # names that keep their spelling", "default: every name keeps its spelling")
            continue
        t = _expand(prog, fn, kept)
        for k_, what in (("BUILTIN_FUNCTIONS", "the builtins"), ("get_defined_names", "the names the module defines")):
            res.decide(k_ in t, "R19.13", fn.loc(c), fn.fq, f"{short(c, 60)} # names that keep their spelling: {what}",
                       "component present" if k_ in t else
                       f"{what} are replaced by counters like local variables: two functions that differ only in WHICH {'builtin' if 'BUILTIN' in k_ else 'function or global'} they use "
                       "get the same key, one is deleted and its uses are redirected to the other (`def first(x): return len(x)` / `def second(x): return sum(x)`)")
        declared = "ast.Global" in t and "ast.Nonlocal" in t
        res.decide(declared, "R19.13", fn.loc(c), fn.fq, f"{short(c, 60)} # names that keep their spelling: names declared global / nonlocal",
                   "component present" if declared else
                   "a name the function declares global (or nonlocal) is stored to like a local and replaced by a counter: `def set_a(): global a; a = 1` and "
                   "`def set_b(): global b; b = 1` get the same key, set_b is deleted, its calls are redirected to set_a and b is never set")
        present, _red = _import_component(prog, fn, kept)
        res.decide(present, "R19.13", fn.loc(c), fn.fq, f"{short(c, 60)} # names that keep their spelling: imported names",
                   "component present" if present else "imported names are replaced by counters: `os.getcwd()` and `sys.getcwd()` get the same key")
    # (b) constants
    const_branch = False
    for n in walk_own(key_fn.node):
        if isinstance(n, ast.If):
            tt = norm(n.test).replace(" ", "")
            if "isinstance(" in tt and "ast.Constant" in tt and any(".value" in norm(x) for b in n.body for x in ast.walk(b) if isinstance(x, ast.Attribute)):
                const_branch = True
    generic_ok = False
    for n in walk_own(key_fn.node):
        if isinstance(n, ast.Call) and isinstance(n.func, ast.Name) and n.func.id == "isinstance" and len(n.args) == 2 and isinstance(n.args[1], ast.Tuple):
            kinds = {norm(e) for e in n.args[1].elts}
            if {"str", "int"} <= kinds and {"float", "bytes", "complex"} <= kinds:
                generic_ok = True
    res.decide(const_branch or generic_ok, "R19.13", key_fn.loc(), key_fn.fq, "hash_node() # constants in the equivalence key",
               "the value of a Constant is hashed whatever its type" if const_branch or generic_ok else
               "only str and int fields of a node are hashed: float, bytes, complex, None constants all look alike - `return 1.5` and `return 2.5` are merged")


# ------------------------------------------------------------------------------------------------ R19.14
def _r19_14(prog: Program, res: Result) -> None:
    """The blacklists of the renaming rules contain "the builtins" (R19.2 checks that the component is there).  WHAT the table holds is
    decided here: every public name of the builtins module is a name a program can read - not only the functions: `NotImplemented`,
    `Ellipsis`, `None`, `True`, `False`, `__debug__` are values.  The table (evaluated by the constant evaluator of sa/model.py with the
    checker's own interpreter as universe) must hold every name of dir(builtins) that does not start with an underscore."""
    import builtins as _b
    try:
        table = set(prog.const("constants", "BUILTIN_FUNCTIONS"))
    except Exception as error:
        res.undecided("R19.14", "pyrefact/constants.py:0", "constants.BUILTIN_FUNCTIONS", "table of builtin names", f"not resolvable: {error}")
        return
    want = {n for n in dir(_b) if not n.startswith("_")}
    missing = sorted(want - table)
    res.decide(not missing, "R19.14", "pyrefact/constants.py:0", "constants.BUILTIN_FUNCTIONS", "table of builtin names # every public name of builtins",
               f"all {len(want)} public names of builtins" if not missing else
               f"{missing[:8]} are missing: a class or variable can be renamed to such a name and shadows the builtin where the scope reads it (`return NotImplemented`, `x is Ellipsis`)")


# ------------------------------------------------------------------------------------------------ R19.15
def _r19_15(prog: Program, res: Result) -> None:
    """"The names the module defines" (a component of every blacklist, R19.2, and of the own-variable test of the use-site collector)
    include the parameters of all five kinds: positional-only, positional, keyword-only, *args and **kwargs.  The producer counts
    `ast.arg` nodes wherever they stand (a walk for ast.arg), or reads all five fields of `ast.arguments`."""
    fn = prog.funcs.get(("tracing", "get_defined_names"))
    if fn is None:
        raise AnalysisError("anchor tracing.get_defined_names not found")
    text = norm(fn.node)
    by_node = "ast.arg)" in text.replace(" ", "") or "ast.arg," in text.replace(" ", "")
    fields = [f_ for f_ in ("posonlyargs", "args", "kwonlyargs", "vararg", "kwarg") if f".{f_}" in text]
    ok = by_node or len(fields) == 5
    res.decide(ok, "R19.15", fn.loc(), fn.fq, "get_defined_names() # parameters of every kind are defined names",
               "counts ast.arg nodes of every kind" if by_node else "reads all five fields of ast.arguments" if ok else
               f"reads {fields} of ast.arguments only: {sorted(set(['posonlyargs', 'args', 'kwonlyargs', 'vararg', 'kwarg']) - set(fields))} are no `defined names`, a variable "
               "is renamed to the name of a *args / **kwargs parameter of its own scope and the two become one variable")


def _renamer_classes(prog: Program) -> Dict[str, Tuple[int, str]]:
    """NodeTransformer classes whose visit_Name answers `ast.Name(id=self.<attr>)` for the names equal to another attribute:
    class name -> (position of the constructor parameter that holds the NEW name, that parameter's name)."""
    out: Dict[str, Tuple[int, str]] = {}
    for m in prog.modules.values():
        for cls in ast.walk(m.tree):
            if not (isinstance(cls, ast.ClassDef) and any(norm(b).endswith("NodeTransformer") for b in cls.bases)):
                continue
            visit = next((f for f in cls.body if isinstance(f, ast.FunctionDef) and f.name == "visit_Name"), None)
            init = next((f for f in cls.body if isinstance(f, ast.FunctionDef) and f.name == "__init__"), None)
            if visit is None or init is None:
                continue
            new_attr = None
            for c in ast.walk(visit):
                if isinstance(c, ast.Call) and norm(c.func) == "ast.Name":
                    v = next((k.value for k in c.keywords if k.arg == "id"), c.args[0] if c.args else None)
                    if isinstance(v, ast.Attribute) and isinstance(v.value, ast.Name) and v.value.id == "self":
                        new_attr = v.attr
            if new_attr is None:
                continue
            params = [a.arg for a in init.args.args][1:]
            for st in ast.walk(init):
                if isinstance(st, ast.Assign) and len(st.targets) == 1 and isinstance(st.targets[0], ast.Attribute) and st.targets[0].attr == new_attr \
                        and isinstance(st.value, ast.Name) and st.value.id in params:
                    out[cls.name] = (params.index(st.value.id), st.value.id)
    return out


def _r19_16(prog: Program, res: Result) -> None:
    """A transformer that re-spells every Name `a` of a subtree as `b` merges the two variables wherever `b` is already read or bound in
    that subtree (`[y for y in [x for x in data if x < y]]`: the inner `y` is the enclosing function's).  Every construction of such a
    renamer is preceded, in the same loop body or function, by a refusal (`if ..: continue / return`) whose test searches THAT subtree (walk) for the new name."""
    renamers = _renamer_classes(prog)
    n = 0
    for fn in prog.funcs.values():
        for c in prog.calls_in(fn):
            if not (isinstance(c.func, ast.Name) and c.func.id in renamers):
                continue
            pos, pname = renamers[c.func.id]
            new = c.args[pos] if len(c.args) > pos else next((k.value for k in c.keywords if k.arg == pname), None)
            if new is None:
                continue
            n += 1
            new_text = norm(new)
            # the tree the renamer is applied to: <renamer>.visit(T) / <variable bound to it>.visit(T), copies aside
            holder = parent(c)
            names = {t.id for t in holder.targets if isinstance(t, ast.Name)} if isinstance(holder, ast.Assign) else set()
            visited = set()
            for v in walk_own(fn.node):
                if isinstance(v, ast.Call) and isinstance(v.func, ast.Attribute) and v.func.attr == "visit" and v.args \
                        and (v.func.value is c or (isinstance(v.func.value, ast.Name) and v.func.value.id in names)):
                    t = v.args[0]
                    while isinstance(t, ast.Call) and norm(t.func).split(".")[-1] in ("deepcopy", "copy") and t.args:
                        t = t.args[0]
                    visited.add(norm(t))

            def searches(test: ast.AST) -> bool:
                for x in ast.walk(test):
                    if isinstance(x, ast.Call) and norm(x.func).split(".")[-1] in ("walk", "walk_wildcard") and len(x.args) >= 2 \
                            and norm(x.args[0]) in visited and new_text in norm(x.args[1]):
                        return True
                return False
            old_text = norm(c.args[1 - pos]) if len(c.args) == 2 and pos in (0, 1) else None
            pa = PathAnalysis(prog, fn)

            def lit_ok(fct) -> Optional[str]:
                if fct[0] != "lit":
                    return None
                text = plain(fct[1])
                try:
                    t = ast.parse(text, mode="eval").body
                except SyntaxError:
                    return None
                if not fct[2] and searches(t):
                    return text                                   # searched, not found
                if isinstance(t, ast.Compare) and len(t.ops) == 1 and old_text is not None and {norm(t.left), norm(t.comparators[0])} == {old_text, new_text} \
                        and ((isinstance(t.ops[0], ast.Eq) and fct[2]) or (isinstance(t.ops[0], ast.NotEq) and not fct[2])):
                    return text                                   # old and new spelling are the same: nothing is re-spelled
                if isinstance(t, ast.Call) and isinstance(t.func, ast.Name) and t.func.id in ("eq", "ne") and len(t.args) == 2 and old_text is not None \
                        and {norm(t.args[0]), norm(t.args[1])} == {old_text, new_text} and (t.func.id == "eq") == bool(fct[2]):
                    return text                                   # the same, in the normal form of sa/pathcond.py
                return None

            def world_ok(w) -> Optional[str]:
                for fct in w.facts:
                    r = lit_ok(fct)
                    if r:
                        return r
                    if fct[0] == "or" and all(lit_ok(m) for m in fct[1]):
                        return " or ".join(lit_ok(m) for m in fct[1])
                return None
            verdicts = [world_ok(w) for w in pa.worlds_at(c)]
            guard = sorted(set(verdicts)) if verdicts and all(verdicts) else None
            res.decide(guard is not None, "R19.16", fn.loc(c), fn.fq, f"{short(c, 70)} # every name of a subtree re-spelled",
                       f"reached only where {guard}: the subtree does not hold the new name, or nothing is re-spelled" if guard is not None else
                       f"the names of a subtree are re-spelled as `{new_text}` and nothing above searches the subtree for a name spelled that way already: "
                       "`[y for y in [x for x in data if x < y]]` became `[y for y in data if y < y]`, the enclosing `y` is captured")
    if n == 0:
        res.undecided("R19.16", "pyrefact/fixes.py:0", "fixes", "constructions of a renaming transformer", "none found (merge_nested_comprehensions is expected)")


def _r19_17(prog: Program, res: Result) -> None:
    """A table keyed by (class, member) says which member of WHICH class gets a new name.  Inside the loop over the classes, a projection
    of that table that throws the class component away (`{member: new for (_, member), new in table.items()}`) makes the entry of one
    class apply to the members of every other class of that spelling: `self.helper` of class A is redirected to the extracted
    `B.helper`.  Instance: every comprehension over the items of a dict whose keys are built as `(<loop variable>.name, ..)` in a loop
    over definitions, when the comprehension stands in that loop; obligation: the class component is bound (not `_`) and compared with
    the loop variable's name in a condition of the comprehension."""
    n = 0
    for fn in prog.funcs.values():
        if not fn.is_fix:
            continue
        # tables filled as T[(X.name, ..)] = .. inside `for X in ..`
        tables: Dict[str, ast.For] = {}
        for lp in walk_own(fn.node):
            if not (isinstance(lp, ast.For) and isinstance(lp.target, ast.Name)):
                continue
            for st in ast.walk(lp):
                if isinstance(st, ast.Assign) and len(st.targets) == 1 and isinstance(st.targets[0], ast.Subscript) and isinstance(st.targets[0].value, ast.Name) \
                        and isinstance(st.targets[0].slice, ast.Tuple) and st.targets[0].slice.elts \
                        and norm(st.targets[0].slice.elts[0]) == f"{lp.target.id}.name":
                    tables.setdefault(st.targets[0].value.id, lp)
        for tname, lp in tables.items():
            for comp in ast.walk(lp):
                if not isinstance(comp, (ast.DictComp, ast.SetComp, ast.ListComp, ast.GeneratorExp)):
                    continue
                for g in comp.generators:
                    it = g.iter
                    over_items = isinstance(it, ast.Call) and isinstance(it.func, ast.Attribute) and it.func.attr == "items" and isinstance(it.func.value, ast.Name) and it.func.value.id == tname
                    over_keys = (isinstance(it, ast.Name) and it.id == tname) or (isinstance(it, ast.Call) and isinstance(it.func, ast.Attribute) and it.func.attr == "keys"
                                                                                 and isinstance(it.func.value, ast.Name) and it.func.value.id == tname)
                    if not (over_items or over_keys):
                        continue
                    key = g.target.elts[0] if over_items and isinstance(g.target, ast.Tuple) and g.target.elts else g.target
                    if not (isinstance(key, ast.Tuple) and key.elts):
                        continue
                    n += 1
                    first = key.elts[0]
                    want = f"{lp.target.id}.name"
                    ok = isinstance(first, ast.Name) and first.id != "_" and any(
                        isinstance(c, ast.Compare) and len(c.ops) == 1 and isinstance(c.ops[0], ast.Eq) and {norm(c.left), norm(c.comparators[0])} == {first.id, want}
                        for cond in g.ifs for c in ast.walk(cond))
                    res.decide(ok, "R19.17", fn.loc(comp), fn.fq, f"{short(comp, 80)} # a (class, member) table read inside the loop over the classes",
                               f"restricted to the entries of `{want}`" if ok else
                               f"the class component of the keys of `{tname}` is thrown away inside the loop over the classes: the new name of one class's member is applied to the "
                               f"member of that spelling in every class handled later (`self.helper()` of class A redirected to the extracted static method of class B)")
    if n == 0:
        res.undecided("R19.17", "pyrefact/object_oriented.py:0", "object_oriented", "projections of a (class, member) table inside the loop over the classes",
                      "none found (move_staticmethod_static_scope is expected)")


def _word_in(word: str, text: str) -> bool:
    import re as _re
    return _re.search(rf"(?<![\w.]){_re.escape(word)}(?![\w])", text) is not None


def _enclosing_if_chain(n: ast.AST) -> ast.AST:
    a = parent(n)
    last = n
    while a is not None and not isinstance(a, (ast.FunctionDef, ast.AsyncFunctionDef, ast.For, ast.While)):
        if isinstance(a, ast.If):
            last = a
        a = parent(a)
    return last.test if isinstance(last, ast.If) else last


def _r19_12(prog: Program, res: Result) -> None:
    """Uses of a removed duplicate are redirected to the function that stays.  Where the NAME of that function is bound to
    something else - a parameter, a local, a loop target of an enclosing function - the redirected use means that other
    thing (capture).  Obligation: a redirection is recorded only when a search of the whole tree for other bindings of the
    replacement's name (every spelling kind, reads aside) came back empty."""
    from ..pathcond import PathAnalysis, plain
    fn = prog.funcs.get(("fixes", "remove_duplicate_functions"))
    if fn is None:
        raise AnalysisError("anchor fixes.remove_duplicate_functions not found")
    sites = [a for a in walk_own(fn.node) if isinstance(a, ast.Assign) and isinstance(a.targets[0], ast.Subscript) and isinstance(a.value, ast.Attribute)
             and a.value.attr == "name" and isinstance(a.targets[0].slice, ast.Attribute) and a.targets[0].slice.attr == "name"]
    if not sites:
        res.undecided("R19.12", fn.loc(), fn.fq, "redirection of a duplicate's name", "site `renamings[<duplicate>.name] = <replacement>.name` not found")
        return
    pa = PathAnalysis(prog, fn)
    for a in sites:
        repl = norm(a.value)
        worlds = pa.worlds_at(a)
        def searched(f_) -> bool:
            if not (f_[0] == "lit" and not f_[2]):
                return False
            t = plain(f_[1])
            return t.startswith("any(") and repl in t and "ast.walk(" in t and ("ast.Load" in t or "ctx" in t)
        ok = bool(worlds) and all(any(searched(f_) for f_ in w.facts) for w in worlds)
        kinds_ok = True
        if ok:
            # the search uses a census of all spelling kinds
            kinds = set()
            for c in prog.calls_in(fn):
                r = prog.resolve_call(c.func, fn.mod, fn)
                if r and r[0] == "fn":
                    kinds |= _spelling_census(prog, r[1], 1) if "ast." in norm(r[1].node) and len(r[1].posparams) == 1 else set()
            kinds_ok = all(k in kinds for k in SPELLING_KINDS)
        res.decide(ok and kinds_ok, "R19.12", fn.loc(a), fn.fq, f"{short(a, 60)} # uses of a duplicate are redirected",
                   "only when the name of the function that stays is bound nowhere else in the module" if ok and kinds_ok else
                   "the uses of a duplicate are redirected to the name of the function that stays without a search for other bindings of that name: inside "
                   "`def apply_twice(increment, value)` the redirected `increment(..)` calls the parameter")



def _r19_9(prog: Program, res: Result) -> None:
    """`global hitCount` / `nonlocal total` name a variable by a plain STRING, which no renaming touches.  Renaming the Name nodes of
    such a variable splits it: the module-level `HIT_COUNT`, `global hitCount` in the function, and the assignment there becomes a
    new local.  Obligation: every yield of the convention-renaming rule is reached only under the negative outcome of a test of
    the old name(s) against a collection built from the ast.Global and ast.Nonlocal statements of the module."""
    from ..defuse import bindings
    from ..pathcond import PathAnalysis, plain
    fn = prog.func("fixes", "align_variable_names_with_convention")
    declared = set()
    for nm, defs in bindings(fn).items():
        for _s, v in defs:
            if v is not None and "ast.Global" in norm(v) and "ast.Nonlocal" in norm(v) and ".names" in norm(v):
                declared.add(nm)
    ys = [y for y in walk_own(fn.node) if isinstance(y, ast.Yield)]
    if not ys:
        raise AnalysisError("align_variable_names_with_convention has no yield")
    pa = PathAnalysis(prog, fn)
    ok = bool(declared)
    for y in ys:
        worlds = pa.worlds_at(y)
        good = bool(worlds) and all(any(f[0] == "lit" and not f[2] and any(d in plain(f[1]) for d in declared) for f in w.facts) for w in worlds)
        ok = ok and good
    res.decide(ok, "R19.9", fn.loc(ys[0]), fn.fq, "names declared global / nonlocal",
               "a name that occurs in a global / nonlocal statement is never renamed" if ok else
               "renamings are yielded without testing the old name against the names of the global / nonlocal statements: those are plain strings that stay, "
               "so `hitCount` becomes `HIT_COUNT` at module level while the function still says `global hitCount` and binds a new local")


def _r19_7(prog: Program, res: Result) -> None:
    """Two small agreement rules around 'which references belong to the definition that is renamed or moved'.
    (a) KIND of name: a set that is consulted with the name of a definition (`funcdef.name in S`) to decide whether its
    references can all be rewritten must be fed names of that kind - the attribute of an access (`node.attr`), a
    definition name - never the RECEIVER of an attribute access (`node.value.id`): in `shop.with_tax(1)` the receiver `shop`
    says nothing about which member is used.  (b) CONTAINMENT by line numbers: a node on the last line of a block has
    lineno == block.end_lineno, so `block.lineno < node.lineno < block.end_lineno` misses it - the upper comparison
    against an end_lineno must not be strict."""
    from ..defuse import bindings
    n = 0
    for fn in prog.funcs.values():
        # (a)
        consulted = {}
        for c in walk_own(fn.node):
            if isinstance(c, ast.Compare) and len(c.ops) == 1 and isinstance(c.ops[0], (ast.In, ast.NotIn)) and isinstance(c.comparators[0], ast.Name) \
                    and isinstance(c.left, ast.Attribute) and c.left.attr == "name":
                consulted.setdefault(c.comparators[0].id, c)
        for c in walk_own(fn.node):
            if isinstance(c, ast.Call) and isinstance(c.func, ast.Attribute) and c.func.attr == "add" and isinstance(c.func.value, ast.Name) \
                    and c.func.value.id in consulted and c.args:
                e = c.args[0]
                n += 1
                receiver = isinstance(e, ast.Attribute) and e.attr == "id" and isinstance(e.value, ast.Attribute) and e.value.attr == "value"
                res.decide(not receiver, "R19.7", fn.loc(c), fn.fq, short(c, 70),
                           f"feeds `{norm(e)}` to a set consulted with a definition name" if not receiver else
                           f"`{norm(e)}` is the RECEIVER of an attribute access, but `{c.func.value.id}` is consulted with `{norm(consulted[c.func.value.id].left)}`: "
                           "the member that is accessed (`.attr`) is what protects a definition, the receiver variable protects nothing - the method is moved / renamed and "
                           "`obj.method` is left behind")
        # (b)
        for c in walk_own(fn.node):
            if isinstance(c, ast.Compare):
                operands = [c.left] + list(c.comparators)
                for i, op in enumerate(c.ops):
                    l, r = operands[i], operands[i + 1]
                    for small, big, strict in ((l, r, isinstance(op, ast.Lt)), (r, l, isinstance(op, ast.Gt))):
                        if isinstance(big, ast.Attribute) and big.attr == "end_lineno" and isinstance(small, ast.Attribute) and small.attr in ("lineno", "end_lineno") \
                                and isinstance(op, (ast.Lt, ast.LtE, ast.Gt, ast.GtE)) and (isinstance(op, (ast.Lt, ast.LtE)) if small is l else isinstance(op, (ast.Gt, ast.GtE))):
                            n += 1
                            res.decide(not strict, "R19.7", fn.loc(c), fn.fq, short(c, 70),
                                       "the last line of the block counts as inside" if not strict else
                                       f"`{norm(small)} < {norm(big)}` excludes a node on the LAST line of the block: a reference there is not rewritten while the definition is moved")
    if n == 0:
        raise AnalysisError("R19.7: no instance found (anchor lost)")


# ---------------------------------------------------------------------------------------------- self-test
from ..selftest import Variant  # noqa: E402

VARIANTS: List[Variant] = [
    Variant("moved-names-of-every-class-applied-to-each", "FIRE", "object_oriented",
            "            for ((class_name, fname), name) in name_replacements.items()\n            if class_name == classdef.name\n", "            for ((_, fname), name) in name_replacements.items()\n", "R19.17"),
    Variant("moved-names-compared-the-other-way-round", "SILENT", "object_oriented",
            "            if class_name == classdef.name\n", "            if classdef.name == class_name\n"),
    Variant("comprehensions-merged-without-looking-for-the-new-name", "FIRE", "fixes",
            "                if target_name_inner != comprehension.target.id and any(\n                    core.walk(comprehension.iter, ast.Name(id=comprehension.target.id))\n                ):\n                    new_generators.append(comprehension)\n                    continue\n", "", "R19.16"),
    Variant("new-name-looked-for-in-the-element-only", "FIRE", "fixes",
            "                    core.walk(comprehension.iter, ast.Name(id=comprehension.target.id))\n                ):", "                    core.walk(comprehension.iter.elt, ast.Name(id=comprehension.target.id))\n                ):", "R19.16"),
    Variant("new-name-looked-for-through-a-local", "SILENT", "fixes",
            "                if target_name_inner != comprehension.target.id and any(\n                    core.walk(comprehension.iter, ast.Name(id=comprehension.target.id))\n                ):",
            "                if any(core.walk(comprehension.iter, ast.Name(id=comprehension.target.id))) and target_name_inner != comprehension.target.id:"),
    Variant("declared-global-names-anonymised-in-the-duplicate-key", "FIRE", "fixes", "            frozenset(preserve) | declared_names | (names_with_a_meaning - own_names)\n", "            frozenset(preserve) | (names_with_a_meaning - own_names)\n", "R19.13"),
    Variant("duplicates-keyed-with-builtins-anonymised", "FIRE", "fixes", "        | tracing.get_import_bound_names(root)\n        | constants.BUILTIN_FUNCTIONS\n    )\n    for node in core.filter_nodes(root.body, ast.FunctionDef):",
            "        | tracing.get_import_bound_names(root)\n    )\n    for node in core.filter_nodes(root.body, ast.FunctionDef):", "R19.13"),
    Variant("duplicates-keyed-by-the-preserve-set-only", "FIRE", "fixes", "        function_defs[abstractions.hash_node(node, kept_names)].add(node)", "        function_defs[abstractions.hash_node(node, preserve)].add(node)", "R19.13"),
    Variant("constants-hashed-through-the-str-int-filter-only", "FIRE", "abstractions", "        elif isinstance(child, ast.Constant):\n            things_to_hash.append((type(child.value), repr(child.value)))  # 1, 1.0 and True differ\n", "", "R19.13"),
    Variant("constants-hashed-by-a-wider-field-filter", "SILENT", "abstractions", "        elif isinstance(child, ast.Constant):\n            things_to_hash.append((type(child.value), repr(child.value)))  # 1, 1.0 and True differ\n", "",
            extra=[("abstractions", "                if isinstance(value, (str, int))\n                if key not in", "                if isinstance(value, (str, int, float, bytes, complex, type(None), type(...)))\n                if key not in")]),
    Variant("census-taken-before-the-renamings-are-filtered", "FIRE", "fixes", '    renamings = {\n        node: list(substitutes)[0]\n        for node, substitutes in renamings.items()\n        if len(substitutes) == 1 and blacklisted_names.isdisjoint(substitutes)\n    }\n', "    names_left_alone = _names_spelled_elsewhere(ast_tree, renamings)\n" + '    renamings = {\n        node: list(substitutes)[0]\n        for node, substitutes in renamings.items()\n        if len(substitutes) == 1 and blacklisted_names.isdisjoint(substitutes)\n    }\n', "R19.11",
            extra=[("fixes", '    names_left_alone = _names_spelled_elsewhere(ast_tree, renamings)\n    transaction = 0\n', "    transaction = 0\n")]),
    Variant("filtered-renamings-get-a-name-of-their-own", "SILENT", "fixes", '    renamings = {\n        node: list(substitutes)[0]\n        for node, substitutes in renamings.items()\n        if len(substitutes) == 1 and blacklisted_names.isdisjoint(substitutes)\n    }\n', '    renamings = {\n        node: list(substitutes)[0]\n        for node, substitutes in renamings.items()\n        if len(substitutes) == 1 and blacklisted_names.isdisjoint(substitutes)\n    }\n'.replace("    renamings = {", "    candidate_renamings, renamings = renamings, {", 1).replace("in renamings.items()", "in candidate_renamings.items()")),
    Variant("convention-renaming-without-the-census", "FIRE", "fixes", "        if old_names & names_left_alone:\n            continue  # One variable would become two, or two variables one\n", "", "R19.11"),
    Variant("redirection-without-the-census", "FIRE", "fixes", "            if node.id != substitute and node.id not in preserve | names_left_alone:", "            if node.id != substitute and node.id not in preserve:", "R19.11"),
    Variant("census-forgets-parameters", "FIRE", "fixes", "    if isinstance(node, ast.arg):\n        return [node.arg]\n    if isinstance(node, ast.alias):", "    if isinstance(node, ast.alias):", "R19.11"),
    Variant("census-forgets-except-and-match-names", "FIRE", "fixes", "    if isinstance(node, (ast.ExceptHandler, ast.MatchAs, ast.MatchStar)):\n        return [node.name] if node.name else []\n", "", "R19.11"),
    Variant("replacement-name-bound-elsewhere-not-searched", "FIRE", "fixes", "        if any(\n            replacement.name in _spelled_names(node)\n            for node in ast.walk(root)\n            if not (isinstance(node, ast.Name) and isinstance(node.ctx, ast.Load))\n        ):\n            continue  # Where its name is bound to something else, e.g. a parameter, a use means that\n", "", "R19.12"),
    Variant("census-tested-by-set-difference", "SILENT", "fixes", "        if old_names & names_left_alone:\n            continue  # One variable would become two, or two variables one\n", "        if not old_names.isdisjoint(names_left_alone):\n            continue\n", "R19.11"),
    Variant("shadowing-exempts-the-store-node-only", "FIRE", "fixes",
            "        if name in tracing.get_defined_names(funcdef) | tracing.get_import_bound_names(funcdef):\n            blacklisted_names.update(core.walk(funcdef, ast.Name))\n",
            "        if any(core.walk(funcdef.args, ast.arg(arg=name))):\n            blacklisted_names.update(core.walk(funcdef, ast.Name))\n        for child in core.walk(funcdef, ast.Name(ctx=ast.Store, id=name)):\n            blacklisted_names.update(core.walk(child, ast.Name))\n", "R19.10"),
    Variant("declared-names-renamed", "FIRE", "fixes", "        if old_names & declared_names:\n            continue  # \"global hitCount\" would no longer be about the renamed variable\n", "", "R19.9"),
    Variant("except-as-names-not-defined-names", "FIRE", "tracing", "        | {node.name for node in core.walk(root, ast.ExceptHandler(name=str))}\n", "", "R19.8"),
    Variant("blacklist-of-dotted-import-names", "FIRE", "fixes",
            "    return (\n        tracing.get_import_bound_names(ast_tree)\n        | constants.BUILTIN_FUNCTIONS", "    return (\n        tracing.get_imported_names(ast_tree)\n        | constants.BUILTIN_FUNCTIONS", "R19.2"),
    Variant("bound-import-names-computed-in-place", "SILENT", "fixes",
            "    return (\n        tracing.get_import_bound_names(ast_tree)\n        | constants.BUILTIN_FUNCTIONS", "    return (\n        {name.split(\".\")[0] for name in tracing.get_imported_names(ast_tree)}\n        | constants.BUILTIN_FUNCTIONS"),
    Variant("receiver-recorded-instead-of-member", "FIRE", "object_oriented", "                attributes_to_preserve.add(node.attr)  # x.f() may be a call of any method named f", "                attributes_to_preserve.add(node.value.id)", "R19.7"),
    Variant("last-line-of-class-excluded", "FIRE", "object_oriented", "            if classdef.lineno < node.lineno <= classdef.end_lineno:  # The last line is part of it", "            if classdef.lineno < node.lineno < classdef.end_lineno:", "R19.7"),
    Variant("class-containment-written-with-and", "SILENT", "object_oriented", "            if classdef.lineno < node.lineno <= classdef.end_lineno:  # The last line is part of it", "            if node.lineno > classdef.lineno and classdef.end_lineno >= node.lineno:"),
    Variant("unused-names-renamed-to-underscore-although-read", "FIRE", "fixes",
            "    if \"_\" in preserve or any(core.walk(root, ast.Name(id=\"_\", ctx=ast.Load))):\n        return\n", "    if \"_\" in preserve:\n        return\n", "R19.1"),
    Variant("duplicate-deleted-although-uses-not-redirected", "FIRE", "fixes",
            "        if replacement.name in _names_never_substituted(root):\n            continue  # The uses of the duplicates cannot be redirected to it, so they must stay\n", "", "R19.6"),
    Variant("rename-blacklist-inlined-again", "SILENT", "fixes",
            "    blacklisted_names = _names_never_substituted(ast_tree)\n", "    blacklisted_names = _names_never_substituted(ast_tree) | set()\n"),
    Variant("groups-with-two-old-names-rewritten", "FIRE", "fixes",
            "        if len(old_names) > 1:\n            continue  # Two different names, e.g. fooBar and FooBar, must not become the same name\n", "", "R19.5"),
    Variant("moved-static-method-checked-against-functions-only", "FIRE", "object_oriented",
            "        | {node.id for node in core.walk(root, ast.Name)}\n        | {node.name for node in core.walk(root, ast.ClassDef)}\n        | {(alias.asname or alias.name).split(\".\")[0] for alias in core.walk(root, ast.alias)}\n", "", "R19.1"),
    Variant("shadowing-test-sees-plain-parameters-only", "FIRE", "fixes",
            "        if name in tracing.get_defined_names(funcdef) | tracing.get_import_bound_names(funcdef):",
            "        if name in {a.arg for a in funcdef.args.args} | {c.id for c in core.walk(funcdef, ast.Name(ctx=ast.Store))} | tracing.get_import_bound_names(funcdef):", "R19.4"),
    Variant("shadowing-test-lists-all-parameter-kinds", "SILENT", "fixes",
            "        if name in tracing.get_defined_names(funcdef) | tracing.get_import_bound_names(funcdef):",
            "        if name in tracing.get_defined_names(funcdef) | tracing.get_import_bound_names(funcdef) | {a.arg for a in core.walk(funcdef.args, ast.arg)}:"),
    Variant("loop-variable-generator-unchecked", "FIRE", "fixes", "            if new_name and new_name not in used_names:\n                yield new_name", "            if new_name:\n                yield new_name", "R19.1"),
    Variant("keys-to-items-collision-test-removed", "FIRE", "fixes",
            "        if any(core.walk(root, (ast.Name(id=node_target_name), ast.arg(arg=node_target_name)))):\n            continue  # The new loop variable would shadow an existing variable\n        yield (\n            node.generators[0].iter,",
            "        yield (\n            node.generators[0].iter,", "R19.1"),
    Variant("raise-from-binder-unchecked", "FIRE", "fixes",
            "    if any(core.walk(root, (ast.Name(id=\"error\"), ast.arg(arg=\"error\")))):\n        return  # The name bound by \"as error\" would shadow, and afterwards unbind, a variable\n", "", "R19.1"),
    Variant("blacklist-without-keywords", "FIRE", "fixes",
            "        | constants.BUILTIN_FUNCTIONS\n        | constants.PYTHON_KEYWORDS\n    )\n    renamings = {", "        | constants.BUILTIN_FUNCTIONS\n    )\n    renamings = {", "R19.2"),
    Variant("transaction-per-node", "FIRE", "fixes", "            yield node, replacement, transaction\n\n        transaction += 1", "            yield node, replacement, transaction\n            transaction += 1", "R19.3"),
    Variant("new-template-binder", "FIRE", "fixes", "    replace = \"{{variable}} = not ({{condition}})\"\n", "    replace = \"tmp = not ({{condition}})\\n{{variable}} = tmp\"\n", "R19.1"),
    Variant("used-names-as-comprehension", "SILENT", "fixes",
            "    used_names = {node.id for node in core.walk(root, ast.Name)}\n\n    for name_length in range(3):", "    names = core.walk(root, ast.Name)\n    used_names = {node.id for node in names}\n\n    for name_length in range(3):"),
]

META = {
    "design_ref": "DESIGN.md section 3, C19",
    "technique": "path-condition freshness facts at every construction of a named node that reaches the output; template binder extraction; blacklist component check; transaction def-use; parameter-kind coverage of the use-site collector; adopted scheduler clauses (C10); census rules (spelling kinds, stale arguments by version tokens); component check of the equivalence key of duplicate functions; path-condition search facts at every construction of a renaming transformer; key-component check of (class, member) tables projected inside the class loop",
    "level_text": ("Decides on the current source that every synthesised identifier that a rewrite binds is tested against "
                   "the identifiers of the tree on all paths (or drawn from a guarded name generator), that convention "
                   "renaming applies a blacklist with keywords, builtins, imported and defined names, and that one renamed "
                   "binding is rewritten under one transaction. The unguarded binders of the pinned tree were repaired (fix commits). It "
                   "does not decide completeness of use-site discovery nor identifier validity."),
    "level_note": "Trusted: CPython ast; the copy/synthesised classification of identifier expressions; sa/pathcond.py.",
}
