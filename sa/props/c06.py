"""C06 Results are deterministic across processes, hash seeds and worker schedules (partial, DESIGN 3/C06)."""
from __future__ import annotations

import ast
from typing import Dict, List, Optional, Set, Tuple

from ..defuse import assignments, bindings, call_arg
from ..model import AnalysisError, Func, Program, norm, parent, short, walk_own, walk_body, pipeline_calls
from ..pathcond import PathAnalysis
from ..report import Result
from ..sched import Scheduler, atom, UNKNOWN
from ..taint import Taint


LATER_RULES = ' Later rules: (R6.5) loops over sets (also dicts filled from sets) only accumulate commutatively; (R6.6) = C05 R5.6; (R6.7) = C15 R15.9, the evaluator reveals no set order. (R6.9) a pool worker reads no source file but its own (known finding: import tracing).'


def check(prog: Program, tier: str) -> Result:
    res = Result(
        "C06",
        explanation=(
            "(R6.1) order-preserving parallel dispatch: format_files hands a sorted list to pool.map/starmap (not an "
            "unordered or asynchronous variant), builds the argument tuples by iterating that same list, and pairs the "
            "results with zip() over the same, unmodified list; the worker is a module-level function. (R6.2) the "
            "schedule returned by _schedule_rewrites is totally ordered: the sort key depends on the character range, the "
            "replacement text (through unparse) and the transaction, so yield order cannot change the applied order. "
            "(R6.3) hash-seed taint: expressions typed as unordered collections of str (set displays/comprehensions of "
            "identifier attributes or source texts, set algebra, the frozenset tables of constants, functions returning "
            "such sets, dict-of-list/set element types) are followed to the places where their iteration order "
            "certainly becomes observable - a join, a positional selection ([0], next, pop, most_common, min/max with "
            "key), an ordered accumulation that is later joined, a first-match exit, transaction numbering. Text that "
            "consists of import statements only is exempt iff fixes.sort_imports runs after every call of the "
            "containing function in format_code (checked). (R6.4) a keyed sort over a set of str tuples only forgets the set order if the key "
            "contains every component (sorted() is stable: ties keep hash-seed order). (R6.5) a loop over a set (str: hash seed; syntax nodes: memory "
            "address) carries no assigned value from one iteration to the next. Not decided: every other use of address-ordered node sets, equal-key "
            "ties, determinism of black/sympy."),
        rule_text="instances = dispatch clauses, sort-key components, exposure sites of str-set iteration order; non-trivial = sinks",
    )
    res.explanation += LATER_RULES
    res.trusted_base = ["CPython ast", "sa/taint.py typing rules", "sa/sched.py shape reader"]
    res.assumptions = ["iteration order of sets of AST nodes follows memory addresses and is NOT reproducible (shown by the round-3 reproducers): decided for loops with carried state (R6.5) and non-injective sort keys (R6.4), other uses of such sets are not decided",
                       "fixes.sort_imports canonicalises the order of import statements"]
    _r6_1(prog, res)
    _r6_2(prog, res)
    _r6_3(prog, res)
    _r6_4(prog, res)
    _r6_5(prog, res)
    # worker processes live across files and passes: a memo inside the rule wrappers makes a file's result depend on what
    # the same worker formatted before, i.e. on the worker count and schedule - decided by the C05 check, adopted
    from . import c05 as _c05
    _tmp = Result("C05", "", "")
    _c05._r5_6(prog, _tmp)
    res.adopt(_tmp, {"R5.6"}, "R6.6", "with parallel workers, state kept between calls makes the output depend on which files a worker was given before")
    _r6_9(prog, res)
    _c05._r5_8(prog, _tmp)
    res.adopt(_tmp, {"R5.8"}, "R6.6", "a mutated default argument is state kept between calls: the output depends on which files the same worker was given before")
    _r6_8(prog, res)
    # R6.7: constant folding happens in the formatter's process, under ITS hash seed - decided by the C15 check (R15.9), adopted
    from . import c15 as _c15
    from ..evaluator import Evaluator as _Ev
    _tmp2 = Result("C15", "", "")
    _c15._r15_9(prog, _tmp2, _Ev(prog))
    res.adopt(_tmp2, {"R15.9"}, "R6.7", "a folded value that depends on the hash seed of the formatting process makes the output differ from run to run")
    res.floors.update({"R6.1": 5, "R6.2": 3, "R6.3": 3, "R6.4": 1, "R6.7": 2, "R6.8": 1})
    return res


def _r6_1(prog: Program, res: Result) -> None:
    fn = prog.func("main", "format_files")
    # variables bound to a worker pool: `with mp.Pool(..) as X` / X = Pool(..) / ProcessPoolExecutor(..)
    pools = set()
    for n in walk_own(fn.node):
        if isinstance(n, (ast.With, ast.AsyncWith)):
            for item in n.items:
                d = prog.dotted(item.context_expr.func) if isinstance(item.context_expr, ast.Call) else None
                if d and d.split(".")[-1] in ("Pool", "ThreadPool", "ProcessPoolExecutor", "ThreadPoolExecutor") and isinstance(item.optional_vars, ast.Name):
                    pools.add(item.optional_vars.id)
        if isinstance(n, ast.Assign) and isinstance(n.value, ast.Call) and isinstance(n.targets[0], ast.Name):
            d = prog.dotted(n.value.func)
            if d and d.split(".")[-1] in ("Pool", "ThreadPool", "ProcessPoolExecutor", "ThreadPoolExecutor"):
                pools.add(n.targets[0].id)
    pool_calls = [c for c in prog.calls_in(fn) if isinstance(c.func, ast.Attribute) and c.func.attr in (
        "map", "starmap", "imap", "imap_unordered", "apply_async", "map_async", "starmap_async", "apply", "submit")
        and isinstance(c.func.value, ast.Name) and c.func.value.id in pools]
    if not pool_calls:
        res.bad("R6.1", fn.loc(), fn.fq, "pool dispatch", "no pool.map/starmap call found (dispatch restructured)")
        return
    pa = PathAnalysis(prog, fn)
    for c in pool_calls:
        m = c.func.attr
        res.decide(m in ("map", "starmap"), "R6.1", fn.loc(c), fn.fq, f"pool.{m}(..)",
                   "results come back in the order of the inputs" if m in ("map", "starmap") else
                   f"pool.{m} does not return results in input order (or not synchronously): pairing results with files depends on worker completion order")
        worker = c.args[0] if c.args else None
        wr = prog.resolve_call(worker, fn.mod, fn) if worker is not None else None
        res.decide(bool(wr and wr[0] == "fn" and "<locals>" not in wr[1].qual), "R6.1", fn.loc(c), fn.fq, f"worker {norm(worker) if worker is not None else '?'}",
                   "module-level function" if wr and wr[0] == "fn" else "worker is not a module-level function of the package")
        it = c.args[1] if len(c.args) > 1 else None
        S = None
        if isinstance(it, (ast.GeneratorExp, ast.ListComp)) and len(it.generators) == 1 and isinstance(it.generators[0].iter, ast.Name) and not it.generators[0].ifs:
            S = it.generators[0].iter.id
        elif isinstance(it, ast.Name):
            S = it.id
        if S is None:
            res.undecided("R6.1", fn.loc(c), fn.fq, "dispatch iterable", "not an unfiltered iteration over one variable")
            continue
        # S is a sequence: its definition reaching the call is sorted(..) / list / tuple
        st = c
        while not isinstance(st, ast.stmt):
            st = parent(st)
        defs = [(s, v) for s, v in assignments(fn, S) if v is not None and s.lineno < st.lineno]
        last = max(defs, key=lambda d: d[0].lineno)[1] if defs else None
        seq = isinstance(last, ast.Call) and (prog.dotted(last.func) or "") == "sorted" and not any(k.arg == "key" for k in last.keywords)
        res.decide(seq, "R6.1", fn.loc(c), fn.fq, f"dispatch list {S} = {short(last, 40) if last is not None else '?'}",
                   "a sorted list: dispatch order does not depend on set iteration order" if seq else
                   f"'{S}' is not the result of sorted(): files are dispatched (and reported) in an order that depends on set iteration / input order")
        # results zipped with the same S, same definition
        var = None
        if isinstance(st, ast.Assign) and isinstance(st.targets[0], ast.Name):
            var = st.targets[0].id
        zips = [z for z in prog.calls_in(fn) if isinstance(z.func, ast.Name) and z.func.id == "zip" and var
                and any(isinstance(a, ast.Name) and a.id == var for a in z.args)]
        if not zips:
            res.undecided("R6.1", fn.loc(c), fn.fq, "pairing of results", "results are not paired with zip()")
            continue
        for z in zips:
            other = [a for a in z.args if not (isinstance(a, ast.Name) and a.id == var)]
            same = len(other) == 1 and isinstance(other[0], ast.Name) and other[0].id == S
            toks_call = {w.token(S) for w in pa.worlds_at(c)}
            toks_zip = {w.token(S) for w in pa.worlds_at(z)}
            ok = same and toks_call == toks_zip and len(toks_call) == 1
            res.decide(ok, "R6.1", fn.loc(z), fn.fq, norm(z),
                       f"results paired with the very list they were computed from ({sorted(toks_zip)})" if ok else
                       f"results are paired with {norm(other[0]) if other else '?'} (definition {sorted(toks_zip)}), not with the dispatched list '{S}' (definition {sorted(toks_call)}): change flags can be attributed to the wrong file")
    # file list of the pattern-matching CLI and preserved files: sorted
    for m, q in (("main", "_used_names_in_files"), ("pattern_matching", "main")):
        f2 = prog.funcs.get((m, q))
        if f2 is None:
            continue
        srt = [c for c in prog.calls_in(f2) if (prog.dotted(c.func) or "") == "sorted"]
        res.decide(bool(srt), "R6.1", f2.loc(), f2.fq, "file iteration order", "iterates files in sorted order" if srt else "files are no longer visited in sorted order")


def _r6_2(prog: Program, res: Result) -> None:
    S = Scheduler(prog)
    fn = S.fn
    body = fn.node.body
    idx = body.index(S.ret) if S.ret in body else None
    sort_call = None
    if idx:
        prev = body[idx - 1]
        if isinstance(prev, ast.Expr) and isinstance(prev.value, ast.Call) and isinstance(prev.value.func, ast.Attribute) and prev.value.func.attr == "sort":
            sort_call = prev.value
        elif isinstance(prev, ast.Assign) and isinstance(prev.value, ast.Call) and (prog.dotted(prev.value.func) or "") == "sorted":
            sort_call = prev.value
    if sort_call is None:
        res.bad("R6.2", fn.loc(S.ret), fn.fq, norm(S.ret), "the schedule is returned unsorted: the applied order is the yield order of the rules")
        return
    key = next((k.value for k in sort_call.keywords if k.arg == "key"), None)
    rk = S.resolve_key(key) if key is not None else None
    if rk is None:
        res.undecided("R6.2", fn.loc(sort_call), fn.fq, "sort key", "key not resolvable")
        return
    params, body_expr = rk
    shapes = []
    for site, inserted, kind in S.inserts:
        if kind == "many" and isinstance(inserted, (ast.GeneratorExp, ast.ListComp)):
            env = {}
            g = inserted.generators[0]
            if isinstance(g.iter, ast.Name):
                S._bind_shape(g.target, S.elem_shape_of_collection(g.iter.id, site), env)
            loops = S.loops_around(site)
            if loops and isinstance(loops[0].target, ast.Name):
                env.setdefault(loops[0].target.id, atom("transaction"))
            shapes.append(S.expr_shape(inserted.elt, env))
    shape = shapes[0] if shapes and all(s == shapes[0] for s in shapes) else UNKNOWN
    if shape == UNKNOWN:
        res.undecided("R6.2", fn.loc(sort_call), fn.fq, "sort key", "shape of schedule elements not recognised")
        return
    env = {params[0]: shape}
    comps = body_expr.elts if isinstance(body_expr, ast.Tuple) else [body_expr]
    mentioned: Set[str] = set()
    through_unparse = False
    for c in comps:
        m = S.mentions(c, env)
        mentioned |= m
        if "rewrite.new" in m and any(isinstance(x, ast.Call) and (prog.dotted(x.func) or "").endswith("unparse") for x in ast.walk(c)):
            through_unparse = True
    for need, why in (("range", "position"), ("rewrite.new", "replacement"), ("transaction", "transaction")):
        ok = need in mentioned and (need != "rewrite.new" or through_unparse)
        res.decide(ok, "R6.2", fn.loc(sort_call), fn.fq, f"sort key depends on the {why}",
                   f"component present ({sorted(mentioned)})" if ok else
                   f"the sort key does not depend on the {why}" + (" text (unparse)" if need == "rewrite.new" else "") +
                   ": two scheduled rewrites that differ only in it keep their yield order, which differs between runs")


# ------------------------------------------------------------------------------------------------ R6.9
def _r6_9(prog: Program, res: Result) -> None:
    """Parallel = sequential only if no worker reads what another worker writes.  format_files hands every file to its own call of the
    worker (the function given to the pool); a worker WRITES its own file.  If the worker can reach a read of some OTHER python
    source (import tracing opens the files of the modules a star import names), then formatting `helpers.py` and `user.py` (which
    star-imports helpers) in one run gives `user.py` the exports of helpers BEFORE or AFTER its rewrite, depending on worker count
    and schedule; one after the other it is always AFTER.  Instance: every file read (open / read_text of a path that is not the
    worker's own parameter) reachable over the call graph from the worker of the pool dispatch."""
    ff = prog.func("main", "format_files")
    worker = None
    for c in prog.calls_in(ff):
        if isinstance(c.func, ast.Attribute) and c.func.attr in ("starmap", "map", "imap", "apply_async", "starmap_async", "map_async") and c.args:
            r = prog.resolve_call(c.args[0], ff.mod, ff) if isinstance(c.args[0], (ast.Name, ast.Attribute)) else None
            if r and r[0] == "fn":
                worker = r[1]
    if worker is None:
        res.undecided("R6.9", ff.loc(), ff.fq, "worker of the pool dispatch", "not found")
        return
    own = set(worker.all_params)
    seen, todo, hits = set(), [worker.key], []
    while todo:
        k = todo.pop()
        if k in seen or k not in prog.funcs:
            continue
        seen.add(k)
        g = prog.funcs[k]
        for c in prog.calls_in(g):
            d = prog.dotted(c.func) or ""
            is_read = False
            if d in ("open", "io.open", "tokenize.open") and c.args:
                mode = c.args[1] if len(c.args) > 1 else next((kw.value for kw in c.keywords if kw.arg == "mode"), None)
                is_read = not (isinstance(mode, ast.Constant) and any(ch in str(mode.value) for ch in "wax+"))
                subject = c.args[0]
            elif isinstance(c.func, ast.Attribute) and c.func.attr in ("open", "read_text", "read_bytes"):
                mode = c.args[0] if c.args else next((kw.value for kw in c.keywords if kw.arg == "mode"), None)
                is_read = not (isinstance(mode, ast.Constant) and any(ch in str(mode.value) for ch in "wax+"))
                subject = c.func.value
            if is_read:
                names = {x.id for x in ast.walk(subject) if isinstance(x, ast.Name)}
                if g is worker and names and names <= own:
                    continue            # the worker's own file
                if "pyproject" in norm(g.node) and "toml" in norm(g.node):
                    continue            # configuration, written by no worker
                hits.append((g, c))
            r = prog.resolve_call(c.func, g.mod, g)
            if r and r[0] == "fn":
                todo.append(r[1].key)
            # functions handed over as values (processing.chain((rule_a, rule_b)), key=f) are called by whoever gets them
            for a in list(c.args) + [kw.value for kw in c.keywords]:
                for x in ast.walk(a):
                    if isinstance(x, (ast.Name, ast.Attribute)) and not isinstance(getattr(x, "ctx", None), ast.Store):
                        r2 = prog.resolve_call(x, g.mod, g)
                        if r2 and r2[0] == "fn":
                            todo.append(r2[1].key)
    if not hits:
        res.ok("R6.9", worker.loc(), worker.fq, f"{worker.node.name}() # worker of the parallel dispatch", f"reads no file but its own ({len(seen)} reachable functions)")
        return
    by_fn = {}
    for g, c in hits:
        by_fn.setdefault(g.fq, (g, c))
    for fq, (g, c) in sorted(by_fn.items()):
        res.bad("R6.9", g.loc(c), g.fq, f"{short(c, 60)} # a worker reads the source of another module",
                f"reachable from the pool worker {worker.fq}(): when that module is among the files of the same run, another worker rewrites it at the same time - the "
                "result depends on which of the two is first (with one worker: always the sorted order), so parallel and sequential runs differ")


def _r6_3(prog: Program, res: Result) -> None:
    tn = Taint(prog)
    fc = prog.func("main", "format_code")
    calls = pipeline_calls(prog, fc)
    order = [t.key for _, t in calls]
    sort_key = ("fixes", "sort_imports")
    seen = set()
    for s in tn.sinks:
        if s.key in seen:
            continue
        seen.add(s.key)
        text = f"{s.kind}: {short(s.node, 80)}"
        if s.imports_only:
            # (until the sixth wave a later call of fixes.sort_imports counted as a sanitiser for text made of import lines.  It is
            # none: the sort refuses a block that carries an ignore comment, skips blocks it must not reorder, and is a whole-text
            # stage that can be refused by its own fences - the inserted lines then stay in hash order.  The order has to be fixed
            # where the lines are made.)
            res.bad("R6.3", s.fn.loc(s.node), s.fn.fq, text,
                    f"{s.detail}: the inserted import lines come out in the iteration order of a set of str, i.e. of PYTHONHASHSEED; the later import sort does not always "
                    "run over them (a block with `# pyrefact: ignore` is left as it is)")
        else:
            res.bad("R6.3", s.fn.loc(s.node), s.fn.fq, text, f"{s.detail}: the output depends on PYTHONHASHSEED")
    sink_nodes = {id(a) for s in tn.sinks for a in ast.walk(s.node) if not isinstance(a, (ast.expr_context, ast.operator, ast.cmpop, ast.boolop, ast.unaryop))}
    shown = set()
    for f, node, what in tn.exposure_sites:
        hdr = node.iter if isinstance(node, ast.For) else node
        k = (f.fq, norm(hdr))
        if k in shown:
            continue
        shown.add(k)
        has_sink = any(id(x) in sink_nodes for x in ast.walk(node) if not isinstance(x, (ast.expr_context, ast.operator, ast.cmpop, ast.boolop, ast.unaryop)))
        if not has_sink:
            res.ok("R6.3", f.loc(node), f.fq, f"{what}: {short(hdr, 70)}", "order is exposed but reaches no order-observing sink (only sets, dicts, membership tests or rewrites on distinct nodes)")
    res.ok("R6.3", "pyrefact/", "package", "exposure sites of str-set iteration order", f"{len(shown)} site(s) examined, {len(seen)} sink(s)", trivial=True)
    res.analysed.update({"str_set_returning_functions": sorted(f"{k[0]}.{k[1]}" for k, v in tn.ret.items() if v == "USET"),
                         "constant_str_sets": sorted(f"{a}.{b}" for a, b in tn.const_sets), "exposure_sites": tn.exposures})
    # schedule ties: rules may not number transactions by iterating a str set (covered by the transaction-numbering sink)


# ------------------------------------------------------------------------------------------------ R6.4
def _unordered(e: ast.AST, fn: Func, depth: int = 0) -> Optional[ast.AST]:
    """The set-typed expression e derives from (a witness node), or None: displays, comprehensions, set()/frozenset(),
    set algebra, names bound to those, subscripts of dicts whose values are sets."""
    if depth > 4:
        return None
    if isinstance(e, (ast.Set, ast.SetComp)):
        return e
    if isinstance(e, ast.Call) and isinstance(e.func, ast.Name) and e.func.id in ("set", "frozenset"):
        return e
    if isinstance(e, ast.Call) and norm(e.func) in ("set.intersection", "set.union", "frozenset.union", "frozenset.intersection", "set.difference"):
        return e
    if isinstance(e, ast.BinOp) and isinstance(e.op, (ast.BitOr, ast.BitAnd, ast.Sub, ast.BitXor)):
        return _unordered(e.left, fn, depth + 1) or _unordered(e.right, fn, depth + 1)
    if isinstance(e, ast.Name):
        for _stmt, v in bindings(fn).get(e.id, []):
            if v is not None:
                w = _unordered(v, fn, depth + 1)
                if w is not None:
                    return w
        return None
    if isinstance(e, ast.Subscript) and isinstance(e.value, ast.Name):
        for _stmt, v in bindings(fn).get(e.value.id, []):
            if isinstance(v, ast.Call) and norm(v.func).endswith("defaultdict") and v.args and norm(v.args[0]) in ("set", "frozenset"):
                return v
            if isinstance(v, ast.DictComp) and _unordered(v.value, fn, depth + 1) is not None:
                return v
        return None
    return None


def _unordered_through(e: ast.AST, fn: Func, _depth: int = 0) -> Optional[ast.AST]:
    """_unordered, also through order-preserving wrappers: core.filter_nodes(S, ..), filter(f, S), list / tuple / iter(S),
    a comprehension over S."""
    w = _unordered(e, fn)
    if w is not None:
        return w
    if isinstance(e, ast.Name):
        # the values of a dict of sets: `for k, S in D.items()` / `{.. for k, S in D.items()}` with D = defaultdict(set)
        for n in walk_own(fn.node):
            gens = n.generators if isinstance(n, (ast.ListComp, ast.SetComp, ast.DictComp, ast.GeneratorExp)) else \
                [n] if isinstance(n, ast.For) else []
            for g in gens:
                it = g.iter
                if isinstance(it, ast.Call) and isinstance(it.func, ast.Attribute) and it.func.attr in ("items", "values") and isinstance(it.func.value, ast.Name):
                    tgt = g.target
                    val = tgt.elts[-1] if isinstance(tgt, ast.Tuple) and it.func.attr == "items" else tgt
                    if isinstance(val, ast.Name) and val.id == e.id:
                        for _s, v in bindings(fn).get(it.func.value.id, []):
                            if isinstance(v, ast.Call) and norm(v.func).endswith("defaultdict") and v.args and norm(v.args[0]) in ("set", "frozenset"):
                                return v
    # a dict FILLED while iterating a set keeps the set's order as its insertion order: D.items() / .keys() / .values() / D
    dname = None
    if isinstance(e, ast.Call) and isinstance(e.func, ast.Attribute) and e.func.attr in ("items", "keys", "values") and isinstance(e.func.value, ast.Name) and not e.args:
        dname = e.func.value.id
    elif isinstance(e, ast.Name):
        dname = e.id
    if dname is not None and _depth < 3:
        is_dict = any(isinstance(v, (ast.Dict, ast.DictComp)) or (isinstance(v, ast.Call) and norm(v.func).split(".")[-1] in ("dict", "defaultdict", "OrderedDict", "Counter"))
                      for _s, v in bindings(fn).get(dname, []) if v is not None)
        if is_dict:
            for lp in walk_own(fn.node):
                if not isinstance(lp, ast.For):
                    continue
                fills = [x for x in ast.walk(lp) if isinstance(x, ast.Subscript) and isinstance(x.value, ast.Name) and x.value.id == dname
                         and (isinstance(x.ctx, ast.Store) or (isinstance(parent(x), ast.Attribute) and isinstance(parent(parent(x)), ast.Call)
                                                                and parent(x).attr in ("add", "append", "extend", "update")))]
                fills += [x for x in ast.walk(lp) if isinstance(x, ast.Call) and isinstance(x.func, ast.Attribute) and x.func.attr == "setdefault"
                          and isinstance(x.func.value, ast.Name) and x.func.value.id == dname]
                if fills:
                    w = _unordered_through(lp.iter, fn, _depth + 1)
                    if w is not None:
                        return w
    if isinstance(e, ast.Call):
        d = norm(e.func)
        if d.endswith("filter_nodes") and e.args:
            return _unordered_through(e.args[0], fn)
        if d == "filter" and len(e.args) == 2:
            return _unordered_through(e.args[1], fn)
        if d in ("list", "tuple", "iter", "reversed") and e.args:
            return _unordered_through(e.args[0], fn)
    if isinstance(e, (ast.ListComp, ast.GeneratorExp)) and len(e.generators) == 1:
        return _unordered_through(e.generators[0].iter, fn)
    return None


def _r6_8(prog: Program, res: Result) -> None:
    """core.walk / walk_wildcard go through the ALTERNATIVES of a tuple template one after the other: the order of the
    alternatives is the order of the results.  A tuple made from a set (`tuple({*A, *B})`, `tuple(set(..))`) of classes or
    templates is ordered by memory address - another order in every process - and rules that take the first match, or number
    their transactions in match order, then take different paths.  Instance: every template argument of a walk / walk_wildcard
    call (directly or through one local); obligation: it is not a sequence made from an unordered collection (sorted(..) and
    dict.fromkeys(..) give a reproducible order)."""
    n = 0
    for fn in prog.funcs.values():
        for c in prog.calls_in(fn):
            d = (prog.dotted(c.func) or "").split(".")[-1]
            if d not in ("walk", "walk_wildcard") or len(c.args) < 2:
                continue
            r = prog.resolve_call(c.func, fn.mod, fn)
            if not (r and r[0] == "fn" and r[1].mod.name == "core"):
                continue
            t = c.args[1]
            if isinstance(t, ast.Name):
                defs = [v for _s, v in bindings(fn).get(t.id, []) if v is not None]
                t = defs[0] if len(defs) == 1 else t
            if not (isinstance(t, ast.Call) and isinstance(t.func, ast.Name) and t.func.id in ("tuple", "list") and len(t.args) == 1):
                continue
            n += 1
            src = _unordered(t.args[0], fn)
            res.decide(src is None, "R6.8", fn.loc(c), fn.fq, short(c, 70),
                       "the alternatives come in a reproducible order" if src is None else
                       f"the alternatives are `{short(t, 50)}`: a sequence made from a set, ordered by the addresses of the classes - the matches come in another order in every process")
    if n == 0:
        res.ok("R6.8", "pyrefact/", "package", "tuple(..) / list(..) templates handed to walk", "none", trivial=True)


def _r6_5(prog: Program, res: Result) -> None:
    """A loop over a set visits its elements in hash order: for strings that is the hash seed, for syntax nodes the
    memory address (different between processes, and within one process once a cached tree was evicted and re-parsed).
    The order is harmless as long as the iterations are independent or only accumulate commutatively (set.add, +=, a
    dict entry keyed by the element).  A variable that is ASSIGNED in one iteration and read in a later one
    (definite-assignment analysis, sa/loopstate.py) makes the result depend on the order: the set must be sorted first."""
    from ..loopstate import loop_carried
    n = 0
    for fn in prog.funcs.values():
        for loop in walk_own(fn.node):
            if not isinstance(loop, ast.For):
                continue
            src = _unordered_through(loop.iter, fn)
            if src is None:
                continue
            n += 1
            carried = loop_carried(loop)
            order_sensitive = {}
            for name, node in carried.items():
                for x in ast.walk(loop):
                    if isinstance(x, (ast.Assign, ast.AnnAssign)):
                        tg = x.targets if isinstance(x, ast.Assign) else [x.target]
                        if any(isinstance(t, ast.Name) and t.id == name for t in tg) and not (isinstance(x.value, ast.Constant) and isinstance(x.value.value, bool)):
                            order_sensitive[name] = x       # a value other than a raised flag is carried over
            text = f"for {norm(loop.target)} in {short(loop.iter, 50)}"
            if not order_sensitive:
                res.ok("R6.5", fn.loc(loop), fn.fq, text, "iterations over the set are independent or accumulate commutatively", trivial=not carried)
                continue
            names = sorted(order_sensitive)
            first = order_sensitive[names[0]]
            res.bad("R6.5", fn.loc(loop), fn.fq, text,
                    f"the loop visits a set ({short(src, 40)}) in hash / address order and carries {names} from one iteration to the next "
                    f"(assigned at line {first.lineno}, read before being re-assigned): the result depends on the order of the set, which differs between processes")
    res.analysed["loops_over_sets"] = n


def _tuple_arity(e: ast.AST, fn: Func, depth: int = 0) -> Optional[ast.Tuple]:
    """The tuple expression that builds the elements held by the collection e, if they are built syntactically in fn."""
    if depth > 4:
        return None
    if isinstance(e, (ast.SetComp, ast.ListComp, ast.GeneratorExp)) and isinstance(e.elt, ast.Tuple):
        return e.elt
    if isinstance(e, (ast.Set, ast.List)) and e.elts and all(isinstance(x, ast.Tuple) for x in e.elts):
        return e.elts[0]
    if isinstance(e, ast.Call) and isinstance(e.func, ast.Name) and e.func.id in ("set", "frozenset", "list", "sorted") and e.args:
        return _tuple_arity(e.args[0], fn, depth + 1)
    if isinstance(e, ast.BinOp):
        return _tuple_arity(e.left, fn, depth + 1) or _tuple_arity(e.right, fn, depth + 1)
    base = e.value if isinstance(e, ast.Subscript) else e
    if isinstance(base, ast.Name):
        for n in walk_own(fn.node):
            if isinstance(n, ast.Call) and isinstance(n.func, ast.Attribute) and n.func.attr in ("add", "append") and n.args and isinstance(n.args[0], ast.Tuple):
                recv = n.func.value
                recv = recv.value if isinstance(recv, ast.Subscript) else recv
                if isinstance(recv, ast.Name) and recv.id == base.id:
                    return n.args[0]
            if isinstance(n, ast.Call) and isinstance(n.func, ast.Attribute) and n.func.attr in ("update", "extend") and n.args \
                    and isinstance(n.args[0], (ast.GeneratorExp, ast.ListComp, ast.SetComp)) and isinstance(n.args[0].elt, ast.Tuple):
                recv = n.func.value
                recv = recv.value if isinstance(recv, ast.Subscript) else recv
                if isinstance(recv, ast.Name) and recv.id == base.id:
                    return n.args[0].elt
        for _stmt, v in bindings(fn).get(base.id, []):
            if v is not None and not isinstance(v, ast.Name):
                a = _tuple_arity(v, fn, depth + 1)
                if a:
                    return a
    return None


def _strish(x: ast.AST) -> bool:
    from ..taint import STR_ATTRS
    if isinstance(x, ast.Constant):
        return isinstance(x.value, str) or x.value is None
    if isinstance(x, ast.Attribute):
        return x.attr in STR_ATTRS
    if isinstance(x, ast.IfExp):
        return _strish(x.body) and _strish(x.orelse)
    return isinstance(x, ast.Name)     # loop variables over names (module, name, asname ...)


def _key_components(prog: Program, fn: Func, key: ast.AST) -> Optional[Set[object]]:
    """Which components of the element the sort key uses *as they are* (so that two different elements get different
    keys): a set of indices, or {'*'} when the whole element is part of the key.  None: not analysable."""
    if isinstance(key, ast.Lambda) and len(key.args.args) == 1:
        p = key.args.args[0].arg
        body = key.body
        env = {}
    else:
        r = prog.resolve_call(key, fn.mod, fn) if isinstance(key, (ast.Name, ast.Attribute)) else None
        if not r or r[0] != "fn" or len(r[1].posparams) != 1:
            return None
        kf = r[1]
        p = kf.posparams[0]
        rets = [x for x in walk_own(kf.node) if isinstance(x, ast.Return) and x.value is not None]
        if len(rets) != 1:
            return None
        body = rets[0].value
        env = {}
        for n in walk_own(kf.node):
            if isinstance(n, ast.Assign) and len(n.targets) == 1 and isinstance(n.targets[0], ast.Tuple) and isinstance(n.value, ast.Name) and n.value.id == p:
                for i, t in enumerate(n.targets[0].elts):
                    if isinstance(t, ast.Name):
                        env[t.id] = i
    parts = body.elts if isinstance(body, ast.Tuple) else [body]
    out: Set[object] = set()
    for x in parts:
        if isinstance(x, ast.Name) and x.id == p:
            out.add("*")
        elif isinstance(x, ast.Name) and x.id in env:
            out.add(env[x.id])
        elif isinstance(x, ast.Subscript) and isinstance(x.value, ast.Name) and x.value.id == p and isinstance(x.slice, ast.Constant) and isinstance(x.slice.value, int):
            out.add(x.slice.value)
        elif isinstance(x, ast.BoolOp) and isinstance(x.op, ast.Or) and len(x.values) == 2 and isinstance(x.values[1], ast.Constant):
            # `t[1] or ""`: injective on str-or-None up to the None/"" pair, which cannot both be an alias
            y = x.values[0]
            if isinstance(y, ast.Name) and y.id in env:
                out.add(env[y.id])
            elif isinstance(y, ast.Subscript) and isinstance(y.value, ast.Name) and y.value.id == p and isinstance(y.slice, ast.Constant):
                out.add(y.slice.value)
    return out


# keyed min / max over node sets where a tie cannot change the result - each confirmed by reading the code
TIES_HARMLESS = {
    ("fixes.remove_duplicate_functions", "min"): "the elements are function definitions of the module body; two `def`s cannot share a line",
    ("fixes._move_before_scope", "min"): "the elements are the textually equal statements found in every branch; whichever of two tied ones is copied unparses to the same text",
    ("fixes._move_after_scope", "max"): "the elements are the textually equal statements found in every branch; whichever of two tied ones is copied unparses to the same text",
}


def _r6_4(prog: Program, res: Result) -> None:
    """A sort with a key only forgets the iteration order of a set if the key tells all elements apart: sorted() is
    stable, so elements with equal keys keep the order in which the set produced them - the hash-seed order.  For every
    sorted(S, key=K) / min / max over a set S of tuples built in the same function, K must contain every component
    of the tuple unchanged (or the tuple itself)."""
    n_sites = 0
    for fn in prog.funcs.values():
        for c in prog.calls_in(fn):
            if not (isinstance(c.func, ast.Name) and c.func.id in ("sorted", "min", "max") and c.args):
                continue
            key = next((k.value for k in c.keywords if k.arg == "key"), None)
            if key is None:
                continue
            src = _unordered_through(c.args[0], fn)
            if src is None:
                continue
            a0 = c.args[0]
            if isinstance(a0, ast.Call) and isinstance(a0.func, ast.Attribute) and a0.func.attr == "items" and not a0.args:
                # the entries of a dict filled while iterating a set come in the set's order; the dict key is the one
                # component that is different in every entry, so a sort forgets that order iff its key contains it
                n_sites += 1
                comps = _key_components(prog, fn, key)
                text = f"{c.func.id}({short(a0, 40)}, key={short(key, 50)})"
                if comps is None:
                    res.undecided("R6.4", fn.loc(c), fn.fq, text, "sort key is not a lambda or a one-parameter repository function")
                    continue
                ok = "*" in comps or 0 in comps
                res.decide(ok, "R6.4", fn.loc(c), fn.fq, text,
                           "the sort key contains the dict key, which is different in every entry: ties are impossible, the insertion order is forgotten" if ok else
                           f"the entries of a dict filled in the iteration order of a set ({short(src, 40)}) are sorted by a key that does not contain the dict key: "
                           "entries with equal sort keys keep the insertion order, which is the set's hash / address order and differs between processes")
                continue
            built = _tuple_arity(c.args[0], fn)
            if built is None or not built.elts:
                # a set of syntax nodes ordered by position: the line number alone does not tell apart two nodes on one line
                # (`x = g(1); x = g(2)`, a def on line 1 and the Module, whose default line is 1) - ties keep address order
                kt = norm(key)
                if isinstance(key, ast.Lambda) and "lineno" in kt:
                    n_sites += 1
                    text = f"{c.func.id}({short(c.args[0], 40)}, key={short(key, 50)})"
                    harmless = TIES_HARMLESS.get((fn.fq, c.func.id))
                    if harmless and "col_offset" not in kt:
                        res.ok("R6.4", fn.loc(c), fn.fq, text, f"ties cannot change the result (confirmed by reading): {harmless}")
                        continue
                    ok = "col_offset" in kt
                    res.decide(ok, "R6.4", fn.loc(c), fn.fq, text,
                               "nodes are ordered by (line, column): no ties" if ok else
                               "a set of syntax nodes is ordered by line number only: two nodes on one line (or a node without position, which counts as line 1) "
                               "tie and keep the set's address order, which differs between processes")
                continue       # other sets of nodes / of plain str (R6.3) are not this rule's business
            if not all(_strish(x) for x in built.elts):
                continue       # tuples holding nodes / ranges hash by address or value, not by the str hash seed
            arity = len(built.elts)
            n_sites += 1
            comps = _key_components(prog, fn, key)
            text = f"{c.func.id}({short(c.args[0], 40)}, key={short(key, 50)})"
            if comps is None:
                res.undecided("R6.4", fn.loc(c), fn.fq, text, "sort key is not a lambda or a one-parameter repository function")
                continue
            ok = "*" in comps or set(range(arity)) <= comps
            res.decide(ok, "R6.4", fn.loc(c), fn.fq, text,
                       f"the key contains all {arity} components of the elements: ties are impossible, the set's iteration order is forgotten" if ok else
                       f"the elements are {arity}-tuples taken from a set, the key only distinguishes components {sorted(x for x in comps if x != '*')}: elements that differ "
                       f"elsewhere compare equal and keep the set's hash-seed dependent order")
    res.analysed["keyed_sorts_over_sets_of_tuples"] = n_sites


def _callers_in_pipeline(prog: Program, fn: Func, fc: Func) -> List[Tuple[str, str]]:
    """Functions called directly by format_code from which fn is reachable."""
    from ..callgraph import CallGraph
    cg = CallGraph(prog)
    out = []
    for _, t in pipeline_calls(prog, fc):
        if fn.key in cg.reachable([t.key]) and t.key not in out:
            out.append(t.key)
    return out


# ---------------------------------------------------------------------------------------------- self-test
from ..selftest import Variant  # noqa: E402

VARIANTS = [
    Variant("a-rule-reads-a-sibling-file", "FIRE", "fixes", "    undefined_variables = tracing.get_undefined_variables(source)\n",
            "    undefined_variables = tracing.get_undefined_variables(source)\n    sibling = Path(\"conftest.py\")\n    known_elsewhere = sibling.read_text() if sibling.exists() else \"\"\n    undefined_variables = {name for name in undefined_variables if name not in known_elsewhere}\n", "R6.9"),
    Variant("worker-reads-its-own-file-through-pathlib", "SILENT", "main", "    with open(filename, \"r\", encoding=\"utf-8\") as stream:\n        initial_content = stream.read()\n\n    keep_imports",
            "    initial_content = filename.read_text(encoding=\"utf-8\")\n\n    keep_imports"),
    Variant("block-types-from-a-set", "FIRE", "core",
            "    types_with_blocks = tuple(\n        dict.fromkeys((*constants.AST_TYPES_WITH_BODY, *constants.AST_TYPES_WITH_ORELSE))\n    )\n",
            "    types_with_blocks = tuple({*constants.AST_TYPES_WITH_BODY, *constants.AST_TYPES_WITH_ORELSE})\n", "R6.8"),
    Variant("statements-ordered-by-line-only", "FIRE", "fixes",
            "            name: sorted(mentions, key=lambda node: (node.lineno, node.col_offset))", "            name: sorted(mentions, key=lambda node: node.lineno)", "R6.4"),
    Variant("conditions-folded-in-set-order", "FIRE", "symbolic_math",
            "        for condition in sorted(\n            core.filter_nodes(conditions, templates), key=lambda n: (n.lineno, n.col_offset)\n        ):",
            "        for condition in core.filter_nodes(conditions, templates):", "R6.5"),
    Variant("alias-sort-key-without-tie-breaker", "FIRE", "fixes",
            "        names = sorted(\n            {(alias.name, alias.asname) for alias in node.names},\n            key=lambda t: (t[0], t[1] is not None, t[1]),\n        )",
            "        names = sorted(\n            {(alias.name, alias.asname) for alias in node.names},\n            key=lambda t: (t[0], t[1] is not None),\n        )", "R6.4"),
    Variant("dict-entries-ordered-by-size-only", "FIRE", "abstractions",
            "    for code, nodes in sorted(code_node_mapping.items(), key=lambda t: t[0]):", "    for code, nodes in sorted(code_node_mapping.items(), key=lambda t: len(t[1]), reverse=True):", "R6.4"),
    Variant("dict-entries-ordered-by-size-then-key", "SILENT", "abstractions",
            "    for code, nodes in sorted(code_node_mapping.items(), key=lambda t: t[0]):", "    for code, nodes in sorted(code_node_mapping.items(), key=lambda t: (-len(t[1]), t[0])):"),
    Variant("alias-sort-key-whole-tuple-with-none-last", "SILENT", "fixes",
            "        names = sorted(\n            {(alias.name, alias.asname) for alias in node.names},\n            key=lambda t: (t[0], t[1] is not None, t[1]),\n        )",
            "        names = sorted(\n            {(alias.name, alias.asname) for alias in node.names},\n            key=lambda t: (t[0], t[1] or \"\"),\n        )"),
    Variant("imap-unordered", "FIRE", "main", "            results = pool.starmap(\n                format_file,", "            results = pool.imap_unordered(\n                format_file,", "R6.1"),
    Variant("zip-against-recomputed-list", "FIRE", "main", "            filename_changes = dict(zip(files_to_format, results))", "            filename_changes = dict(zip(sorted(set(files_to_format)), results))", "R6.1"),
    Variant("dispatch-unsorted-set", "FIRE", "main", "            files_to_format = sorted(files_to_format)\n", "            files_to_format = list(files_to_format)\n", "R6.1"),
    Variant("sort-key-drops-transaction", "FIRE", "processing", "            tup[0]  # Transaction number\n", "", "R6.2"),
    Variant("sort-key-drops-new-text", "FIRE", "processing", "            core.unparse(tup[1][1].new) if tup[1][1].new else \"\",  # New code to be inserted or replaced\n", "", "R6.2"),
    Variant("schedule-sort-removed", "FIRE", "processing",
            "    scheduled_rewrites.sort(\n        key=lambda tup: (\n            tup[1][0],  # Character numbers of rewrite, a core.Range type\n            core.unparse(tup[1][1].new) if tup[1][1].new else \"\",  # New code to be inserted or replaced\n            tup[0]  # Transaction number\n        ),\n        reverse=True,\n    )\n", "", None),
    Variant("join-over-text-set", "FIRE", "symbolic_math",
            "    expr = \" + \".join(f\"({core.unparse(node).strip()})\" for node in values)", "    expr = \" + \".join({f\"({core.unparse(node).strip()})\" for node in values})", "R6.3"),
    Variant("join-over-import-name-set", "FIRE", "fixes",
            "    names = \", \".join(\n        sorted(\n            alias.name if alias.asname is None else f\"{alias.name} as {alias.asname}\"\n            for alias in node.names\n            if (alias.name if alias.asname is None else alias.asname) not in unused_imports\n    ))",
            "    names = \", \".join(\n        {\n            alias.name if alias.asname is None else f\"{alias.name} as {alias.asname}\"\n            for alias in node.names\n            if (alias.name if alias.asname is None else alias.asname) not in unused_imports\n    })", "R6.3"),
    Variant("invented-import-lines-inserted-in-set-order", "FIRE", "fixes", "    for package in sorted((constants.ASSUMED_PACKAGES | constants.PYTHON_311_STDLIB) & variables):", "    for package in (constants.ASSUMED_PACKAGES | constants.PYTHON_311_STDLIB) & variables:", "R6.3"),
    Variant("most-common-of-set", "FIRE", "processing",
            "            most_common_original_formatting = collections.Counter(\n                original_string_formattings[node.value]\n            ).most_common(1)[0][0]",
            "            most_common_original_formatting = collections.Counter(\n                set(original_string_formattings[node.value])\n            ).most_common(1)[0][0]", "R6.3"),
    Variant("sorted-before-join", "SILENT", "fixes",
            "            fix = f\"from {package} import \" + \", \".join(sorted(overlap))", "            ordered = sorted(overlap)\n            fix = f\"from {package} import \" + \", \".join(ordered)"),
    Variant("set-to-set", "SILENT", "fixes", "    names = {node.id for node in core.walk(ast_tree, ast.Name(ctx=ast.Load))}\n", "    names = {n for n in {node.id for node in core.walk(ast_tree, ast.Name(ctx=ast.Load))}}\n"),
    Variant("sort-key-named-function", "SILENT", "processing",
            "    scheduled_rewrites.sort(\n        key=lambda tup: (", "    def _key(tup):\n        return _key_tuple(tup)\n\n    scheduled_rewrites.sort(\n        key=lambda tup: ("),
]

META = {
    "design_ref": "DESIGN.md section 3, C06",
    "technique": "def-use / version check of the parallel dispatch, shape analysis of the schedule sort key, typed taint of str-set iteration order into order-observing sinks with a checked sanitiser; injectivity of sort keys over sets of str tuples and over the entries of dicts filled in set order (sanitiser withdrawn in the sixth wave: order must be fixed where the lines are made); adopted state rules of C05 (R5.6, R5.8)",
    "level_text": ("Decides on the current source that parallel dispatch pairs results with inputs in a fixed sorted order, "
                   "that the rewrite schedule is totally ordered independently of yield order, and that the iteration order "
                   "of no statically recognisable set of str reaches a join, a positional choice, an ordered accumulation "
                   "or transaction numbering (import text being canonicalised by sort_imports). It does not decide "
                   "address-ordered sets of nodes, equal-key ties, or third-party determinism."),
    "level_note": "Trusted: CPython ast; the typing rules of sa/taint.py (which expressions are sets of str); assumption on sets of AST nodes stated in the evidence.",
}
