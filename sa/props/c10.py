"""C10 Rewrites are scheduled transactionally and never overlap (partial, DESIGN 3/C10)."""
from __future__ import annotations

import ast
import re
from typing import Dict, List, Optional, Set, Tuple

from ..defuse import assignments, call_arg
from ..model import AnalysisError, Func, Program, norm, parent, short, walk_own, walk_body
from ..pathcond import Lit, PathAnalysis, atoms_of, entails, show, show_text
from ..report import Result
from ..sched import Scheduler, atom, UNKNOWN


def is_overlap(e: ast.AST) -> bool:
    if isinstance(e, ast.BinOp) and isinstance(e.op, ast.BitAnd):
        return all(isinstance(x, (ast.Name, ast.Attribute, ast.Subscript)) for x in (e.left, e.right))
    return isinstance(e, ast.Call) and isinstance(e.func, ast.Attribute) and e.func.attr == "overlaps" and len(e.args) == 1


def overlap_operands(e: ast.AST) -> Tuple[ast.AST, ast.AST]:
    if isinstance(e, ast.BinOp):
        return e.left, e.right
    return e.func.value, e.args[0]


def overlap_tests(stmts) -> List[Tuple[ast.AST, ast.AST]]:
    """(if-statement or any()-call host, overlap expression) found in stmts."""
    out = []
    for n in walk_body(stmts):
        if isinstance(n, ast.If):
            for sub in ast.walk(n.test):
                if is_overlap(sub):
                    out.append((n, sub))
    return out


def loop_source(loop: ast.For) -> Tuple[Optional[str], Optional[ast.AST], Optional[str]]:
    """(collection name iterated, slice if any, enumerate index variable)"""
    it = loop.iter
    idx = None
    if isinstance(it, ast.Call) and isinstance(it.func, ast.Name) and it.func.id == "enumerate" and it.args:
        it = it.args[0]
        if isinstance(loop.target, ast.Tuple) and isinstance(loop.target.elts[0], ast.Name):
            idx = loop.target.elts[0].id
    sl = None
    if isinstance(it, ast.Subscript) and isinstance(it.slice, ast.Slice):
        sl = it.slice
        it = it.value
    if isinstance(it, ast.Name):
        return it.id, sl, idx
    return None, sl, idx


LATER_RULES = ' Later rule: (R10.9) a rule that moves a definition and rewrites its references uses one transaction value. (R10.11) the numbers the scheduler gives to unnumbered rewrites stay apart from the numbers rules choose; (R10.10) no single rewrite of an accepted transaction is refused on an ignore test against the partly rewritten text.'


def check(prog: Program, tier: str) -> Result:
    res = Result(
        "C10",
        explanation=(
            "Decides the structural clauses of the transactional scheduler on processing._schedule_rewrites / "
            "_apply_rewrites / fix / chain: (R10.1) every statement that adds to the returned schedule is reached only "
            "when no overlap test of the current transaction succeeded and no ignore comment was found; (R10.2) "
            "overlap is tested against the transaction's own later rewrites (all unordered pairs) and against "
            "everything already scheduled; (R10.3) the inserted elements are exactly the conflict-tested collection, "
            "unfiltered, and that collection holds every rewrite of the transaction; (R10.4) the schedule is sorted "
            "descending with the character range as primary key and applied once in that order, threading the text; "
            "(R10.5) invalid results roll back (C03 R3.1); (R10.6) ignore-comment rejection; (R10.7) fix/chain obtain "
            "their result only as _apply_rewrites(source, _schedule_rewrites(source, ...)); (R10.8) transactions are "
            "visited in sorted order of (rule index, transaction number). Not decided: duplicate elimination "
            "semantics, arithmetic inside Range.overlaps callers other than the pair-enumeration slice."),
        rule_text="instances = insertion sites, overlap tests, sort/iteration sites and call sequences of the scheduler; all carry obligations",
    )
    res.explanation += LATER_RULES
    res.trusted_base = ["CPython ast", "sa/pathcond.py", "sa/sched.py shape reader",
                        "anchors processing._schedule_rewrites, _apply_rewrites, fix, chain, _Transaction, core.Range.overlaps"]
    S = Scheduler(prog)
    fn = S.fn
    pa = PathAnalysis(prog, fn)

    # ---------------------------------------------------------------- R10.0 the overlap predicate itself
    _check_overlaps_predicate(prog, res)

    if not S.inserts:
        res.bad("R10.1", fn.loc(), fn.fq, f"no insertion into returned collection '{S.R}'",
                "nothing is ever scheduled or the schedule is built in an unrecognised way")
    # R may only be (re)bound to an empty collection or a sort of itself
    for stmt, value in S.R_defs:
        if value is not None and pa._is_empty_collection(value):
            continue
        if isinstance(value, ast.Call) and prog.dotted(value.func) == "sorted" and value.args and isinstance(value.args[0], ast.Name) \
                and value.args[0].id == S.R:
            continue
        res.bad("R10.1", fn.loc(stmt), fn.fq, norm(stmt), f"'{S.R}' is rebound to something other than an empty collection or a sort of itself: unguarded entry")

    for site, inserted, kind in S.inserts:
        where = fn.loc(site)
        text = norm(site)
        loops = S.loops_around(site)
        if not loops:
            res.bad("R10.1", where, fn.fq, text, "insertion into the schedule outside the per-transaction loop")
            continue
        L = loops[0]
        tests = overlap_tests(L.body)
        # ---- collection inserted (R10.3)
        coll = None
        filtered = False
        if kind == "many":
            e = inserted
            if isinstance(e, (ast.GeneratorExp, ast.ListComp, ast.SetComp)) and len(e.generators) == 1:
                g = e.generators[0]
                filtered = bool(g.ifs)
                it = g.iter
                if isinstance(it, ast.Subscript):
                    filtered = True
                    it = it.value
                coll = it.id if isinstance(it, ast.Name) else None
            elif isinstance(e, ast.Name):
                coll = e.id
            elif isinstance(e, ast.Subscript) and isinstance(e.value, ast.Name):
                coll, filtered = e.value.id, True
        if coll is None:
            res.undecided("R10.3", where, fn.fq, text, "inserted elements are not an iteration over a named collection")
        else:
            _check_whole_transaction(prog, res, S, pa, fn, L, site, coll, filtered, tests)

        # ---- guard (R10.1)
        if not tests:
            res.bad("R10.2", where, fn.fq, text, "no overlap test (range & range / overlaps()) in the transaction loop of this insertion")
            continue
        _check_guard(prog, res, S, pa, fn, L, site, tests)

        # ---- both conflict classes (R10.2)
        _check_conflict_classes(prog, res, S, pa, fn, L, site, coll, tests)

        # ---- ignore comments (R10.6)
        _check_ignore(prog, res, S, pa, fn, L, site, coll)

    # ---------------------------------------------------------------- R10.4 descending order / application
    _check_order(prog, res, S, pa)
    _check_apply(prog, res, S)
    # ---------------------------------------------------------------- R10.5 rollback (same obligations as C03 R3.1 on _apply_rewrites)
    from . import c03
    st = c03.SafeText(prog)
    ap = S.apply
    pa_ap = st.analysis(ap)
    tmp = Result("C10", "", "")
    for r in [n for n in walk_own(ap.node) if isinstance(n, ast.Return)]:
        c03._ret_obligation(tmp, prog, st, ap, pa_ap, ap.posparams[0], r, r.value)
    for ob in tmp.obligations:
        res.add("R10.5", ob.where, ob.func, ob.construct, ob.status, ob.detail, ob.trivial)
    # ---------------------------------------------------------------- R10.7 public decorators
    _check_decorators(prog, res)
    # ---------------------------------------------------------------- R10.8 precedence order
    _check_precedence(prog, res, S)
    _r10_9(prog, res)
    _r10_11(prog, res, S)
    res.floors.update({"R10.1": 1, "R10.2": 2, "R10.3": 2, "R10.4": 3, "R10.5": 3, "R10.6": 1, "R10.7": 2, "R10.8": 2, "R10.9": 1, "R10.10": 1, "R10.11": 1})
    res.analysed.update({"insertion_sites": len(S.inserts), "returned_collection": S.R})
    return res


# ------------------------------------------------------------------------------------------------ helpers
def _check_overlaps_predicate(prog: Program, res: Result) -> None:
    fn = prog.funcs.get(("core", "Range.overlaps"))
    op = prog.funcs.get(("core", "Range.__and__"))
    if fn is None:
        res.undecided("R10.0", "pyrefact/core.py:0", "core.Range", "Range.overlaps", "predicate not found under this name")
        return
    rets = [n for n in walk_own(fn.node) if isinstance(n, ast.Return) and n.value is not None]
    ok = False
    detail = "expected: a.start < b.end and b.start < a.end (strict, both conjuncts)"
    if len(rets) == 1 and len(fn.posparams) == 2:
        a, b = fn.posparams
        want = {("lt", f"{a}.start", f"{b}.end"), ("lt", f"{b}.start", f"{a}.end")}
        got = set()
        v = rets[0].value
        parts = v.values if isinstance(v, ast.BoolOp) and isinstance(v.op, ast.And) else [v]
        for p in parts:
            if isinstance(p, ast.Compare) and len(p.ops) == 1:
                l, r = norm(p.left), norm(p.comparators[0])
                if isinstance(p.ops[0], ast.Lt):
                    got.add(("lt", l, r))
                elif isinstance(p.ops[0], ast.Gt):
                    got.add(("lt", r, l))
                else:
                    got.add((type(p.ops[0]).__name__, l, r))
        ok = got == want
        detail += f"; found {sorted(got)}"
    res.decide(ok, "R10.0", fn.loc(), fn.fq, norm(rets[0]) if rets else "no return", detail)
    if op is not None:
        rets = [n for n in walk_own(op.node) if isinstance(n, ast.Return) and n.value is not None]
        good = len(rets) == 1 and isinstance(rets[0].value, ast.Call) and norm(rets[0].value) == f"{op.posparams[0]}.overlaps({op.posparams[1]})"
        res.decide(good, "R10.0", op.loc(), op.fq, norm(rets[0]) if rets else "no return", "`&` on ranges must be overlaps(self, other)")


def _flag_in_guard(pa: PathAnalysis, site: ast.AST, fn: Func) -> List[str]:
    """Names F such that every world reaching site contains the literal `not F`."""
    worlds = pa.worlds_at(site)
    if not worlds:
        return []
    cands: Optional[Set[str]] = None
    for w in worlds:
        here = set()
        for f in w.facts:
            if f[0] == "lit" and not f[2]:
                m = re.fullmatch(r"([A-Za-z_]\w*)#\w+", f[1])
                if m and w.token(m.group(1)) == f[1]:
                    here.add(m.group(1))
        cands = here if cands is None else cands & here
    return sorted(cands or [])


def _initialises_per_iteration(s: ast.AST, L: ast.AST, nodes) -> bool:
    """s is executed once per iteration of the loop L before every node of `nodes`: it sits in a statement list inside
    L (only if / with / try between it and L, no inner loop) and each of the nodes lies inside a LATER statement of that
    same list - whether the code before it is written with early `continue`s or as nesting."""
    a, child = parent(s), s
    block = None
    for fld in ("body", "orelse", "finalbody"):
        lst = getattr(a, fld, None)
        if isinstance(lst, list) and s in lst:
            block = lst
    if block is None:
        return False
    later = block[block.index(s) + 1:]
    inside_later = set()
    for st in later:
        inside_later |= {id(x) for x in ast.walk(st)}
    if not all(id(n) in inside_later for n in nodes):
        return False
    while a is not None and a is not L:
        if isinstance(a, (ast.For, ast.While, ast.AsyncFor, ast.FunctionDef, ast.AsyncFunctionDef, ast.Lambda)):
            return False
        a = parent(a)
    return a is L


def _check_guard(prog, res, S, pa, fn, L, site, tests) -> None:
    where, text = fn.loc(site), norm(site)
    worlds = pa.worlds_at(site)
    if not worlds:
        res.bad("R10.1", where, fn.fq, text, "insertion site is unreachable: nothing can ever be scheduled")
        return
    flags = []
    for F in _flag_in_guard(pa, site, fn):
        defs = assignments(fn, F)
        if defs and all(isinstance(v, ast.Constant) and isinstance(v.value, bool) for _, v in defs):
            flags.append(F)
    if flags:
        F = flags[0]
        problems = []
        defs = assignments(fn, F)
        falses = [s for s, v in defs if v.value is False]
        trues = [s for s, v in defs if v.value is True]
        first_test_line = min(t.lineno for t, _ in tests)
        test_nodes = [t for t, _ in tests]
        for s in falses:
            if not _initialises_per_iteration(s, L, test_nodes):
                problems.append(f"'{F} = False' at line {s.lineno} is not the per-transaction initialisation before the overlap tests")
        if not any(_initialises_per_iteration(s, L, test_nodes) for s in falses):
            problems.append(f"'{F}' is not initialised to False at the start of each transaction")
        for t, ov in tests:
            if not any(isinstance(s, ast.Assign) and s in trues for s in t.body):
                # an early exit of the whole transaction is as good as setting the flag
                if not _exits_loop(t.body, L, t):
                    problems.append(f"overlap test at line {t.lineno} ({norm(ov)}) does not set '{F} = True' in its true branch")
            if not _test_is_positive(t.test, ov):
                problems.append(f"overlap test at line {t.lineno} is negated: the flag is set when ranges do NOT overlap")
        for s in trues:
            host = parent(s)
            if not (isinstance(host, ast.If) and any(host is t for t, _ in tests) and s in host.body):
                problems.append(f"'{F} = True' at line {s.lineno} is not inside the true branch of an overlap test")
        res.decide(not problems, "R10.1", where, fn.fq, text,
                   "; ".join(problems) if problems else
                   f"reached only under `not {F}`; {F} is False at transaction start and set in the true branch of all {len(tests)} overlap test(s)")
        return
    # no flag: every overlap test must leave the transaction (continue of L / for-else)
    problems = []
    for t, ov in tests:
        if not _test_is_positive(t.test, ov):
            problems.append(f"overlap test at line {t.lineno} is negated")
        elif not _exits_transaction(t, L, site):
            problems.append(f"overlap test at line {t.lineno} ({norm(ov)}) neither sets a flag that guards the insertion nor leaves the transaction")
    if problems:
        # is the insertion guarded at all?
        res.bad("R10.1", where, fn.fq, text, "; ".join(problems))
    else:
        res.ok("R10.1", where, fn.fq, text, f"every one of the {len(tests)} overlap test(s) leaves the transaction before the insertion (early-exit idiom)")


def _test_is_positive(test: ast.AST, ov: ast.AST) -> bool:
    """ov occurs in test with positive polarity and as a conjunct (its truth is necessary for the branch)."""
    def walk(t, pol):
        if t is ov:
            return pol
        if isinstance(t, ast.UnaryOp) and isinstance(t.op, ast.Not):
            return walk(t.operand, not pol)
        if isinstance(t, ast.BoolOp):
            for v in t.values:
                r = walk(v, pol)
                if r is not None:
                    return r
        return None
    return walk(test, True) is True


def _exits_loop(body, L, host) -> bool:
    """body ends by leaving loop L entirely for this iteration: `continue`/`break` bound to L."""
    if not body:
        return False
    last = body[-1]
    if isinstance(last, (ast.Return, ast.Raise)):
        return True
    if isinstance(last, (ast.Continue, ast.Break)):
        n = parent(host)
        while n is not None and not isinstance(n, (ast.For, ast.While)):
            n = parent(n)
        return n is L and isinstance(last, ast.Continue)
    return False


def _exits_transaction(t: ast.If, L, site) -> bool:
    if _exits_loop(t.body, L, t):
        return True
    # for ...: if overlap: break  else: <insertion>
    if t.body and isinstance(t.body[-1], ast.Break):
        n = parent(t)
        while n is not None and not isinstance(n, (ast.For, ast.While)):
            n = parent(n)
        if n is not None and n is not L:
            # site must be inside n.orelse (possibly nested in further for-else)
            m = site
            while m is not None and m is not L:
                p = parent(m)
                if p is n:
                    return any(m is s for s in n.orelse)
                m = p
    return False


def _check_whole_transaction(prog, res, S, pa, fn, L, site, coll, filtered, tests) -> None:
    where, text = fn.loc(site), norm(site)
    if filtered:
        res.bad("R10.3", where, fn.fq, text, f"only part of '{coll}' is inserted (filter or slice): a transaction would be applied partially")
        return
    # the conflict-tested collection: the outermost loop (inside L) containing overlap tests iterates it
    tested = set()
    tok_tested = set()
    for t, ov in tests:
        n = parent(t)
        outer = None
        while n is not None and n is not L:
            if isinstance(n, ast.For):
                outer = n
            n = parent(n)
        if outer is not None:
            name, sl, idx = loop_source(outer)
            if sl is not None:
                res.bad("R10.3", fn.loc(outer), fn.fq, short(outer.iter), f"the conflict loop iterates a slice of '{name}': some rewrites of the transaction are never tested")
            if name:
                tested.add(name)
                for w in pa.at_stmt.get(id(outer), []):
                    tok_tested.add(w.token(name))
    toks_inserted = {w.token(coll) for w in pa.worlds_at(site)}
    if tested and coll not in tested:
        res.bad("R10.3", where, fn.fq, text, f"inserts '{coll}' but the overlap tests iterate {sorted(tested)}")
    elif tested and not toks_inserted <= tok_tested:
        res.bad("R10.3", where, fn.fq, text, f"'{coll}' is rebound between the conflict tests and the insertion ({sorted(tok_tested)} vs {sorted(toks_inserted)})")
    else:
        res.ok("R10.3", where, fn.fq, text, f"inserts every element of '{coll}', the collection the overlap tests iterate (same definition {sorted(toks_inserted)})")
    # coll derives from all rewrites of the transaction without filter
    chain = [(s, v) for s, v in assignments(fn, coll) if v is not None and _inside(s, L)]
    chain.sort(key=lambda d: d[0].lineno)
    problems = []
    if not chain:
        problems.append(f"'{coll}' is not defined inside the transaction loop")
    for i, (s, v) in enumerate(chain):
        src = _unfiltered_source(prog, v)
        if src is None:
            problems.append(f"line {s.lineno}: {short(v, 70)} filters, slices or recomputes the rewrites")
        elif i == 0 and not (src[0] == "dict" ):
            problems.append(f"line {s.lineno}: first definition of '{coll}' is not the transaction's entry of the rewrite table")
        elif i > 0 and not (src[0] == "name" and src[1] == coll):
            problems.append(f"line {s.lineno}: '{coll}' is rebuilt from {src[1]!r}, not from its previous value")
    first = chain[0][0] if chain else site
    res.decide(not problems, "R10.3", fn.loc(first), fn.fq, f"definition chain of {coll}",
               "; ".join(problems) if problems else f"{len(chain)} unfiltered definition(s) starting from the per-transaction table entry")


def _inside(node, loop) -> bool:
    n = parent(node)
    while n is not None:
        if n is loop:
            return True
        n = parent(n)
    return False


def _unfiltered_source(prog: Program, v: ast.AST):
    """('dict', name) for D[key]; ('name', n) for an unfiltered re-collection of collection n; None if filtered."""
    if isinstance(v, ast.Subscript) and isinstance(v.value, ast.Name) and not isinstance(v.slice, ast.Slice):
        return ("dict", v.value.id)
    if isinstance(v, ast.Call):
        d = prog.dotted(v.func)
        if d in ("sorted", "list", "tuple", "set", "frozenset", "reversed") and v.args:
            return _unfiltered_source(prog, v.args[0])
        if isinstance(v.func, ast.Attribute) and v.func.attr in ("copy",):
            return _unfiltered_source(prog, v.func.value)
        return None
    if isinstance(v, (ast.SetComp, ast.ListComp, ast.GeneratorExp)):
        if len(v.generators) != 1 or v.generators[0].ifs:
            return None
        return _unfiltered_source(prog, v.generators[0].iter)
    if isinstance(v, ast.Name):
        return ("name", v.id)
    return None


def _check_conflict_classes(prog, res, S, pa, fn, L, site, coll, tests) -> None:
    intra = inter = None
    for t, ov in tests:
        # the loop directly providing the "other" operand
        n = parent(t)
        while n is not None and not isinstance(n, ast.For):
            n = parent(n)
        if n is None or n is L:
            continue
        name, sl, idx = loop_source(n)
        if name == S.R and sl is None:
            inter = (t, n)
        elif name == coll:
            intra = (t, n, sl)
        elif isinstance(n.iter, ast.Call) and prog.dotted(n.iter.func) == "itertools.combinations" and n.iter.args \
                and isinstance(n.iter.args[0], ast.Name) and n.iter.args[0].id == coll:
            intra = (t, n, "combinations")
    where = fn.loc(site)
    if inter is None:
        res.bad("R10.2", where, fn.fq, "inter-transaction overlap test", f"no overlap test iterates the already scheduled rewrites '{S.R}' (unsliced)")
    else:
        res.ok("R10.2", fn.loc(inter[0]), fn.fq, "inter-transaction overlap test", f"overlap tested against every element of '{S.R}'")
    if intra is None:
        res.bad("R10.2", where, fn.fq, "intra-transaction overlap test", f"no overlap test iterates the transaction's own rewrites '{coll}'")
        return
    t, n, sl = intra
    if sl == "combinations":
        res.ok("R10.2", fn.loc(t), fn.fq, "intra-transaction overlap test", "all unordered pairs via itertools.combinations")
        return
    # pair coverage: outer loop enumerates coll with index i (start 0), inner iterates coll[i + 1:]
    outer = parent(n)
    while outer is not None and not isinstance(outer, ast.For):
        outer = parent(outer)
    oname, osl, oidx = loop_source(outer) if outer is not None and outer is not L else (None, None, None)
    ok = False
    detail = ""
    if sl is None:
        detail = "inner loop iterates the whole collection: every rewrite overlaps itself, so nothing with a non-empty range could be scheduled; expected coll[i + 1:]"
    elif oname != coll or oidx is None:
        detail = "the slice bound is not tied to an enumerate() index of the same collection"
    else:
        start_ok = isinstance(outer.iter, ast.Call) and len(outer.iter.args) == 1 and not outer.iter.keywords
        lower = sl.lower
        want = isinstance(lower, ast.BinOp) and isinstance(lower.op, ast.Add) and (
            (isinstance(lower.left, ast.Name) and lower.left.id == oidx and isinstance(lower.right, ast.Constant) and lower.right.value == 1)
            or (isinstance(lower.right, ast.Name) and lower.right.id == oidx and isinstance(lower.left, ast.Constant) and lower.left.value == 1))
        ok = bool(start_ok and want and sl.upper is None and sl.step is None)
        detail = (f"pairs (i, j>i) enumerated by {coll}[{oidx} + 1:]" if ok else
                  f"slice [{norm(sl.lower) if sl.lower else ''}:{norm(sl.upper) if sl.upper else ''}] does not enumerate all later elements of '{coll}' (expected [{oidx} + 1:], enumerate from 0)")
    res.decide(ok, "R10.2", fn.loc(t), fn.fq, "intra-transaction overlap test", detail)
    # the range operand must be the element of the outer loop and the other operand the element of the inner loop
    for t2, ov in tests:
        a, b = overlap_operands(ov)
        names = {x.id for x in (a, b) if isinstance(x, ast.Name)}
        inner = parent(t2)
        while inner is not None and not isinstance(inner, ast.For):
            inner = parent(inner)
        inner_vars = {x.id for x in ast.walk(inner.target) if isinstance(x, ast.Name)} if inner is not None else set()
        outer_vars = {x.id for x in ast.walk(outer.target) if isinstance(x, ast.Name)} if isinstance(outer, ast.For) and outer is not L else set()
        good = len(names) == 2 and len(names & inner_vars) == 1 and len(names & (outer_vars - inner_vars)) == 1
        res.decide(good, "R10.2", fn.loc(t2), fn.fq, f"operands of {norm(ov)}",
                   "one operand from the candidate rewrite, the other from the compared collection" if good else
                   f"operands {sorted(names)} are not (candidate range, other range): candidate loop binds {sorted(outer_vars)}, inner loop binds {sorted(inner_vars)}")


def _check_ignore(prog, res, S, pa, fn, L, site, coll) -> None:
    where, text = fn.loc(site), norm(site)
    worlds = pa.worlds_at(site)
    ok = bool(worlds)
    why = ""
    for w in worlds:
        tok = w.token(coll) if coll else None
        found = False
        for f in w.facts:
            if f[0] == "lit" and not f[2] and "has_ignore_comment(" in f[1] and (tok is None or tok in f[1]):
                found = True
        if not found:
            ok = False
            why = f"no fact `not any(has_ignore_comment(..) over {tok})` on a path to the insertion"
    # the test itself must cover every range of the collection (no filter)
    host = None
    for n in walk_body(L.body):
        if isinstance(n, ast.Call) and isinstance(n.func, ast.Name) and n.func.id in ("any", "all", "sum", "max", "min") and n.args \
                and isinstance(n.args[0], (ast.GeneratorExp, ast.ListComp)):
            g = n.args[0]
            if any(isinstance(c, ast.Call) and prog.dotted(c.func) in ("core.has_ignore_comment", "has_ignore_comment") for c in ast.walk(g.elt)):
                host = g
    if ok and host is not None:
        agg = parent(host)
        if not (isinstance(agg, ast.Call) and isinstance(agg.func, ast.Name) and agg.func.id == "any"):
            ok, why = False, "the ignore-comment test is not aggregated with any(): one annotated line must be enough to refuse the whole transaction"
    if ok and host is not None:
        gen = host.generators[0]
        if len(host.generators) != 1 or gen.ifs or not (isinstance(gen.iter, ast.Name) and gen.iter.id == coll):
            ok, why = False, "the ignore-comment test does not range over every rewrite of the transaction"
        else:
            # argument order: (source text parameter, the range component)
            call = next(c for c in ast.walk(host.elt) if isinstance(c, ast.Call) and prog.dotted(c.func) in ("core.has_ignore_comment", "has_ignore_comment"))
            a0 = call_arg(call, 0, "source")
            a1 = call_arg(call, 1, "rng")
            env = {}
            S._bind_shape(gen.target, S.elem_shape_of_collection(coll, host), env)
            sh = S.expr_shape(a1, env) if a1 is not None else UNKNOWN
            if not (isinstance(a0, ast.Name) and a0.id == fn.posparams[0]):
                ok, why = False, "has_ignore_comment is not given the source text being scheduled"
            elif sh != atom("range") and sh != UNKNOWN:
                ok, why = False, f"has_ignore_comment is given {sh}, not the rewrite's range"
    res.decide(ok, "R10.6", where, fn.fq, text,
               why or "reached only when no range of the transaction touches a line with an ignore comment")


def _check_order(prog, res, S: Scheduler, pa) -> None:
    fn = S.fn
    # last statement touching R before the return must be the sort
    ret = S.ret
    body = fn.node.body
    idx = body.index(ret) if ret in body else None
    sort_call = None
    if idx is not None and idx > 0:
        prev = body[idx - 1]
        if isinstance(prev, ast.Expr) and isinstance(prev.value, ast.Call) and isinstance(prev.value.func, ast.Attribute) \
                and prev.value.func.attr == "sort" and isinstance(prev.value.func.value, ast.Name) and prev.value.func.value.id == S.R:
            sort_call = prev.value
        elif isinstance(prev, ast.Assign) and isinstance(prev.value, ast.Call) and prog.dotted(prev.value.func) == "sorted" \
                and prev.value.args and isinstance(prev.value.args[0], ast.Name) and prev.value.args[0].id == S.R \
                and any(isinstance(t, ast.Name) and t.id == S.R for t in prev.targets):
            sort_call = prev.value
    if sort_call is None and isinstance(ret.value, ast.Call):
        pass
    if sort_call is None:
        res.bad("R10.4", fn.loc(ret), fn.fq, norm(ret), f"the statement before `return {S.R}` is not a sort of '{S.R}': application order depends on yield order")
        return
    rev = next((k.value for k in sort_call.keywords if k.arg == "reverse"), None)
    descending = isinstance(rev, ast.Constant) and rev.value is True
    res.decide(descending, "R10.4", fn.loc(sort_call), fn.fq, "sort direction",
               "reverse=True: later ranges are applied first, earlier offsets stay valid" if descending else
               "the schedule is not sorted descending (reverse=True missing): applying a rewrite shifts the offsets of the following ones")
    key = next((k.value for k in sort_call.keywords if k.arg == "key"), None)
    if key is None:
        res.bad("R10.4", fn.loc(sort_call), fn.fq, "sort key", "no key: elements are ordered by transaction first, not by range")
        return
    rk = S.resolve_key(key)
    if rk is None:
        res.undecided("R10.4", fn.loc(sort_call), fn.fq, "sort key", "key function not resolvable")
        return
    params, body_expr = rk
    # element shape of R: from the insertion sites
    shapes = []
    for site, inserted, kind in S.inserts:
        if kind == "many" and isinstance(inserted, (ast.GeneratorExp, ast.ListComp)):
            env = {}
            g = inserted.generators[0]
            if isinstance(g.iter, ast.Name):
                S._bind_shape(g.target, S.elem_shape_of_collection(g.iter.id, site), env)
            loops = S.loops_around(site)
            if loops and isinstance(loops[0].target, ast.Name):
                env.setdefault(loops[0].target.id, atom("transaction"))
            shapes.append(S.expr_shape(inserted.elt, env))
        elif kind == "one":
            shapes.append(S.expr_shape(inserted, {}))
    shape = shapes[0] if shapes and all(s == shapes[0] for s in shapes) else UNKNOWN
    env = {params[0]: shape} if params else {}
    comps = body_expr.elts if isinstance(body_expr, ast.Tuple) else [body_expr]
    first = S.expr_shape(comps[0], env)
    if shape == UNKNOWN:
        res.undecided("R10.4", fn.loc(sort_call), fn.fq, "sort key", "shape of schedule elements not recognised")
    else:
        res.decide(first == atom("range"), "R10.4", fn.loc(sort_call), fn.fq, "sort key primary component",
                   f"primary key component {norm(comps[0])} is the character range of the rewrite" if first == atom("range") else
                   f"primary key component {norm(comps[0])} has shape {first}, not the rewrite's character range (element shape {shape})")


def _check_apply(prog, res, S: Scheduler) -> None:
    ap = S.apply
    if len(ap.posparams) < 2:
        raise AnalysisError("_apply_rewrites: expected (source, rewrites)")
    text_p, list_p = ap.posparams[0], ap.posparams[1]
    loops = [n for n in walk_own(ap.node) if isinstance(n, ast.For)]
    hits = [l for l in loops if isinstance(l.iter, ast.Name) and l.iter.id == list_p]
    wrapped = [l for l in loops if l not in hits and any(isinstance(x, ast.Name) and x.id == list_p for x in ast.walk(l.iter))]
    if wrapped:
        res.bad("R10.4", ap.loc(wrapped[0]), ap.fq, short(wrapped[0].iter), "the schedule is re-ordered, sliced or filtered before application")
    if len(hits) != 1:
        res.bad("R10.4", ap.loc(), ap.fq, f"iteration over {list_p}", f"expected exactly one in-order loop over the schedule, found {len(hits)}")
        return
    loop = hits[0]
    # body threads the text: T = _do_rewrite(T, elem, ...)
    threaded = None
    for s in loop.body:
        if isinstance(s, ast.Assign) and isinstance(s.value, ast.Call) and len(s.targets) == 1 and isinstance(s.targets[0], ast.Name):
            r = prog.resolve_call(s.value.func, ap.mod, ap)
            if r and r[0] == "fn" and r[1].key == ("processing", "_do_rewrite") and s.value.args \
                    and isinstance(s.value.args[0], ast.Name) and s.value.args[0].id == s.targets[0].id:
                threaded = s
    conditional = any(isinstance(s, (ast.If, ast.Continue, ast.Break)) for s in walk_body(loop.body))
    ok = threaded is not None and not conditional
    res.decide(ok, "R10.4", ap.loc(loop), ap.fq, "in-order application",
               f"single loop over '{list_p}' in order; every rewrite threads the text through _do_rewrite" if ok else
               ("a scheduled rewrite can be skipped or the loop left early" if conditional else "the loop body does not thread the text through _do_rewrite"))
    if threaded is not None:
        _r10_10(prog, res, ap, threaded.value)
    if threaded is not None:
        T = threaded.targets[0].id
        inits = [v for s, v in assignments(ap, T) if s is not threaded and s.lineno < loop.lineno]
        init_ok = all(isinstance(v, ast.Name) and v.id == text_p for v in inits) and bool(inits) or T == text_p
        res.decide(init_ok, "R10.4", ap.loc(threaded), ap.fq, f"threaded text {T}",
                   "starts from the input text" if init_ok else f"'{T}' does not start from the input parameter '{text_p}'")


def _r10_11(prog, res, S: Scheduler) -> None:
    """A rewrite that comes without a transaction number is a transaction of its own.  The scheduler numbers those itself, and the
    numbers must not meet the ones rules choose (0, 1, 2, ..): a rule that yields both kinds would see its third unnumbered
    rewrite merged into its own transaction 2, dropped with it or dragging it down.  The numbers are kept apart by starting the
    scheduler's counter far below zero.  Obligation: the default number is drawn from a counter whose start is a negative constant
    of large magnitude (<= -10**6), stepped upwards by 1; anything else that can be read is a violation, what cannot be read is undecided."""
    fn = S.fn
    fill = [f for f in prog.funcs.values() if f.mod.name == fn.mod.name and f.qual.startswith(fn.qual + ".<locals>.")]
    site = None
    for g in fill:
        for a in walk_own(g.node):
            if isinstance(a, ast.Assign) and isinstance(a.targets[0], ast.Name) and not isinstance(a.value, (ast.Tuple, ast.Name)):
                p_ = parent(a)
                # inside the branch for 2-tuples: `len(tup) == 2`
                while p_ is not None and p_ is not g.node and not (isinstance(p_, ast.If) and "== 2" in norm(p_.test)):
                    p_ = parent(p_)
                if isinstance(p_, ast.If) and any(a is x for x in ast.walk(p_) if not any(a is y for o in p_.orelse for y in ast.walk(o))):
                    site = (g, a)
    if site is None:
        res.undecided("R10.11", fn.loc(), fn.fq, "default transaction numbers", "the branch for rewrites without a number was not found")
        return
    g, a = site
    v = a.value
    start = None
    how = None
    if isinstance(v, ast.Subscript) and isinstance(v.value, ast.Name):
        for f_ in (g, fn):
            for _s, d in __import__("sa.defuse", fromlist=["bindings"]).bindings(f_).get(v.value.id, []):
                if isinstance(d, ast.Dict) and d.values:
                    try:
                        start = ast.literal_eval(d.values[0])
                        how = f"{v.value.id} = {norm(d)}"
                    except Exception:
                        pass
    elif isinstance(v, ast.Call) and isinstance(v.func, ast.Name) and v.func.id == "next" and v.args and isinstance(v.args[0], ast.Name):
        for f_ in (g, fn):
            for _s, d in __import__("sa.defuse", fromlist=["bindings"]).bindings(f_).get(v.args[0].id, []):
                if isinstance(d, ast.Call) and norm(d.func).endswith("count"):
                    try:
                        start = ast.literal_eval(d.args[0]) if d.args else next((ast.literal_eval(k.value) for k in d.keywords if k.arg == "start"), 0)
                        how = f"{v.args[0].id} = {norm(d)}"
                    except Exception:
                        pass
    if start is None or not isinstance(start, int):
        res.undecided("R10.11", g.loc(a), g.fq, f"{short(a, 60)} # default transaction numbers", "where the number comes from cannot be read")
        return
    ok = start <= -10**6
    res.decide(ok, "R10.11", g.loc(a), g.fq, f"{short(a, 60)} # default transaction numbers",
               f"counted up from {start}: apart from the numbers rules choose" if ok else
               f"counted up from {start} ({how}): the same numbers rules choose for their transactions - the k-th unnumbered rewrite of a rule is merged into its transaction k "
               "(simplify_constrained_range yields both kinds)")


def _r10_10(prog, res, ap: Func, call: ast.Call) -> None:
    """All or nothing while applying: the scheduler accepted the transaction after testing every range for ignore comments on
    the text the ranges were computed for.  The function that applies ONE rewrite gets the partly rewritten text; an ignore
    test of its own there sees what later rewrites of the same line have already put in (a replacement that carries the
    comment, or mentions it in a string) and refuses this single rewrite: the transaction is half applied, and the result
    still parses, so nothing rolls it back.  Obligation: every ignore test in the single-rewrite applier that leads to
    handing the text back is switched off (a condition on a parameter) for the call from the scheduled applier."""
    from ..pathcond import PathAnalysis, plain
    r = prog.resolve_call(call.func, ap.mod, ap)
    one = r[1]
    passed = {k.arg: k.value for k in call.keywords}
    # "nothing but whitespace changed": a rewrite may be dropped as a no-op only when the two texts agree up to TRAILING blanks and
    # blank lines - indentation is syntax, a rewrite that only re-indents (a statement moved out of an if) is a real change
    from ..defuse import bindings as _bindings
    text_p = one.posparams[0] if one.posparams else "source"
    for t in walk_own(one.node):
        if not (isinstance(t, ast.If) and t.body and isinstance(t.body[-1], ast.Return) and isinstance(t.body[-1].value, ast.Name) and t.body[-1].value.id == text_p
                and isinstance(t.test, ast.Compare) and len(t.test.ops) == 1 and isinstance(t.test.ops[0], ast.Eq)):
            continue
        def shown(v: ast.AST) -> str:
            # what is done to the lines that are KEPT: the element expression and the iterables, not the filters (`if line.strip()`
            # only drops blank lines)
            if isinstance(v, (ast.ListComp, ast.GeneratorExp, ast.SetComp)):
                return norm(v.elt) + " " + " ".join(norm(g.iter) for g in v.generators)
            return norm(v)
        sides = []
        for e in (t.test.left, t.test.comparators[0]):
            txt = shown(e)
            if isinstance(e, ast.Name):
                txt += " " + " ".join(shown(v) for _s, v in _bindings(one).get(e.id, []) if v is not None)
            sides.append(txt)
        if not any(("splitlines" in x or "strip" in x) for x in sides):
            continue
        blob = " ".join(sides)
        strips_left = ".strip()" in blob or ".lstrip()" in blob or "str.strip" in blob or "str.lstrip" in blob
        res.decide(not strips_left, "R10.10", one.loc(t), one.fq, f"{short(t.test, 60)} # a rewrite dropped as whitespace-only",
                   "compared with trailing blanks and blank lines set aside only" if not strips_left else
                   "the comparison strips LEADING blanks too: a rewrite that only changes indentation (a statement moved out of a block) counts as `nothing changed` and is "
                   "dropped on its own, while the other rewrites of its transaction are applied")
    tests = [c for c in prog.calls_in(one) if (prog.dotted(c.func) or "").split(".")[-1] == "has_ignore_comment"]
    if not tests:
        res.ok("R10.10", one.loc(), one.fq, f"{one.node.name}() # applies one scheduled rewrite", "no ignore test of its own: the scheduler decides for the whole transaction")
        return
    pa = PathAnalysis(prog, one)
    for t in tests:
        # the condition under which the test is evaluated: every world at the test carries a fact `P` (positive literal of a
        # parameter) that the scheduled applier passes false, or `not P` for one it passes true
        worlds = pa.worlds_at(t)
        off = False
        for p_name, v in passed.items():
            if not isinstance(v, ast.Constant):
                continue
            want = not bool(v.value)        # the test may only be reached when P has the OTHER value
            if worlds and all(any(f[0] == "lit" and plain(f[1]) == p_name and f[2] == want for f in w.facts) for w in worlds):
                off = True
        res.decide(off, "R10.10", one.loc(t), one.fq, f"{short(t, 60)} # ignore test while a transaction is applied",
                   "not evaluated for scheduled rewrites" if off else
                   "a scheduled rewrite is tested again on the PARTLY REWRITTEN text and refused on its own: when another rewrite of the transaction has put "
                   "`# pyrefact: ignore` (as a comment or inside a string) on the same line, the transaction is half applied and the result still parses")


def _check_decorators(prog, res) -> None:
    for qual in ("fix.<locals>.fix_decorator.<locals>.wrapper", "chain.<locals>.func_chain"):
        fn = prog.funcs.get(("processing", qual))
        if fn is None:
            res.bad("R10.7", "pyrefact/processing.py:0", f"processing.{qual}", "anchor missing", "public decorator closure not found")
            continue
        text_p = fn.posparams[0]
        applies = []
        direct = []
        for c in prog.calls_in(fn):
            r = prog.resolve_call(c.func, fn.mod, fn)
            if r and r[0] == "fn":
                if r[1].key == ("processing", "_apply_rewrites"):
                    applies.append(c)
                elif r[1].key in (("processing", "_do_rewrite"), ("processing", "_replace_nodes"), ("processing", "alter_code"),
                                  ("processing", "remove_nodes"), ("processing", "_insert_nodes")):
                    direct.append(c)
        if direct:
            res.bad("R10.7", fn.loc(direct[0]), fn.fq, norm(direct[0]), "rewrites applied without going through the scheduler")
        if len(applies) != 1:
            res.bad("R10.7", fn.loc(), fn.fq, "call of _apply_rewrites", f"expected exactly one, found {len(applies)}")
            continue
        c = applies[0]
        a0, a1 = call_arg(c, 0, "source"), call_arg(c, 1, "rewrites")
        sched = a1
        if isinstance(a1, ast.Name):
            defs = assignments(fn, a1.id)
            sched = defs[0][1] if len(defs) == 1 else None
        ok = False
        detail = "second argument is not (a variable bound once to) a call of _schedule_rewrites"
        if isinstance(sched, ast.Call):
            r = prog.resolve_call(sched.func, fn.mod, fn)
            if r and r[0] == "fn" and r[1].key == ("processing", "_schedule_rewrites"):
                s0 = call_arg(sched, 0, "source")
                same = isinstance(a0, ast.Name) and isinstance(s0, ast.Name) and a0.id == s0.id == text_p
                between = False
                if same and isinstance(a1, ast.Name):
                    # no rebinding of the text between scheduling and application
                    ds = assignments(fn, a1.id)[0][0]
                    for s, _ in assignments(fn, text_p):
                        if ds.lineno < s.lineno < c.lineno:
                            between = True
                ok = same and not between
                detail = ("the schedule is computed for, and applied to, the same text" if ok else
                          "the schedule is computed for a different text than it is applied to")
        # the result of _apply_rewrites must become the text
        st = parent(c)
        assigned = isinstance(st, ast.Assign) and any(isinstance(t, ast.Name) and t.id == text_p for t in st.targets)
        if ok and not assigned:
            ok, detail = False, "the result of _apply_rewrites is not the new text"
        res.decide(ok, "R10.7", fn.loc(c), fn.fq, norm(c), detail)


def _check_precedence(prog, res, S: Scheduler) -> None:
    fn = S.fn
    site = S.inserts[0][0] if S.inserts else None
    loops = S.loops_around(site) if site is not None else []
    if not loops:
        res.undecided("R10.8", fn.loc(), fn.fq, "transaction loop", "not found")
        return
    L = loops[0]
    it = L.iter
    ok = isinstance(it, ast.Call) and prog.dotted(it.func) == "sorted" and len(it.args) == 1 and not it.keywords
    res.decide(ok, "R10.8", fn.loc(L), fn.fq, f"for {norm(L.target)} in {short(it, 60)}",
               "transactions visited in ascending sorted() order" if ok else
               "transactions are not visited in plain ascending sorted() order: precedence (earlier rule, lower number) is lost")
    ci = prog.classes.get(("processing", "_Transaction"))
    if ci is None:
        res.undecided("R10.8", "pyrefact/processing.py:0", "processing._Transaction", "class", "not found")
        return
    fields = [s.target.id for s in ci.node.body if isinstance(s, ast.AnnAssign) and isinstance(s.target, ast.Name)]
    deco = " ".join(norm(d) for d in ci.node.decorator_list)
    ordered = "order=True" in deco and "dataclass" in deco
    # constructor call: first field <- enumerate index of the rule loop, second <- transaction id from the rule
    ctor = [c for c in prog.calls_in(fn) if isinstance(c.func, ast.Name) and c.func.id == "_Transaction"]
    good_ctor = False
    detail = ""
    if ctor and len(fields) >= 2:
        c = ctor[0]
        a0 = call_arg(c, 0, fields[0])
        a1 = call_arg(c, 1, fields[1])
        outer = S.loops_around(c)
        rule_loop = outer[-1] if outer else None
        name, sl, idx = loop_source(rule_loop) if isinstance(rule_loop, ast.For) else (None, None, None)
        good_ctor = isinstance(a0, ast.Name) and a0.id == idx and isinstance(a1, ast.Name) and a1.id != idx
        detail = f"_Transaction({norm(a0) if a0 else '?'}, {norm(a1) if a1 else '?'}, ..) with fields {fields[:2]}, rule index variable '{idx}'"
    res.decide(ordered and good_ctor, "R10.8", ci.mod.path.replace(prog.root + "/", "") + f":{ci.node.lineno}", "processing._Transaction",
               "ordering of transactions",
               (detail + "; dataclass(order=True) compares (rule index, transaction number) lexicographically") if ordered and good_ctor
               else f"_Transaction does not order by (rule index, transaction number): decorators [{deco}], {detail}")
    # the per-rule filter `if t.group_number != k: continue`
    cont = [n for n in L.body if isinstance(n, ast.If) and n.body and isinstance(n.body[-1], ast.Continue)]
    res.ok("R10.8", fn.loc(L), fn.fq, "per-rule processing", f"{len(cont)} early-continue guard(s) in the transaction loop", trivial=True)


def _r10_9(prog: Program, res: Result) -> None:
    """Rewrites that are only right TOGETHER belong to one transaction - that is what transactions are for.  A rule that moves a
    definition (yields its deletion and the insertion of a rebuilt FunctionDef / ClassDef under a new name) and also rewrites the
    references to it (yields replacements collected in a dict beforehand) must give all of them the same transaction value: if
    the move is dropped because it overlaps something, the renamed references point at a name that does not exist.
    Obligation: the transaction variable of such a rule has one value - it is bound once and never stepped."""
    from ..defuse import bindings
    n = 0
    for fn in prog.funcs.values():
        if not fn.is_fix:
            continue
        ys = [y for y in walk_own(fn.node) if isinstance(y, ast.Yield) and isinstance(y.value, ast.Tuple) and len(y.value.elts) == 3]
        inserts_def = False
        for y in ys:
            a, b, _t = y.value.elts
            if isinstance(a, ast.Constant) and a.value is None and isinstance(b, ast.Name):
                for _s, v in bindings(fn).get(b.id, []):
                    if isinstance(v, ast.Call) and (prog.dotted(v.func) or "") in ("ast.FunctionDef", "ast.AsyncFunctionDef", "ast.ClassDef") \
                            and any(k.arg == "name" and not (isinstance(k.value, ast.Attribute) and k.value.attr == "name") for k in v.keywords):
                        inserts_def = True
        from_dict = [y for y in ys if isinstance(parent(y), ast.Expr) and isinstance(parent(parent(y)), ast.For) and isinstance(parent(parent(y)).iter, ast.Call)
                     and isinstance(parent(parent(y)).iter.func, ast.Attribute) and parent(parent(y)).iter.func.attr == "items"]
        if not (inserts_def and from_dict):
            continue
        n += 1
        tvars = {y.value.elts[2].id for y in ys if isinstance(y.value.elts[2], ast.Name)}
        consts = {norm(y.value.elts[2]) for y in ys if not isinstance(y.value.elts[2], ast.Name)}
        steps = [x for x in walk_own(fn.node) if isinstance(x, ast.AugAssign) and isinstance(x.target, ast.Name) and x.target.id in tvars]
        values = set(consts)
        for tv in tvars:
            values |= {norm(v) for _s, v in bindings(fn).get(tv, []) if v is not None and not isinstance(_s, ast.AugAssign)}
        ok = not steps and len(values) == 1
        res.decide(ok, "R10.9", fn.loc(ys[0]), fn.fq, f"{fn.name} # transactions of a definition move and of the rewritten references",
                   "one transaction for the move and the references" if ok else
                   f"the references are rewritten in one transaction and the definitions move in others (values {sorted(values)}{', stepped' if steps else ''}): when a move overlaps another "
                   "rewrite it is dropped alone and the references point at a name that was never created (recursive static method: NameError)")
    if n == 0:
        res.ok("R10.9", "pyrefact/", "package", "rules that move a definition and rewrite its references", "none found", trivial=True)


# ---------------------------------------------------------------------------------------------- self-test
from ..selftest import Variant  # noqa: E402

_INTRA = """                for _, (other, _) in rewrites[i + 1 :]:
                    if rewrite_range & other:
                        logger.error(
                            overlap_error_format.format(
                                transaction=t,
                                range=tuple(rewrite_range),
                                other=tuple(other),
                        ))
                        conflicting = True
                        break
"""
_INTER = """                for _, (other, _) in scheduled_rewrites:
                    if rewrite_range & other:
                        logger.error(
                            overlap_error_format.format(
                                transaction=t,
                                range=tuple(rewrite_range),
                                other=tuple(other),
                        ))
                        conflicting = True
                        break
"""

VARIANTS = [
    Variant("scheduled-rewrites-tested-again-one-by-one", "FIRE", "processing", "    if not scheduled and core.has_ignore_comment(source, core.Range(start, end)):", "    if core.has_ignore_comment(source, core.Range(start, end)):", "R10.10"),
    Variant("applier-forgets-to-say-the-rewrites-are-scheduled", "FIRE", "processing", "new_source, rewrite, fix_function_name=transaction.group_name, scheduled=True", "new_source, rewrite, fix_function_name=transaction.group_name", "R10.10"),
    Variant("ignore-test-of-single-rewrites-nested-under-the-flag", "SILENT", "processing", "    if not scheduled and core.has_ignore_comment(source, core.Range(start, end)):\n        return source\n",
            "    if not scheduled:\n        if core.has_ignore_comment(source, core.Range(start, end)):\n            return source\n"),
    Variant("moves-in-transactions-of-their-own", "FIRE", "object_oriented", "            yield None, funcdef_static, transaction\n", "            yield None, funcdef_static, transaction\n\n            transaction += 1\n", "R10.9"),
    Variant("intra-loop-forgets-flag", "FIRE", "processing", _INTRA, _INTRA.replace("                        conflicting = True\n", ""), "R10.1"),
    Variant("inter-loop-forgets-flag", "FIRE", "processing", _INTER, _INTER.replace("                        conflicting = True\n", ""), "R10.1"),
    Variant("guard-deleted", "FIRE", "processing",
            "            if not conflicting:\n                scheduled_rewrites.extend(((t, r) for r in rewrites))",
            "            scheduled_rewrites.extend(((t, r) for r in rewrites))", "R10.1"),
    Variant("guard-flipped", "FIRE", "processing",
            "            if not conflicting:\n                scheduled_rewrites.extend", "            if conflicting:\n                scheduled_rewrites.extend", "R10.1"),
    Variant("partial-transaction", "FIRE", "processing",
            "scheduled_rewrites.extend(((t, r) for r in rewrites))", "scheduled_rewrites.extend(((t, r) for r in rewrites[:1]))", "R10.3"),
    Variant("ascending-sort", "FIRE", "processing",
            "            tup[0]  # Transaction number\n        ),\n        reverse=True,\n    )",
            "            tup[0]  # Transaction number\n        ),\n        reverse=False,\n    )", "R10.4"),
    Variant("inter-loop-removed", "FIRE", "processing", _INTER, "", "R10.2"),
    Variant("intra-slice-skips-neighbour", "FIRE", "processing", "in rewrites[i + 1 :]:", "in rewrites[i + 2 :]:", "R10.2"),
    Variant("wrapper-applies-directly", "FIRE", "processing",
            "                source = _apply_rewrites(source, scheduled_rewrites)\n\n                if source in history:\n                    break\n\n            return source\n\n        wrapper._fix_func",
            "                for _, (_, rewrite) in scheduled_rewrites:\n                    source = _do_rewrite(source, rewrite)\n\n                if source in history:\n                    break\n\n            return source\n\n        wrapper._fix_func", "R10.7"),
    Variant("ignore-test-deleted", "FIRE", "processing",
            "            if any(core.has_ignore_comment(source, rng) for rng, _ in rewrites):\n                logger.debug(\"Ignoring transaction {transaction} due to ignore comment.\", transaction=t)\n                continue\n",
            "", "R10.6"),
    Variant("ignore-test-all-instead-of-any", "FIRE", "processing",
            "            if any(core.has_ignore_comment(source, rng) for rng, _ in rewrites):", "            if all(core.has_ignore_comment(source, rng) for rng, _ in rewrites):", "R10.6"),
    Variant("transactions-reverse-order", "FIRE", "processing",
            "        for t in sorted(transaction_rewrites):\n            if t.group_number != k:", "        for t in sorted(transaction_rewrites, reverse=True):\n            if t.group_number != k:", "R10.8"),
    Variant("overlap-non-strict", "FIRE", "core",
            "return self.start < other.end and other.start < self.end", "return self.start < other.end or other.start < self.end", "R10.0"),
    Variant("apply-skips-some", "FIRE", "processing",
            "    for transaction, (_, rewrite) in rewrites:\n        new_source = _do_rewrite(",
            "    for transaction, (_, rewrite) in rewrites[1:]:\n        new_source = _do_rewrite(", "R10.4"),
    Variant("sort-key-drops-range", "FIRE", "processing",
            "            tup[1][0],  # Character numbers of rewrite, a core.Range type\n", "", "R10.4"),
    Variant("early-continue-instead-of-guard", "SILENT", "processing",
            "            if not conflicting:\n                scheduled_rewrites.extend(((t, r) for r in rewrites))",
            "            if conflicting:\n                continue\n            scheduled_rewrites.extend(((t, r) for r in rewrites))"),
    Variant("overlaps-method", "SILENT", "processing",
            "                for _, (other, _) in scheduled_rewrites:\n                    if rewrite_range & other:",
            "                for _, (other, _) in scheduled_rewrites:\n                    if rewrite_range.overlaps(other):"),
    Variant("sorted-instead-of-sort", "SILENT", "processing",
            "    scheduled_rewrites.sort(\n        key=lambda tup: (", "    scheduled_rewrites = sorted(\n        scheduled_rewrites,\n        key=lambda tup: ("),
    Variant("append-loop-instead-of-extend", "SILENT", "processing",
            "                scheduled_rewrites.extend(((t, r) for r in rewrites))",
            "                scheduled_rewrites.extend([(t, r) for r in rewrites])"),
]

META = {
    "design_ref": "DESIGN.md section 3, C10",
    "technique": "path-condition + def-use analysis of the scheduler (guarded single entry, pair coverage, whole-transaction insertion, descending in-order application); refusal analysis of the single-rewrite applier (no ignore test / whitespace-only drop on the partly rewritten text)",
    "level_text": ("Decides on the current source the structural clauses that make scheduling transactional: insertion "
                   "into the schedule only under 'no overlap found and no ignore comment', overlap tested against all "
                   "later rewrites of the transaction and everything scheduled, the whole unfiltered transaction "
                   "inserted, descending range order applied once in order with rollback, fix/chain going through the "
                   "scheduler, precedence order of transactions. It does not decide value-level behaviour (duplicate "
                   "elimination, the text produced by _do_rewrite)."),
    "level_note": "Trusted: CPython ast; anchors _schedule_rewrites/_apply_rewrites/fix/chain/_Transaction/Range.overlaps; the path-condition engine; the tuple-shape reader in sa/sched.py.",
}
