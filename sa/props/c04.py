"""C04 The formatter is total: it never raises and always terminates (partial, DESIGN 3/C04)."""
from __future__ import annotations

import ast
import re
import textwrap
from typing import Dict, List, Optional, Set, Tuple

from ..defuse import assignments, bindings, call_arg, names_in
from ..evaluator import SIGNAL, Evaluator, caught, covers, enclosing_tries, exc_class, handler_names
from ..model import AnalysisError, Func, Program, ancestors, norm, parent, short, walk_own, walk_body
from ..pathcond import Lit, PathAnalysis, World, entails, plain, world_has
from ..report import Result
from . import c15

ORDERING = (ast.Lt, ast.LtE, ast.Gt, ast.GtE)
WHILE_TABLE = {
    "abstractions.create_abstractions", "abstractions.overused_constant", "fixes._get_unused_imports",
    "fixes.align_variable_names_with_convention", "fixes.move_imports_to_toplevel", "fixes.early_return",
    "fixes.replace_for_loops_with_dict_comp", "fixes.replace_for_loops_with_set_list_comp",
    "fixes.replace_nested_loops_with_set_list_comp", "fixes.missing_context_manager", "parsing.iter_bodies_recursive",
    "parsing.safe_callable_names", "performance.remove_redundant_chained_calls",
    "processing.minimize_whitespace_line_differences", "symbolic_math.simplify_constrained_range",
}
DRIVERS = [("main", "format_code"), ("processing", "fix.<locals>.fix_decorator.<locals>.wrapper"),
           ("processing", "chain.<locals>.func_chain"), ("main", "format_files")]
# explicit raise / assert statements known to be reachable from format_code on valid input (confirmed dynamically)
REACHABLE_RAISES = {
    ("fixes._get_func_name_start_end", "raise RuntimeError(f'Cannot find {node.name} in code block:\\n{codeblock}')"):
        "format_code('def \\ufb01nd(x):\\n    return x\\nprint(\\ufb01nd(1))\\n') -> RuntimeError (the tree has the NFKC-normalised name `find`, the text has the ligature)",
    ("style.rename_variable", "raise RuntimeError(f'Unable to find a replacement name for {variable}')"):
        "format_code('\\u00e9 = 1\\nprint(\\u00e9)\\n') -> RuntimeError (non-ASCII identifier has no snake_case form)",
    ("fixes.align_variable_names_with_convention", "assert isinstance(target, (ast.Name, ast.Attribute))"):
        "format_code('from typing import List, Tuple\\nA, B = List, Tuple\\nprint(A, B)\\n') -> AssertionError (tuple target of a typedef)",
}


LATER_RULES = " Later rules: (R4.i) keyless orderings of tuples that can hold None; (R4.j) operations on other modules for import tracing sit in handlers; (R4.k) constant-index access to regex match lists; (R4.l) contradiction rule for snippet parses; (R4.m) validity oracles are total (SyntaxError, ValueError, RecursionError, MemoryError); (R4.n) program text handed to sympy's parser is fenced for Exception; (R4.o) loosely annotated options are normalised before set algebra; (R4.p) = C17 R17.9; (R4.q) constant-index access to possibly-empty list fields is justified by path facts, the selecting template (sa/shapes.py) or the grammar, three-valued; (R4.r) contradiction rule for computed indexes; (R4.s) operator fields of constructed nodes have the right category; (R4.t) unbound set methods are not applied to frozensets; (R4.u) no call on the tracing path executes code of the analysed project (find_spec of dotted names, import_module outside the standard library); (R4.v) format_code is fenced against the depth of the syntax tree (RecursionError hands the input back); (R4.w) a cut byte string is decoded with an errors policy that cannot raise; (R4.z) min / max of a kind-filtered statement list is taken only when something is left; (R4.y) no pattern applied to program text has an ambiguous alternative under a star (regex AST); (R4.x) of several substitutions with the same ambiguous repeated group the run limiter comes first (backtracking cost)."


def check(prog: Program, tier: str) -> Result:
    res = Result(
        "C04",
        explanation=(
            "Structural clauses of totality: (R4.a) evaluator error discipline - foreign calls inside "
            "core.literal_value are converted to the ValueError signal, every external call handles it, and every "
            "operation applied to an evaluated value outside the evaluator that can raise on well-formed literals "
            "(ordering, arithmetic, iteration, subscripting) is inside a handler covering TypeError or under a type "
            "test; (R4.b) every value yielded by a @processing.fix generator has the shape fill_transaction accepts "
            "(2- or 3-tuple, third component a transaction id); (R4.c) recursion on a new text makes progress: the "
            "recursive call is reached only if the text changed, or alter_code was given additions/removals on every "
            "path, and recursion over file-system texts carries a bound; (R4.d) the drivers re-run rules in "
            "`for .. in range(..)` loops and every while loop of the table keeps a recognised variant; (R4.e) helper "
            "functions that signal 'not applicable' by raising have every call site inside a matching handler "
            "(contradiction rule over call sites); (R4.f) every literal replace template only uses wildcards its find "
            "template binds, and find templates parse; (R4.g) explicit raise/assert statements known to be reachable "
            "on valid input; (R4.h) the rollback back-ends hand only validated texts to functions that parse their "
            "argument; (R4.i) keyless orderings of tuples that can hold None (alias.asname, ImportFrom.module) - None < str raises. "
            "(R4.j) operations on OTHER modules on behalf of import tracing (import / find_spec / open / read / parse) are inside handlers for their "
            "documented exceptions; (R4.k) constant-index access to lists of regex matches only where the pattern always matches or the list was tested. "
            "Not decided: general index arithmetic on runtime text, time bounds (regex backtracking), third-party code."),
        rule_text="instances = evaluator sites, yields of rule generators, recursive calls, loops, signal call sites, find/replace template pairs, raise/assert statements",
    )
    res.explanation += LATER_RULES
    res.trusted_base = ["CPython ast, builtins exception hierarchy", "sa/pathcond.py", "table of while loops confirmed by reading (WHILE_TABLE)",
                        "summary: processing.alter_code changes its input whenever additions or removals are non-empty"]
    ev = Evaluator(prog)
    c15.r15_2(prog, res, ev, "R4.a")
    _r4_a3(prog, res, ev)
    _r4_b(prog, res)
    _r4_c(prog, res)
    _r4_d(prog, res)
    _r4_e(prog, res)
    _r4_f(prog, res)
    _r4_g(prog, res)
    _r4_h(prog, res)
    _r4_i(prog, res)
    _r4_j(prog, res)
    _r4_u(prog, res)
    _r4_v(prog, res)
    _r4_w(prog, res)
    _r4_x(prog, res)
    _r4_y(prog, res)
    _r4_z(prog, res)
    _r4_k(prog, res)
    _r4_l(prog, res)
    _r4_m(prog, res)
    _r4_n(prog, res)
    _r4_o(prog, res)
    _r4_q(prog, res)
    _r4_r(prog, res)
    _r4_s(prog, res)
    _r4_t(prog, res)
    # R4.p: arithmetic / ordering on the value of a matched constant raises TypeError inside the formatter for 'a' or None
    # unless the selecting template pins the value type - decided by the C17 check (R17.9), adopted
    from . import c17 as _c17
    _tmp = Result("C17", "", "")
    _c17._r17_9(prog, _tmp)
    res.adopt(_tmp, {"R17.9"}, "R4.p", "an unpinned constant can be a str or None: the operation raises TypeError out of the rule and out of format_code")
    res.floors.update({"R4.y": 5, "R4.x": 1, "R4.w": 1, "R4.v": 1, "R4.u": 2, "R4.t": 1, "R4.s": 20, "R4.r": 1, "R4.q": 30, "R4.p": 3, "R4.o": 2, "R4.n": 2, "R4.m": 2, "R4.a": 25, "R4.b": 200, "R4.c": 4, "R4.d": 18, "R4.e": 8, "R4.f": 40, "R4.h": 2, "R4.i": 2, "R4.j": 5, "R4.k": 1})
    return res


# ------------------------------------------------------------------------------------------------ R4.a obligation 3
def _r4_a3(prog: Program, res: Result, ev: Evaluator) -> None:
    seen = set()
    for f, c in ev.call_sites():
        st = parent(c)
        var = None
        if isinstance(st, ast.Assign) and len(st.targets) == 1 and isinstance(st.targets[0], ast.Name) and st.value is c:
            var = st.targets[0].id
        if var is None or (f.key, var) in seen:
            continue
        seen.add((f.key, var))
        pa = None
        # a type gate on an evaluated value that is later ORDERED (against another evaluated value, or inside the bound tables) must
        # admit only types with a total order among themselves: int / float / bool (numbers.Real ..) - not complex, not numbers.Number
        for t_ in walk_own(f.node):
            if isinstance(t_, ast.Call) and isinstance(t_.func, ast.Name) and t_.func.id == "isinstance" and len(t_.args) == 2 \
                    and isinstance(t_.args[0], ast.Name) and t_.args[0].id == var:
                classes = [norm(e) for e in (t_.args[1].elts if isinstance(t_.args[1], ast.Tuple) else [t_.args[1]])]
                numeric_gate = any(c_ in ("int", "float", "numbers.Real", "numbers.Number", "numbers.Complex", "complex", "numbers.Integral", "numbers.Rational") for c_ in classes)
                if not numeric_gate:
                    continue
                unordered = [c_ for c_ in classes if c_ in ("complex", "numbers.Number", "numbers.Complex", "object")]
                res.decide(not unordered, "R4.a", f.loc(t_), f.fq, f"{short(t_, 60)} # type gate of an evaluated value that is compared later",
                           "admits types with a total order among themselves" if not unordered else
                           f"{unordered} admit complex numbers: `x > 1j and x > 2` puts 1j into the table of bounds and `1j > 2` raises TypeError outside any handler")
        for u in walk_own(f.node):
            if not (isinstance(u, ast.Name) and u.id == var and isinstance(u.ctx, ast.Load)):
                continue
            p = parent(u)
            risky = None
            if isinstance(p, ast.Compare):
                ops = list(p.ops)
                operands = [p.left] + list(p.comparators)
                idx = next(i for i, o in enumerate(operands) if o is u)
                involved = [ops[i] for i in (idx - 1, idx) if 0 <= i < len(ops)]
                if any(isinstance(o, ORDERING) for o in involved):
                    risky = "ordering comparison"
                elif any(isinstance(o, (ast.In, ast.NotIn)) for o in involved) and idx > 0 and isinstance(ops[idx - 1], (ast.In, ast.NotIn)):
                    risky = "membership test in the value"
            elif isinstance(p, ast.BinOp):
                risky = "arithmetic"
            elif isinstance(p, ast.Subscript) and p.value is u:
                risky = "subscript"
            elif isinstance(p, (ast.For, ast.comprehension)) and p.iter is u:
                risky = "iteration"
            elif isinstance(p, ast.UnaryOp) and isinstance(p.op, (ast.USub, ast.UAdd, ast.Invert)):
                risky = "unary arithmetic"
            if risky is None:
                continue
            text = f"{risky} on evaluated value: {short(p if not isinstance(p, (ast.For, ast.comprehension)) else p.iter, 60)}"
            h = caught(u, f, "TypeError")
            if h is not None:
                res.ok("R4.a", f.loc(u), f.fq, text, f"inside a handler covering TypeError {handler_names(h)}")
                continue
            pa = pa or PathAnalysis(prog, f)
            worlds = pa.worlds_at(u)
            typed = bool(worlds) and all(world_has(w, True, lambda t: t.startswith("isinstance(" + var + ",")) for w in worlds)
            # the other operand evaluated too and both passed a numeric test?
            res.decide(typed, "R4.a", f.loc(u), f.fq, text,
                       f"reached only under an isinstance test on {var}" if typed else
                       f"{risky} on a value returned by literal_value with no handler for TypeError and no type test: well-formed literals of unexpected type ('a' < 1, iterating 5) crash the formatter")


# ------------------------------------------------------------------------------------------------ R4.b
def _find_replace_arity(call: ast.Call) -> Tuple[int, bool]:
    kw = {k.arg: k.value for k in call.keywords}
    n = 2
    if "transaction" in kw and not (isinstance(kw["transaction"], ast.Constant) and kw["transaction"].value is None):
        n += 1
    ym = kw.get("yield_match")
    has_match = isinstance(ym, ast.Constant) and ym.value is True
    return n + (1 if has_match else 0), has_match


def _r4_b(prog: Program, res: Result) -> None:
    for fn in prog.funcs.values():
        if not fn.is_fix:
            continue
        for n in walk_own(fn.node):
            if isinstance(n, ast.Yield):
                v = n.value
                text = short(n, 90)
                if isinstance(v, ast.Tuple):
                    k = len(v.elts)
                    ok = k in (2, 3) and not any(isinstance(e, ast.Starred) for e in v.elts)
                    detail = f"{k}-tuple"
                    if ok and k == 3:
                        third = v.elts[2]
                        if isinstance(third, (ast.Call,)) and (prog.dotted(third.func) or "").startswith("ast."):
                            ok, detail = False, "third component is an AST node, not a transaction id"
                    res.decide(ok, "R4.b", fn.loc(n), fn.fq, text, detail if ok else f"fill_transaction accepts 2- or 3-tuples (old, new[, transaction]); this yields a {detail}")
                elif isinstance(v, ast.Name):
                    shape = _name_shape(prog, fn, v.id, n)
                    if shape is None:
                        res.undecided("R4.b", fn.loc(n), fn.fq, text, "shape of the yielded variable not resolvable")
                    else:
                        ok, detail = shape
                        res.decide(ok, "R4.b", fn.loc(n), fn.fq, text, detail)
                elif v is None:
                    res.bad("R4.b", fn.loc(n), fn.fq, text, "bare yield: fill_transaction calls len(None)")
                elif isinstance(v, ast.Call) and ((prog.dotted(v.func) or "").startswith("ast.") or isinstance(v.func, ast.Call)):
                    res.bad("R4.b", fn.loc(n), fn.fq, text, "yields a bare AST node: fill_transaction calls len() on it -> TypeError (the (old, new) pair is missing)")
                else:
                    res.undecided("R4.b", fn.loc(n), fn.fq, text, "yielded expression shape not recognised")
            elif isinstance(n, ast.YieldFrom):
                v = n.value
                text = short(n, 90)
                if isinstance(v, ast.Call):
                    r = prog.resolve_call(v.func, fn.mod, fn)
                    if r and r[0] == "fn" and r[1].key == ("processing", "find_replace"):
                        k, has_match = _find_replace_arity(v)
                        ok = k in (2, 3) and not has_match
                        res.decide(ok, "R4.b", fn.loc(n), fn.fq, text, f"find_replace yields {k}-tuples" if ok else
                                   "forwards find_replace(yield_match=True): the last component is a match object, not a transaction id")
                    elif r and r[0] == "fn" and r[1].is_fix:
                        res.ok("R4.b", fn.loc(n), fn.fq, text, "forwards another rule generator (judged at its own yields)")
                    elif isinstance(v.func, ast.Attribute) and v.func.attr == "items":
                        res.ok("R4.b", fn.loc(n), fn.fq, text, "dict items are 2-tuples")
                    else:
                        res.undecided("R4.b", fn.loc(n), fn.fq, text, "forwarded iterable not recognised")
                else:
                    res.undecided("R4.b", fn.loc(n), fn.fq, text, "forwarded iterable not recognised")


def _name_shape(prog: Program, fn: Func, var: str, at: ast.AST) -> Optional[Tuple[bool, str]]:
    # bound by iterating find_replace(...)
    a = parent(at)
    while a is not None and a is not fn.node:
        if isinstance(a, ast.For) and isinstance(a.target, ast.Name) and a.target.id == var and isinstance(a.iter, ast.Call):
            r = prog.resolve_call(a.iter.func, fn.mod, fn)
            if r and r[0] == "fn" and r[1].key == ("processing", "find_replace"):
                k, has_match = _find_replace_arity(a.iter)
                ok = k in (2, 3) and not has_match
                return ok, (f"item of find_replace: {k}-tuple" if ok else "item of find_replace(yield_match=True): carries a match object where a transaction id is expected")
        a = parent(a)
    defs = [v for _, v in assignments(fn, var) if v is not None]
    if defs and all(isinstance(v, ast.Tuple) and len(v.elts) in (2, 3) for v in defs):
        return True, "local bound to a 2-/3-tuple"
    from ..preserve import subject_kinds
    kinds = subject_kinds(prog, fn, var, at=at)
    if kinds:
        return False, f"yields the single node variable '{var}' ({sorted(kinds)[:3]}): fill_transaction calls len() on it -> TypeError (the (old, new) pair is missing)"
    return None


# ------------------------------------------------------------------------------------------------ R4.c
class FillPA(PathAnalysis):
    """Ghost facts filled(C) for collections that receive elements; loop exits include the body-end worlds."""

    def _note(self, name: str, ws, how: str):
        for w in ws:
            w.add(Lit(f"filled({name})"))

    def _mutator_call(self, call, s, ws):
        recv = call.func.value
        b = recv
        while isinstance(b, (ast.Subscript, ast.Attribute)):
            b = b.value
        if isinstance(b, ast.Name) and call.func.attr in ("append", "add", "extend", "update", "insert", "setdefault"):
            if call.func.attr in ("extend", "update") and not (call.args and isinstance(call.args[0], (ast.List, ast.Tuple, ast.Set)) and call.args[0].elts):
                self._note(b.id + "?", ws, "extended by a possibly empty iterable")
            else:
                self._note(b.id, ws, "element added")
        super()._mutator_call(call, s, ws)

    def _assign(self, target, value, s, ws):
        if isinstance(target, ast.Subscript):
            b = target.value
            while isinstance(b, (ast.Subscript, ast.Attribute)):
                b = b.value
            if isinstance(b, ast.Name):
                self._note(b.id, ws, "item stored")
        super()._assign(target, value, s, ws)

    def assume(self, w, test, pol):
        out = super().assume(w, test, pol)
        for part, ppol in self._certain_parts(test, pol):
            if isinstance(part, ast.Name) and ppol and part.id in self.empty_inits():
                if not (entails(out.facts, Lit(f"filled({part.id})")) or entails(out.facts, Lit(f"filled({part.id}?)"))):
                    from ..pathcond import FALSE
                    out.add(FALSE)   # a collection that starts empty and never received anything cannot be truthy
        return out

    def empty_inits(self):
        cached = getattr(self, "_empty_inits", None)
        if cached is None:
            cached = set()
            for name, defs in bindings(self.fn).items():
                vals = [v for _, v in defs]
                if vals and all(v is not None and self._is_empty_collection(v) for v in vals) and name not in self.fn.all_params:
                    cached.add(name)
            self._empty_inits = cached
        return cached

    def _exec_loop(self, s, worlds):
        flow = super()._exec_loop(s, worlds)
        # also: worlds after one full iteration
        body_assigned = set()
        entries = []
        for w in worlds:
            h = w.clone()
            entries.append(h)
        inner = self.exec_block(s.body, [e for e in entries])
        flow.normal = flow.normal + inner.normal + inner.cont
        return flow


def _r4_c(prog: Program, res: Result) -> None:
    alter = ("processing", "alter_code")
    # can alter_code return the text it was given?  (a `return <name>` where the name holds the unmodified first parameter)
    alter_may_refuse = False
    af = prog.funcs.get(alter)
    if af is not None and af.posparams:
        p0 = af.posparams[0]
        holders = {p0} if not assignments(af, p0) else set()
        for nm, defs in __import__("sa.defuse", fromlist=["bindings"]).bindings(af).items():
            if len(defs) == 1 and isinstance(defs[0][1], ast.Name) and defs[0][1].id == p0:
                holders.add(nm)
        rets = [r for r in walk_own(af.node) if isinstance(r, ast.Return) and isinstance(r.value, ast.Name)]
        # the last return is the result proper; an earlier return of a holder is a refusal
        alter_may_refuse = any(r.value.id in holders for r in rets[:-1]) or (bool(rets) and rets[-1].value.id in holders and len(rets) > 1)
    for fn in prog.funcs.values():
        if not fn.posparams:
            continue
        p = fn.posparams[0]
        for c in prog.calls_in(fn):
            r = prog.resolve_call(c.func, fn.mod, fn)
            if not (r and r[0] == "fn" and r[1].key == fn.key):
                continue
            if fn.key == ("tracing", "trace_origin"):
                continue  # handled below
            # recursion parameter: the first text-like parameter
            if p not in ("source", "src", "content"):
                continue
            arg = call_arg(c, 0, p)
            text = short(c, 70)
            if not isinstance(arg, ast.Name):
                res.undecided("R4.c", fn.loc(c), fn.fq, text, "recursive argument is not a variable")
                continue
            pa = FillPA(prog, fn)
            worlds = pa.worlds_at(c)
            if not worlds:
                res.ok("R4.c", fn.loc(c), fn.fq, text, "unreachable", trivial=True)
                continue
            # definitions of the argument that reach the call: calls of alter_code
            defs = [(s, v) for s, v in assignments(fn, arg.id) if v is not None and isinstance(v, ast.Call)]
            alter_calls = [v for s, v in defs if (prog.resolve_call(v.func, fn.mod, fn) or (None, None))[1] is not None
                           and prog.resolve_call(v.func, fn.mod, fn)[1].key == alter]
            verdict_ok, verdict_undecided, detail = True, False, ""
            for w in worlds:
                # explicit change test: arg != original text
                changed = any(f[0] == "lit" and not f[2] and f[1].startswith("eq(") and w.token(arg.id) in f[1] for f in w.facts)
                if changed:
                    detail = "reached only if the new text differs from the text it was computed from"
                    continue
                if not alter_calls:
                    verdict_undecided = True
                    detail = "new text is not produced by processing.alter_code; progress not analysed"
                    continue
                progress = False
                maybe = False
                for ac in alter_calls:
                    for kwname in ("additions", "removals"):
                        v = next((k.value for k in ac.keywords if k.arg == kwname), None)
                        if v is None:
                            continue
                        if isinstance(v, (ast.List, ast.Set, ast.Tuple)) and v.elts:
                            progress = True
                        elif isinstance(v, ast.Name):
                            if entails(w.facts, Lit(f"filled({v.id})")) or entails(w.facts, Lit(w.token(v.id))):
                                progress = True
                            elif entails(w.facts, Lit(f"filled({v.id}?)")):
                                maybe = True
                if progress and alter_may_refuse:
                    verdict_ok = False
                    detail = ("alter_code can hand its input back (its result is rolled back when it does not parse or compile), so non-empty additions / removals no longer mean "
                              "that the text changes: without a test `new text != text` the function calls itself again on the same text -> RecursionError")
                elif progress:
                    detail = detail or "alter_code is given non-empty additions/removals on every path to the recursive call: the text changes"
                elif maybe:
                    verdict_undecided = True
                    detail = "additions/removals are extended by a possibly empty iterable on some path; progress relies on it being non-empty"
                else:
                    verdict_ok = False
                    detail = ("on some path only `replacements` receive elements (or nothing does): _replace_nodes may refuse them (ignore comment, "
                              "identical or unparsable result) and return its input, and the function calls itself again on the same text -> RecursionError")
            if not verdict_ok:
                res.bad("R4.c", fn.loc(c), fn.fq, text, detail)
            elif verdict_undecided:
                res.undecided("R4.c", fn.loc(c), fn.fq, text, detail)
            else:
                res.ok("R4.c", fn.loc(c), fn.fq, text, detail)
    # recursion over texts of other files: needs a bound
    fn = prog.funcs.get(("tracing", "trace_origin"))
    if fn is not None:
        for c in prog.calls_in(fn):
            r = prog.resolve_call(c.func, fn.mod, fn)
            if r and r[0] == "fn" and r[1].key == fn.key:
                params = set(fn.all_params)
                bound_params = [k for k in ("depth", "visited", "seen", "_depth", "_seen") if k in params]
                passed = any(isinstance(kw.arg, str) and kw.arg in bound_params for kw in c.keywords)
                def _bound_test(t):
                    if isinstance(t, ast.BoolOp):
                        return any(_bound_test(v) for v in t.values)
                    return isinstance(t, ast.Compare) and len(t.ops) == 1 and (
                        (isinstance(t.left, ast.Name) and t.left.id in bound_params and isinstance(t.ops[0], (ast.Gt, ast.GtE, ast.Eq)))
                        or (isinstance(t.comparators[0], ast.Name) and t.comparators[0].id in bound_params and isinstance(t.ops[0], (ast.In, ast.Lt, ast.LtE))))
                tested = any(isinstance(n, ast.If) and _bound_test(n.test) and n.body and isinstance(n.body[-1], (ast.Return, ast.Raise))
                             for n in walk_own(fn.node))
                bounded = bool(bound_params) and passed and tested
                res.decide(bounded, "R4.c", fn.loc(c), fn.fq, short(c, 70),
                           "recursion carries a depth / visited bound" if bounded else
                           "recursion into the source of another module (read from disk) without depth or visited bound: two modules that star-import each other -> RecursionError")
    # structural recursions are counted for the record
    n_struct = 0
    for f in prog.funcs.values():
        for c in prog.calls_in(f):
            r = prog.resolve_call(c.func, f.mod, f)
            if r and r[0] == "fn" and r[1].key == f.key and not (f.posparams and f.posparams[0] in ("source", "src", "content")) and f.key != ("tracing", "trace_origin"):
                n_struct += 1
    res.analysed["structural_self_calls"] = n_struct


# ------------------------------------------------------------------------------------------------ R4.d
def _while_variant(fn: Func, w: ast.While) -> Optional[str]:
    test_names = names_in(w.test)
    body = list(walk_body(w.body))
    stepped = {n.target.id for n in body if isinstance(n, ast.AugAssign) and isinstance(n.target, ast.Name)}
    for n in body:
        if isinstance(n, ast.Assign) and len(n.targets) == 1 and isinstance(n.targets[0], ast.Name) and n.targets[0].id in test_names \
                and stepped & names_in(n.value):
            return f"counter: {sorted(stepped & names_in(n.value))[0]} stepped and {n.targets[0].id} recomputed from it"
        if isinstance(n, ast.Call) and isinstance(n.func, ast.Attribute) and n.func.attr in ("pop", "popleft", "remove", "clear") \
                and isinstance(n.func.value, ast.Name) and n.func.value.id in test_names:
            return f"worklist: {n.func.value.id}.{n.func.attr}() every iteration"
        if isinstance(n, ast.AugAssign) and isinstance(n.target, ast.Name) and n.target.id in test_names:
            return f"counter: {norm(n)}"
        if isinstance(n, ast.Assign) and len(n.targets) == 1 and isinstance(n.targets[0], ast.Name) and n.targets[0].id in test_names:
            t = n.targets[0].id
            v = n.value
            if isinstance(v, (ast.Attribute, ast.Subscript)) and t in names_in(v):
                return f"strict descent: {norm(n)}"
            if isinstance(v, ast.Call) and (norm(v.func) in ("re.sub",) or isinstance(v.func, ast.Attribute) and v.func.attr in ("pop", "strip", "lstrip", "rstrip")) and t in names_in(v):
                return f"shrinking value: {short(n, 50)}"
            if isinstance(v, ast.Constant) and v.value is False and isinstance(w.test, ast.Name):
                return f"fixpoint flag {t} reset every iteration"
            if isinstance(v, ast.Subscript) and isinstance(v.slice, ast.Slice) and t in names_in(v):
                return f"shrinking sequence: {norm(n)}"
        if isinstance(n, ast.Assign) and isinstance(n.targets[0], ast.Tuple):
            for t, v in zip(n.targets[0].elts, n.value.elts if isinstance(n.value, ast.Tuple) else []):
                if isinstance(t, ast.Name) and t.id in test_names and isinstance(v, (ast.Attribute, ast.Subscript)) and t.id in names_in(v):
                    return f"strict descent: {short(n, 50)}"
    return None


def _r4_d(prog: Program, res: Result) -> None:
    for m, q in DRIVERS:
        fn = prog.func(m, q)
        whiles = [n for n in walk_own(fn.node) if isinstance(n, ast.While)]
        for w in whiles:
            res.bad("R4.d", fn.loc(w), fn.fq, f"while {short(w.test, 50)}", "a driver loop that re-runs rules must be bounded by range(); this is a while loop")
        loops = [n for n in walk_own(fn.node) if isinstance(n, ast.For)]
        rule_loops = 0
        for l in loops:
            calls = [c for c in walk_body(l.body) if isinstance(c, ast.Call)]
            reruns = False
            for c in calls:
                r = prog.resolve_call(c.func, fn.mod, fn)
                if r and r[0] == "fn" and r[1].key in (("main", "_multi_run_fixes"), ("processing", "_apply_rewrites"), ("main", "format_file")):
                    reruns = True
                if isinstance(c.func, ast.Attribute) and c.func.attr in ("starmap", "map") and any("format_file" in norm(a) for a in c.args):
                    reruns = True
            if not reruns:
                continue
            rule_loops += 1
            it = l.iter
            ok = isinstance(it, ast.Call) and isinstance(it.func, ast.Name) and it.func.id == "range"
            res.decide(ok, "R4.d", fn.loc(l), fn.fq, f"for {norm(l.target)} in {short(it, 50)}",
                       "bounded by range()" if ok else "the loop that re-runs rules is not bounded by range(<constant or parameter>)")
        if rule_loops == 0 and not whiles:
            res.undecided("R4.d", fn.loc(), fn.fq, "driver loop", "no loop re-running rules found")
    for fn in prog.funcs.values():
        for w in [n for n in walk_own(fn.node) if isinstance(n, ast.While)]:
            if fn.key in {(m, q) for m, q in DRIVERS}:
                continue
            variant = _while_variant(fn, w)
            text = f"while {short(w.test, 60)}"
            if variant:
                res.ok("R4.d", fn.loc(w), fn.fq, text, variant)
            elif fn.fq in WHILE_TABLE:
                res.bad("R4.d", fn.loc(w), fn.fq, text, "this loop lost the statement that makes it terminate (worklist pop / counter step / descent / shrinking value)")
            else:
                res.undecided("R4.d", fn.loc(w), fn.fq, text, "new while loop without a recognised variant")


# ------------------------------------------------------------------------------------------------ R4.i
OPTIONAL_STR_ATTRS = {"asname", "module", "type_comment", "kind"}    # Optional[str] fields of ast nodes


def _maybe_none(x: ast.AST) -> bool:
    if isinstance(x, ast.Constant):
        return x.value is None
    if isinstance(x, ast.Attribute):
        return x.attr in OPTIONAL_STR_ATTRS
    if isinstance(x, ast.IfExp):
        return _maybe_none(x.body) or _maybe_none(x.orelse)
    return False


def _r4_i(prog: Program, res: Result) -> None:
    """Ordering tuples that can hold None: `sorted(S)` / `min` / `max` / `.sort()` without a key compares the tuples
    component by component, and `None < "x"` raises TypeError as soon as two tuples agree on the components before.
    Instance: a keyless ordering of a collection whose elements are built in the same function as tuples with a
    component read from an Optional[str] field of an ast node (alias.asname, ImportFrom.module) or a literal None."""
    from .c06 import _tuple_arity, _key_components
    n = 0
    for fn in prog.funcs.values():
        for c in prog.calls_in(fn):
            if not (isinstance(c.func, ast.Name) and c.func.id in ("sorted", "min", "max") and len(c.args) == 1):
                continue
            built = _tuple_arity(c.args[0], fn)
            if built is None or not any(_maybe_none(x) for x in built.elts):
                continue
            n += 1
            opt = [i for i, x in enumerate(built.elts) if _maybe_none(x)]
            key = next((k.value for k in c.keywords if k.arg == "key"), None)
            text = f"{c.func.id}({short(c.args[0], 40)}" + (f", key={short(key, 50)})" if key is not None else ")")
            if key is None:
                res.bad("R4.i", fn.loc(c), fn.fq, text,
                        f"the elements are tuples {short(built, 60)} whose component(s) {opt} can be None; without a key two tuples that agree before "
                        "that component compare None with a str: TypeError out of the formatter")
                continue
            comps = _key_components(prog, fn, key)
            if comps is None:
                res.undecided("R4.i", fn.loc(c), fn.fq, text, "sort key not analysable")
                continue
            # a bare optional component is fine only behind a component that separates None from str (`t[i] is not None`)
            ok = True
            body = key.body if isinstance(key, ast.Lambda) else None
            if body is not None and ("*" in comps or any(i in comps for i in opt)):
                parts = body.elts if isinstance(body, ast.Tuple) else [body]
                p = key.args.args[0].arg
                for i in opt:
                    bare_at = next((j for j, x in enumerate(parts) if norm(x) in (f"{p}[{i}]", p)), None)
                    guard_at = next((j for j, x in enumerate(parts) if norm(x) in (f"{p}[{i}] is not None", f"{p}[{i}] is None", f"{p}[{i}] or ''")), None)
                    if bare_at is not None and (guard_at is None or guard_at > bare_at):
                        ok = False
            res.decide(ok, "R4.i", fn.loc(c), fn.fq, text,
                       "None is separated from str by an `is not None` component in front of the optional component" if ok else
                       f"the key compares the optional component(s) {opt} directly: None < str raises TypeError")
    res.analysed["orderings_of_tuples_with_optional_components"] = n


# ------------------------------------------------------------------------------------------------ R4.j
FOREIGN_RAISES = {
    # callee (dotted) -> exceptions it raises for arguments taken from the analysed program (library documentation)
    "__import__": ("ImportError",),                       # ModuleNotFoundError: module removed / other platform
    "importlib.import_module": ("ImportError",),
    "importlib.util.find_spec": ("ImportError", "ValueError"),   # ValueError: `__main__.__spec__ is None`
}


def _r4_j(prog: Program, res: Result) -> None:
    """The formatter looks at OTHER modules on behalf of the module it formats (import tracing): it imports or locates
    modules named by the program, reads their files and parses them.  None of that may fail the formatting of a valid
    module: (1) every call of the table FOREIGN_RAISES is inside a handler for its documented exceptions; (2) opening /
    reading a file located by the tracer is inside a handler for OSError and UnicodeDecodeError; (3) parsing text read
    from such a file (core.parse, or a repository function that parses its text parameter) is inside a handler for
    SyntaxError.  Handlers are looked for in the function itself (enclosing try statements)."""
    from ..evaluator import caught as _caught
    locator = prog.funcs.get(("tracing", "_trace_module_source_file"))
    n = 0
    parses_param = {}     # repository functions that hand a text parameter to core.parse
    for f in prog.funcs.values():
        for c in prog.calls_in(f):
            r = prog.resolve_call(c.func, f.mod, f)
            if r and r[0] == "fn" and r[1].key == ("core", "parse") and c.args and isinstance(c.args[0], ast.Name) and c.args[0].id in f.all_params:
                parses_param[f.key] = c.args[0].id
    for f in prog.funcs.values():
        if f.mod.name != "tracing":
            continue
        binds = bindings(f)
        # (1) table calls
        for c in prog.calls_in(f):
            d = prog.dotted(c.func) or ""
            if d not in FOREIGN_RAISES:
                # a repository helper that asks the finders of the import system (`<finder>.find_spec(..)`) raises what they raise
                r_ = prog.resolve_call(c.func, f.mod, f)
                if r_ and r_[0] == "fn" and r_[1].key != f.key and any(isinstance(x, ast.Call) and isinstance(x.func, ast.Attribute) and x.func.attr == "find_spec"
                                                                    for x in ast.walk(r_[1].node)):
                    d = "importlib.util.find_spec"
            if d in FOREIGN_RAISES:
                n += 1
                missing = [e for e in FOREIGN_RAISES[d] if _caught(c, f, e) is None]
                res.decide(not missing, "R4.j", f.loc(c), f.fq, f"{d}(..): {short(c, 60)}",
                           f"inside a handler for {list(FOREIGN_RAISES[d])}" if not missing else
                           f"{d}() raises {missing} for module names found in the analysed program (a module of another platform or Python version, "
                           "`__main__`): the exception leaves the formatter")
        if locator is None:
            continue
        # (2)/(3) files located by the tracer
        located: Set[str] = set()
        for name, defs in binds.items():
            for _st, v in defs:
                if v is None:
                    continue
                for x in ast.walk(v):
                    if isinstance(x, ast.Call):
                        r = prog.resolve_call(x.func, f.mod, f)
                        if r and r[0] == "fn" and r[1].key == locator.key:
                            located.add(name)
        changed = True
        while changed:       # Path(origin), origin.parent ...
            changed = False
            for name, defs in binds.items():
                if name in located:
                    continue
                for _st, v in defs:
                    if v is not None and any(isinstance(x, ast.Name) and x.id in located for x in ast.walk(v)):
                        located.add(name)
                        changed = True
        if not located:
            continue
        foreign_text: Set[str] = set()
        for w in walk_own(f.node):
            if isinstance(w, (ast.With, ast.AsyncWith)):
                for item in w.items:
                    ce = item.context_expr
                    if isinstance(ce, ast.Call) and isinstance(ce.func, ast.Attribute) and ce.func.attr == "open" and isinstance(ce.func.value, ast.Name) \
                            and ce.func.value.id in located:
                        n += 1
                        missing = [e for e in ("OSError",) if _caught(ce, f, e) is None]
                        res.decide(not missing, "R4.j", f.loc(ce), f.fq, f"open of a traced module file: {short(ce, 50)}",
                                   "inside a handler for OSError" if not missing else "opening the file of another module can fail (permissions, race with deletion): OSError leaves the formatter")
                        stream = item.optional_vars.id if isinstance(item.optional_vars, ast.Name) else None
                        for x in ast.walk(w):
                            if isinstance(x, ast.Call) and isinstance(x.func, ast.Attribute) and x.func.attr == "read" and isinstance(x.func.value, ast.Name) and x.func.value.id == stream:
                                n += 1
                                ok = _caught(x, f, "UnicodeDecodeError") is not None
                                res.decide(ok, "R4.j", f.loc(x), f.fq, f"read of a traced module file: {short(x, 50)}",
                                           "inside a handler for UnicodeDecodeError" if ok else
                                           "the file of another module need not be UTF-8: UnicodeDecodeError leaves the formatter although the formatted module is valid")
                                st = parent(x)
                                if isinstance(st, ast.Assign) and isinstance(st.targets[0], ast.Name):
                                    foreign_text.add(st.targets[0].id)
        for c in prog.calls_in(f):
            r = prog.resolve_call(c.func, f.mod, f)
            if not (r and r[0] == "fn"):
                continue
            args = [a for a in c.args if isinstance(a, ast.Name) and a.id in foreign_text]
            if not args:
                continue
            parses = r[1].key == ("core", "parse") or r[1].key in parses_param
            if not parses:
                continue
            n += 1
            ok = _caught(c, f, "SyntaxError") is not None
            if not ok:
                # the same text was already parsed successfully earlier on (a guarded parse of it precedes this call)
                for c2 in prog.calls_in(f):
                    r2 = prog.resolve_call(c2.func, f.mod, f)
                    if c2 is not c and r2 and r2[0] == "fn" and (r2[1].key == ("core", "parse") or r2[1].key in parses_param) \
                            and c2.lineno < c.lineno and any(isinstance(a, ast.Name) and a.id == args[0].id for a in c2.args) \
                            and _caught(c2, f, "SyntaxError") is not None:
                        ok = True
            res.decide(ok, "R4.j", f.loc(c), f.fq, f"parse of a traced module: {short(c, 60)}",
                       "inside a handler for SyntaxError" if ok else
                       f"{r[1].fq} parses the text of ANOTHER module, which need not be valid Python (for this interpreter): SyntaxError leaves the formatter "
                       "although the formatted module is valid")
    res.analysed["foreign_module_operations"] = n


# ------------------------------------------------------------------------------------------------ R4.k
def _always_matches(pattern: str) -> bool:
    """True if the regular expression matches at least once in EVERY text: it can match the empty string at position 0
    (only begin-of-text / begin-of-line anchors and repetitions with minimum 0 in front)."""
    import re._parser as sre
    try:
        tree = sre.parse(pattern)
    except Exception:
        return False

    def nullable_at_zero(items) -> bool:
        for op, av in items:
            name = str(op)
            if name == "AT":
                if str(av) in ("AT_BEGINNING", "AT_BEGINNING_STRING"):
                    continue
                return False
            if name in ("MAX_REPEAT", "MIN_REPEAT", "POSSESSIVE_REPEAT"):
                if av[0] == 0:
                    continue
                return False
            if name == "SUBPATTERN":
                if nullable_at_zero(av[3]):
                    continue
                return False
            if name == "BRANCH":
                if any(nullable_at_zero(alt) for alt in av[1]):
                    continue
                return False
            return False
        return True
    return nullable_at_zero(list(tree))


def _r4_k(prog: Program, res: Result) -> None:
    """Indexing the list of matches of a regular expression over run-time text with a constant index raises IndexError
    when there is no match.  Instance: re.findall(P, T)[k] / list(re.finditer(P, T))[k] (directly or through a
    single-definition local).  Discharged when P matches in every text (decided on the regex AST) or the list was
    tested non-empty on every path."""
    n = 0
    for fn in prog.funcs.values():
        binds = bindings(fn)
        pa = None
        for sub in walk_own(fn.node):
            if not (isinstance(sub, ast.Subscript) and not isinstance(sub.slice, ast.Slice) and isinstance(sub.ctx, ast.Load)):
                continue
            idx = sub.slice
            if isinstance(idx, ast.UnaryOp) and isinstance(idx.op, ast.USub):
                idx = idx.operand
            if not (isinstance(idx, ast.Constant) and isinstance(idx.value, int)):
                continue
            src = sub.value
            var = None
            if isinstance(src, ast.Name):
                defs = [(s_, v) for (s_, v) in binds.get(src.id, []) if v is not None and getattr(s_, "lineno", 0) < sub.lineno]
                if not defs:
                    continue
                var, src = src.id, max(defs, key=lambda d: d[0].lineno)[1]     # the nearest definition in front of the use
            call = src
            if isinstance(call, ast.Call) and isinstance(call.func, ast.Name) and call.func.id in ("list", "tuple") and call.args:
                call = call.args[0]
            d = prog.dotted(call.func) if isinstance(call, ast.Call) else None
            if isinstance(call, ast.Call) and isinstance(call.func, ast.Attribute) and call.func.attr == "splitlines":
                # lines of a text: "".splitlines() is empty, any other string has a first and a last line
                n += 1
                text_e = call.func.value
                text = short(sub, 90)
                pa = pa or PathAnalysis(prog, fn)
                ok = pa.reached(sub) and (pa.holds_at(sub, lambda w, e=text_e: pa.formula(e, w))[0]
                                          or (var is not None and pa.holds_at(sub, lambda w: pa.formula(sub.value, w))[0]))
                res.decide(ok, "R4.k", fn.loc(sub), fn.fq, text,
                           f"`{short(text_e, 30)}` was tested to be non-empty" if ok else
                           f"`{short(text_e, 30)}` may be the empty string (a deletion, an empty match): its list of lines is empty and the index raises IndexError")
                continue
            if d not in ("re.findall", "re.finditer") or not call.args:
                continue
            n += 1
            pat = call.args[0]
            text = short(sub, 90)
            if isinstance(pat, ast.Constant) and isinstance(pat.value, str) and _always_matches(pat.value):
                res.ok("R4.k", fn.loc(sub), fn.fq, text, f"the pattern {pat.value!r} matches in every text (empty match at position 0)")
                continue
            ok = False
            if var is not None:
                pa = pa or PathAnalysis(prog, fn)
                name_node = sub.value
                ok = pa.reached(sub) and pa.holds_at(sub, lambda w: pa.formula(name_node, w))[0]
            res.decide(ok, "R4.k", fn.loc(sub), fn.fq, text,
                       "the list of matches was tested to be non-empty" if ok else
                       f"the pattern {short(pat, 40)} need not occur in the text: IndexError on valid input (e.g. `else :` written with a blank)")
    res.analysed["indexed_regex_results"] = n


# ------------------------------------------------------------------------------------------------ R4.l
PARSE_FAILURES = ("SyntaxError", "ValueError", "RecursionError", "MemoryError")


def _r4_m(prog: Program, res: Result) -> None:
    """The validity oracles are TOTAL.  An oracle is a function that hands its text parameter to ast.parse / compile inside
    a `try` and answers a boolean; every caller relies on it to say "no" for a text Python cannot take, and the input of
    the formatter is arbitrary text.  The documented failure modes of the parser / compiler are SyntaxError, ValueError
    (null bytes, and UnicodeEncodeError for lone surrogates - a str read with errors='surrogateescape'), RecursionError and
    MemoryError (deeply nested or very long expressions).  Each must be covered by a handler that answers False - an
    uncovered one leaves format_code as an exception instead of 'input handed back'."""
    from ..evaluator import covers
    n = 0
    for fn in prog.funcs.values():
        if not fn.posparams:
            continue
        p = fn.posparams[0]
        for t in walk_own(fn.node):
            if not isinstance(t, ast.Try):
                continue
            calls = [c for st in t.body for c in ast.walk(st) if isinstance(c, ast.Call) and (prog.dotted(c.func) in ("ast.parse", "compile"))
                     and c.args and isinstance(c.args[0], ast.Name) and c.args[0].id == p]
            if not calls:
                continue
            answers_bool = [r for r in walk_own(fn.node) if isinstance(r, ast.Return) and isinstance(r.value, ast.Constant) and isinstance(r.value.value, bool)]
            all_returns = [r for r in walk_own(fn.node) if isinstance(r, ast.Return)]
            if not answers_bool or len(answers_bool) != len(all_returns):
                continue      # not an oracle: it uses the tree
            n += 1
            missing = [e for e in PARSE_FAILURES if not any(covers(h, e) for h in t.handlers)]
            res.decide(not missing, "R4.m", fn.loc(calls[0]), fn.fq, f"{short(calls[0], 60)} # handlers of the oracle",
                       "handlers cover SyntaxError, ValueError, RecursionError and MemoryError" if not missing else
                       f"{', '.join(missing)} of the parser is not handled: for such a text the oracle raises instead of answering False, and the formatter raises instead "
                       "of handing the input back (a lone surrogate gives UnicodeEncodeError, a 3000-term sum RecursionError)")
    if n == 0:
        raise AnalysisError("no validity oracle (try: ast.parse(param) ... return bool) found")


SYMPY_TEXT_SINKS = ("parse_expr", "sympify", "simplify", "S", "nsimplify")


def _r4_n(prog: Program, res: Result) -> None:
    """Program text handed to sympy's PARSER: parse_expr / sympify / simplify of a *string* evaluates that string with
    sympy's own grammar and `eval`, and raises an open set of exceptions (SympifyError, TypeError, AttributeError,
    TokenError, NotImplementedError, ...) for texts that are perfectly good Python - `sum(range(a[0]))`, `sum(range(1 << n))`,
    a string operand.  Every call from a rule generator into a function that (transitively, decorators included) feeds
    sympy's parser sits in a handler covering Exception; the rule then leaves the construct alone."""
    from ..evaluator import caught as _caught
    from ..defuse import bindings

    def texty(e: ast.AST, fn: Func, depth: int = 0) -> bool:
        if depth > 3:
            return False
        if isinstance(e, ast.JoinedStr) or (isinstance(e, ast.Constant) and isinstance(e.value, str)):
            return True
        if isinstance(e, ast.Call):
            d = prog.dotted(e.func) or ""
            if d.endswith("unparse") or d in ("str", "repr") or d.endswith(".join") or d.endswith(".strip") or d.endswith("get_code"):
                return True
            if isinstance(e.func, ast.Attribute) and e.func.attr in ("strip", "join", "format", "replace", "lstrip", "rstrip"):
                return True
        if isinstance(e, ast.Name):
            if e.id in fn.all_params:
                ann = {a.arg: a.annotation for a in fn.node.args.posonlyargs + fn.node.args.args + fn.node.args.kwonlyargs}.get(e.id)
                return ann is not None and norm(ann) == "str" or e.id in ("source", "expression", "expr", "text", "code")
            return any(v is not None and texty(v, fn, depth + 1) for _s, v in bindings(fn).get(e.id, []))
        return False
    direct = {}
    for fn in prog.funcs.values():
        for c in prog.calls_in(fn):
            d = prog.dotted(c.func) or ""
            head = d.split(".")[0]
            if fn.mod.aliases.get(head) and fn.mod.aliases[head][1].split(".")[0] == "sympy" and d.split(".")[-1] in SYMPY_TEXT_SINKS and c.args and texty(c.args[0], fn):
                direct.setdefault(fn.key, c)
    if not direct:
        raise AnalysisError("no call handing text to sympy's parser found (anchor lost)")
    reaching = dict(direct)
    changed = True
    while changed:
        changed = False
        for fn in prog.funcs.values():
            if fn.key in reaching:
                continue
            hit = None
            for c in prog.calls_in(fn):
                r = prog.resolve_call(c.func, fn.mod, fn)
                if r and r[0] == "fn" and r[1].key in reaching and not (_caught(c, fn, "Exception")):
                    hit = c
                    break
            if hit is None:
                # decorated by a repository decorator whose inner wrapper reaches the parser
                for dname in fn.decorators:
                    dec = prog.resolve_name(fn.mod, dname.split("(")[0], fn.outer)
                    if dec is not None and any(k in reaching for k in prog.funcs if k[0] == dec.key[0] and k[1].startswith(dec.qual + ".<locals>.")):
                        hit = fn.node
            if hit is not None and not fn.is_fix:
                reaching[fn.key] = hit
                changed = True
    n = 0
    for fn in prog.funcs.values():
        if not fn.is_fix:
            continue
        for c in prog.calls_in(fn):
            r = prog.resolve_call(c.func, fn.mod, fn)
            if r and r[0] == "fn" and r[1].key in reaching:
                n += 1
                h = _caught(c, fn, "Exception")
                res.decide(h is not None, "R4.n", fn.loc(c), fn.fq, short(c, 70),
                           "sits in a handler covering Exception: what sympy cannot read is left alone" if h is not None else
                           f"{r[1].name}() hands program text to sympy's parser (through {prog.funcs[r[1].key].fq if r[1].key in direct else 'its callees'}) outside any handler for Exception: "
                           "SympifyError / TypeError / AttributeError / NotImplementedError of sympy leave format_code")
    res.analysed["sympy_text_sinks"] = sorted(f"{k[0]}.{k[1]}" for k in direct)


LOOSE_ANNOTATIONS = ("Collection", "Iterable", "Sequence", "Container")


def _r4_o(prog: Program, res: Result) -> None:
    """Option values: a parameter of a public entry point annotated Collection[..] / Iterable[..] / Sequence[..] may be a
    list or a tuple.  Set algebra (`|`, `&`, `-`, `^` with a set on the other side) raises TypeError for those.  Computed
    bottom-up over the call graph: needs_set(f, p) = p is an operand of set algebra in f, or is handed to a parameter q of
    a callee with needs_set(callee, q) - unless f first rebinds p unconditionally to set(p) / frozenset(p).  Obligation:
    no loosely annotated parameter of a public function of `main` has needs_set."""
    def params(fn: Func):
        a = fn.node.args
        return a.posonlyargs + a.args + a.kwonlyargs

    def normalised(fn: Func, p: str) -> bool:
        # an unconditional `p = set(p) [| ...]` / frozenset(p) / `p = {*p}` in the function body proper, before any other use
        for st in fn.node.body:
            if isinstance(st, ast.Assign) and len(st.targets) == 1 and isinstance(st.targets[0], ast.Name) and st.targets[0].id == p:
                v = st.value
                while isinstance(v, ast.BinOp):
                    v = v.left
                if isinstance(v, ast.Call) and isinstance(v.func, ast.Name) and v.func.id in ("set", "frozenset") and v.args and norm(v.args[0]) == p:
                    return True
                return False
            if any(isinstance(x, ast.Name) and x.id == p for x in ast.walk(st)):
                return False
        return False
    direct: Dict[Tuple[Tuple[str, str], str], ast.AST] = {}
    for fn in prog.funcs.values():
        names = {a.arg for a in params(fn)}
        for n in walk_own(fn.node):
            ops = []
            if isinstance(n, ast.BinOp) and isinstance(n.op, (ast.BitOr, ast.BitAnd, ast.Sub, ast.BitXor)):
                ops = [n.left, n.right]
            elif isinstance(n, ast.AugAssign) and isinstance(n.op, (ast.BitOr, ast.BitAnd, ast.Sub, ast.BitXor)):
                ops = [n.value]
            for side in ops:
                if isinstance(side, ast.Name) and side.id in names and not normalised(fn, side.id):
                    direct.setdefault((fn.key, side.id), n)
    needs = dict(direct)
    changed = True
    while changed:
        changed = False
        for fn in prog.funcs.values():
            pn = [a.arg for a in params(fn)]
            for c in prog.calls_in(fn):
                r = prog.resolve_call(c.func, fn.mod, fn)
                if not (r and r[0] == "fn"):
                    continue
                callee = r[1]
                pairs = [(callee.posparams[i], a) for i, a in enumerate(c.args) if i < len(callee.posparams) and not isinstance(a, ast.Starred)]
                pairs += [(k.arg, k.value) for k in c.keywords if k.arg]
                for q, a in pairs:
                    if (callee.key, q) in needs and isinstance(a, ast.Name) and a.id in pn and (fn.key, a.id) not in needs and not normalised(fn, a.id):
                        needs[(fn.key, a.id)] = c
                        changed = True
    n = 0
    for fn in sorted(prog.funcs.values(), key=lambda f: f.fq):
        if fn.mod.name != "main" or fn.name.startswith("_") or fn.outer is not None:
            continue
        for a in params(fn):
            if a.annotation is None or norm(a.annotation).split("[")[0].split(".")[-1] not in LOOSE_ANNOTATIONS:
                continue
            n += 1
            site = needs.get((fn.key, a.arg))
            if site is None:
                res.ok("R4.o", fn.loc(a), fn.fq, f"{a.arg}: {norm(a.annotation)}",
                       "normalised to a set before use" if normalised(fn, a.arg) else "never an operand of set algebra, here or in a callee it is handed to")
            else:
                where = next((f"{prog.funcs[k].fq}:{getattr(v, 'lineno', 0)} `{short(v, 50)}`" for (k, q), v in direct.items()
                              if any(True for _ in [0])), "")
                res.bad("R4.o", fn.loc(a), fn.fq, f"{a.arg}: {norm(a.annotation)}",
                        f"the option may be a list or a tuple (annotation {norm(a.annotation)}), but reaches set algebra unconverted (first hop: line {getattr(site, 'lineno', 0)} `{short(site, 60)}`; "
                        f"{sum(1 for (k, q) in direct)} set-algebra site(s) in the package take such parameters as they come): TypeError for every input")
    if n == 0:
        raise AnalysisError("no loosely annotated option of a public entry point found")


MAYBE_EMPTY_FIELDS = {"args", "elts", "keywords", "decorator_list", "orelse", "finalbody", "handlers", "ifs", "bases", "posonlyargs", "kwonlyargs",
                      "defaults", "kw_defaults", "keys", "values", "body", "type_params"}
GRAMMAR_MIN = {"body": 1}       # every block has a statement - except the body of a Module


def _r4_q(prog: Program, res: Result) -> None:
    """Constant-index access to a list field of a syntax node that Python's grammar allows to be EMPTY (`call.args[0]`,
    `node.orelse[0]`, `root.body[-1]`, `f.elts[0]`): IndexError for `x.append()`, `sum()`, an empty module.  The access is
    justified by (a) a fact on the path about the list itself - truthiness, a len() comparison, match_template(list, [..]);
    (b) the TEMPLATE that selected the node: the loop source (core.walk / filter_nodes / walk_wildcard / walk_sequence) or a
    match_template fact on the path, read into a shape term (sa/shapes.py) and followed along the access path - the field
    must be pinned to a list display long enough; (c) the grammar (`body` of anything but a Module).  If the selecting
    template is known and leaves the field open, the access is a violation; if the node's origin cannot be read (a
    parameter, an unrecognised source) the instance is undecided."""
    from ..defuse import bindings
    from ..pathcond import PathAnalysis, entails
    from .. import shapes as sh

    def access_path(e: ast.AST):
        path = []
        while True:
            if isinstance(e, ast.Attribute):
                path.append(("attr", e.attr))
                e = e.value
            elif isinstance(e, ast.Subscript) and isinstance(e.slice, ast.Constant) and isinstance(e.slice.value, int):
                path.append(("idx", e.slice.value))
                e = e.value
            elif isinstance(e, ast.Subscript) and isinstance(e.slice, ast.UnaryOp) and isinstance(e.slice.op, ast.USub) and isinstance(e.slice.operand, ast.Constant):
                path.append(("idx", -e.slice.operand.value))
                e = e.value
            else:
                break
        return (e.id if isinstance(e, ast.Name) else None), list(reversed(path))

    def follow(shape, path):
        for kind, v in path:
            shape = sh.field(shape, v) if kind == "attr" else sh.index(shape, v)
        return shape
    n = 0
    for fn in prog.funcs.values():
        sites = []
        for x in walk_own(fn.node):
            if isinstance(x, ast.Subscript) and isinstance(x.ctx, ast.Load) and isinstance(x.value, ast.Attribute) and x.value.attr in MAYBE_EMPTY_FIELDS:
                i = x.slice.value if isinstance(x.slice, ast.Constant) and isinstance(x.slice.value, int) and not isinstance(x.slice.value, bool) else \
                    (-x.slice.operand.value if isinstance(x.slice, ast.UnaryOp) and isinstance(x.slice.op, ast.USub) and isinstance(x.slice.operand, ast.Constant)
                     and isinstance(x.slice.operand.value, int) else None)
                if i is not None:
                    sites.append((x, i))
        if not sites:
            continue
        pa = PathAnalysis(prog, fn)
        S = sh.Shapes(prog, fn)
        parents_of = {}
        for a in ast.walk(fn.node):
            for c in ast.iter_child_nodes(a):
                parents_of[id(c)] = a

        def enclosing(node):
            out = []
            a = parents_of.get(id(node))
            while a is not None:
                out.append(a)
                a = parents_of.get(id(a))
            return out
        mt_calls = [c for c in ast.walk(fn.node) if isinstance(c, ast.Call) and (prog.dotted(c.func) or "").split(".")[-1] == "match_template" and len(c.args) >= 2]
        tests = []
        for a in ast.walk(fn.node):
            if isinstance(a, (ast.If, ast.While, ast.IfExp, ast.Assert)):
                tests.append(a.test)
            elif isinstance(a, ast.BoolOp):
                tests.extend(a.values)
            elif isinstance(a, ast.UnaryOp) and isinstance(a.op, ast.Not):
                tests.append(a.operand)
            elif isinstance(a, ast.comprehension):
                tests.extend(a.ifs)

        def unwrap_iter(it, target):
            """-> (call, target of the element) through sorted / list / reversed / enumerate / tuple wrappers."""
            for _ in range(4):
                if isinstance(it, ast.Call) and isinstance(it.func, ast.Name) and it.func.id in ("sorted", "list", "reversed", "tuple", "set") and it.args:
                    it = it.args[0]
                elif isinstance(it, ast.Call) and isinstance(it.func, ast.Name) and it.func.id == "enumerate" and it.args and isinstance(target, ast.Tuple) and len(target.elts) == 2:
                    it, target = it.args[0], target.elts[1]
                else:
                    break
            return it, target

        def root_shapes(name: str, site: ast.AST, depth: int = 0):
            """(shape of the node called `name` at site, is its origin known)"""
            shape, known = sh.ANY, False
            if depth > 4:
                return shape, known
            worlds = pa.worlds_at(site)
            for c in mt_calls:
                if isinstance(c.args[0], ast.Name) and c.args[0].id == name and worlds and all(entails(w.facts, pa.formula(c, w)) for w in worlds):
                    shape, known = sh.meet(shape, S.shape(c.args[1])), True
            for a in enclosing(site):
                gens = [(a.iter, a.target)] if isinstance(a, (ast.For, ast.AsyncFor)) else \
                    [(g.iter, g.target) for g in a.generators] if isinstance(a, (ast.ListComp, ast.SetComp, ast.GeneratorExp, ast.DictComp)) else []
                for it, tg in gens:
                    it, tg = unwrap_iter(it, tg)
                    if not isinstance(it, ast.Call):
                        # `for m in matches` where matches is the starred rest of a walk_sequence item
                        if isinstance(it, ast.Name) and isinstance(tg, ast.Name) and tg.id == name:
                            s2, k2 = seq_rest(it.id, site)
                            if k2:
                                shape, known = sh.meet(shape, s2), True
                        continue
                    d = (prog.dotted(it.func) or "").split(".")[-1]
                    if d in ("walk", "filter_nodes") and len(it.args) >= 2 and isinstance(tg, ast.Name) and tg.id == name:
                        shape, known = sh.meet(shape, S.shape(it.args[1])), True
                    elif d == "walk_wildcard" and len(it.args) >= 2 and isinstance(tg, ast.Tuple) and tg.elts and isinstance(tg.elts[0], ast.Name) and tg.elts[0].id == name:
                        shape, known = sh.meet(shape, S.shape(it.args[1])), True
                    elif d in ("walk", "filter_nodes") and isinstance(tg, ast.Name) and tg.id == name:
                        known = True
                    elif d == "walk_sequence" and isinstance(tg, ast.Tuple):
                        ts = seq_templates(it)
                        for k, t_el in enumerate(tg.elts):
                            if isinstance(t_el, ast.Name) and t_el.id == name and ts is not None and k < len(ts):
                                shape, known = sh.meet(shape, ("node", {"root": S.shape(ts[k])}) if False else ("list", 1, False, None)), known
                                # a match object: its [0] / .root is the node; recorded as a 'match' pseudo node
                                shape, known = ("node", {"__match__": S.shape(ts[k])}), True
            # single assignment from another access path
            defs = [(st, v) for (st, v) in bindings(fn).get(name, []) if v is not None]
            if not known and len(defs) == 1 and isinstance(defs[0][0], ast.Assign):
                r2, p2 = access_path(defs[0][1])
                if r2 is not None and r2 != name and p2:
                    s2, k2 = root_shapes(r2, defs[0][0], depth + 1)
                    if k2:
                        shape, known = follow(unmatch(s2, p2), strip_match(p2)), True
            return shape, known

        def seq_templates(call: ast.Call):
            ts: List[ast.AST] = []
            for a in call.args[1:]:
                if isinstance(a, ast.Starred):
                    v = a.value
                    if isinstance(v, ast.Name):
                        d_ = [x for (_s, x) in bindings(fn).get(v.id, [])]
                        v = d_[0] if len(d_) == 1 else v
                    if isinstance(v, (ast.List, ast.Tuple)):
                        ts.extend(v.elts)
                    else:
                        return None
                else:
                    ts.append(a)
            return ts

        def seq_rest(listname: str, site: ast.AST):
            """`listname` is the starred rest of a walk_sequence item: every element is a match of the LAST template."""
            for a in enclosing(site):
                if isinstance(a, (ast.For, ast.AsyncFor)):
                    it, tg = unwrap_iter(a.iter, a.target)
                    if isinstance(it, ast.Call) and (prog.dotted(it.func) or "").split(".")[-1] == "walk_sequence" and isinstance(tg, ast.Tuple):
                        if any(isinstance(e_, ast.Starred) and isinstance(e_.value, ast.Name) and e_.value.id == listname for e_ in tg.elts) \
                                and any(k.arg == "expand_last" for k in it.keywords):
                            ts = seq_templates(it)
                            if ts:
                                return ("node", {"__match__": S.shape(ts[-1])}), True
            return sh.ANY, False

        def unmatch(shape, path):
            # a match object: [0] or .root gives the node
            if shape[0] == "node" and "__match__" in shape[1] and path and path[0] in (("idx", 0), ("attr", "root")):
                return shape[1]["__match__"]
            return shape

        def strip_match(path):
            return path[1:] if path and path[0] in (("idx", 0), ("attr", "root")) else path
        for x, i in sites:
            n += 1
            need = i + 1 if i >= 0 else -i
            L = x.value
            have, why = 0, []
            fld = L.attr
            root, path = access_path(L.value)
            # (c) grammar
            is_module = False
            if fld == "body" and root is not None and not path:
                for _s, v in bindings(fn).get(root, []):
                    if isinstance(v, ast.Call) and (prog.dotted(v.func) or "").split(".")[-1] in ("parse",):
                        is_module = True
            if fld == "body" and isinstance(L.value, ast.Call) and (prog.dotted(L.value.func) or "").split(".")[-1] == "parse":
                is_module = True
            g = 0 if is_module else GRAMMAR_MIN.get(fld, 0)
            if g:
                have, why = g, ["every block has at least one statement"]
            # (a) facts about the list itself
            worlds = pa.worlds_at(x)
            Ltxt = norm(L)

            def holds(test, pol=True):
                return bool(worlds) and all(entails(w.facts, pa.formula(test, w, pol)) for w in worlds)
            for t in tests:
                if norm(t) == Ltxt and holds(t):
                    if have < 1:
                        have, why = 1, [f"`{Ltxt}` is known to be non-empty here"]
                if isinstance(t, ast.Compare) and len(t.ops) == 1 and isinstance(t.left, ast.Call) and isinstance(t.left.func, ast.Name) and t.left.func.id == "len" \
                        and t.left.args and norm(t.left.args[0]) == Ltxt and isinstance(t.comparators[0], ast.Constant) and isinstance(t.comparators[0].value, int):
                    k = t.comparators[0].value
                    op = t.ops[0]
                    lo = None
                    if holds(t):
                        lo = {ast.Eq: k, ast.GtE: k, ast.Gt: k + 1}.get(type(op))
                        if isinstance(op, ast.NotEq) and k == 0:
                            lo = 1
                    elif holds(t, False):
                        lo = {ast.Lt: k, ast.LtE: k + 1, ast.NotEq: k}.get(type(op))
                        if isinstance(op, ast.Eq) and k == 0:
                            lo = 1
                    if lo is not None and lo > have:
                        have, why = lo, [f"`{norm(t)}` decides the length on this path"]
            for c in mt_calls:
                a0 = c.args[0]
                # match_template(L, [..]) and match_template(L[-k:], [k templates]): the list has at least that many elements
                tail = isinstance(a0, ast.Subscript) and isinstance(a0.slice, ast.Slice) and a0.slice.upper is None and a0.slice.step is None \
                    and isinstance(a0.slice.lower, ast.UnaryOp) and isinstance(a0.slice.lower.op, ast.USub) and isinstance(a0.slice.lower.operand, ast.Constant) \
                    and norm(a0.value) == Ltxt
                if (norm(a0) == Ltxt or tail) and holds(c):
                    lo = sh.min_len(S.shape(c.args[1]))
                    if tail:
                        lo = min(lo, a0.slice.lower.operand.value)
                    if lo > have:
                        have, why = lo, [f"`{short(c, 60)}` holds on this path"]
            # (b) the selecting template
            known = False
            if root is not None:
                rs, known = root_shapes(root, x)
                if known:
                    lst = sh.field(follow(unmatch(rs, path), strip_match(path) if rs[0] == "node" and "__match__" in rs[1] else path), fld)
                    lo = sh.min_len(lst)
                    if lo > have:
                        have, why = lo, [f"the template that selected `{root}` pins .{fld} to a list of at least {lo}"]
                    if not sh.readable(lst):
                        known = False      # the template is there but could not be read: no verdict from it
            text = f"{short(x, 60)}"
            if have >= need:
                res.ok("R4.q", fn.loc(x), fn.fq, text, why[0] if why else "")
            elif known:
                res.bad("R4.q", fn.loc(x), fn.fq, text,
                        f"`{root}` is selected by a template that leaves .{fld} open (it may have fewer than {need} element(s)) and no test of `{Ltxt}` is on the path: "
                        f"IndexError for a node whose {fld} list is empty (`x.append()`, `f()`, an `if` without else)")
            else:
                res.undecided("R4.q", fn.loc(x), fn.fq, text, f"origin of `{root or norm(L.value)}` not readable (parameter or unrecognised source); no length fact for `{Ltxt}` on the path")
    if n == 0:
        raise AnalysisError("no constant-index access to a list field found")


OP_FIELD_CATEGORY = {("UnaryOp", "op"): "unaryop", ("BinOp", "op"): "operator", ("AugAssign", "op"): "operator", ("BoolOp", "op"): "boolop", ("Compare", "ops"): "cmpop"}


def _r4_s(prog: Program, res: Result) -> None:
    """Well-formed constructions: the `op` of a constructed ast.UnaryOp must be a unary operator, of ast.BinOp / ast.AugAssign a
    binary one, of ast.BoolOp And / Or, the `ops` of ast.Compare comparison operators.  CPython does not check this when the node
    is built; ast.unparse then fails with KeyError (`ast.UnaryOp(op=<the Sub of an augmented assignment>)` for `x -= i`), out of
    the rule and out of format_code.  Instance: every op= / ops= keyword of such a constructor call; the category of the
    argument is read from a literal operator class (`ast.USub()`), or from `<n>.op` when the class of n is known on the path
    (isinstance / match_template with a class or a template of that class)."""
    import ast as _a
    from ..pathcond import PathAnalysis, plain

    def cat_of_class(name: str):
        cls = getattr(_a, name, None)
        if not isinstance(cls, type):
            return None
        for base, cat in ((_a.unaryop, "unaryop"), (_a.operator, "operator"), (_a.boolop, "boolop"), (_a.cmpop, "cmpop")):
            if issubclass(cls, base):
                return cat
        return None

    def ast_name(fn: Func, e: ast.AST):
        if isinstance(e, ast.Call) and not e.args and not e.keywords:
            e = e.func
        d = prog.dotted(e)
        if d and "." in d:
            head, name = d.rsplit(".", 1)
            if fn.mod.aliases.get(head) == ("ext", "ast") and hasattr(_a, name):
                return name
        return None
    n = 0
    pas = {}
    for fn in prog.funcs.values():
        for c in walk_own(fn.node):
            if not isinstance(c, ast.Call):
                continue
            cls = ast_name(fn, c.func)
            if cls is None:
                continue
            for kw in c.keywords:
                want = OP_FIELD_CATEGORY.get((cls, kw.arg))
                if want is None:
                    continue
                exprs = kw.value.elts if kw.arg == "ops" and isinstance(kw.value, (ast.List, ast.Tuple)) else [kw.value]
                for e in exprs:
                    got, how = None, ""
                    nm = ast_name(fn, e)
                    if nm is not None:
                        got, how = cat_of_class(nm), f"ast.{nm}"
                    elif isinstance(e, ast.Attribute) and e.attr in ("op",) and isinstance(e.value, ast.Name):
                        # class of the node on the path
                        pa = pas.setdefault(fn.key, PathAnalysis(prog, fn))
                        cats = set()
                        for w in pa.worlds_at(c):
                            tok = e.value.id
                            for f in w.facts:
                                if f[0] == "lit" and f[2]:
                                    t = plain(f[1]).replace(" ", "")
                                    if t.startswith(f"isinstance({tok},") or (("match_template(" + tok + ",") in t):
                                        for k_, cat in (("UnaryOp", "unaryop"), ("BinOp", "operator"), ("AugAssign", "operator"), ("BoolOp", "boolop")):
                                            if f"ast.{k_}" in t.split(",", 1)[1][:60]:
                                                cats.add(cat)
                        if len(cats) == 1:
                            got, how = cats.pop(), f"{norm(e)} of a node the path knows to be of that kind"
                        else:
                            # through a local template: match_template(n, T) with T = ast.AugAssign(...)
                            from ..defuse import bindings
                            for w in pa.worlds_at(c)[:1]:
                                for f in w.facts:
                                    if f[0] == "lit" and f[2] and ("match_template(" + e.value.id) in plain(f[1]).replace(" ", ""):
                                        arg = plain(f[1]).replace(" ", "").split(",", 1)[1].rstrip(")")
                                        for _s, v in bindings(fn).get(arg.split("(")[0], []):
                                            if isinstance(v, ast.Call):
                                                k_ = ast_name(fn, v.func)
                                                cat = {"UnaryOp": "unaryop", "BinOp": "operator", "AugAssign": "operator", "BoolOp": "boolop"}.get(k_)
                                                if cat:
                                                    got, how = cat, f"{norm(e)} of a node matched by `{arg}` = ast.{k_}(..)"
                    if got is None:
                        continue
                    n += 1
                    res.decide(got == want, "R4.s", fn.loc(c), fn.fq, f"{short(c, 60)} # {kw.arg} of ast.{cls}",
                               f"{how} is a {want}" if got == want else
                               f"ast.{cls}({kw.arg}=..) is given {how}, a {got}: the tree is ill-formed and ast.unparse raises KeyError (`x = 0; for i in y: x -= i` crashes the formatter)")
    if n == 0:
        raise AnalysisError("R4.s: no operator field of a constructed node found")


def _r4_t(prog: Program, res: Result) -> None:
    """`set.union(*xs)` / `set.intersection(*xs)` is an UNBOUND method call: the first element of xs becomes `self` and must be a
    set - for a frozenset it raises TypeError ("descriptor 'union' for 'set' objects doesn't apply to a 'frozenset' object").
    The kind of the elements is read from their producers: a subscript / .values() of a dict whose values are set displays,
    set comprehensions, set(..) or defaultdict(set) - or the results of repository functions whose returns are frozenset(..).
    Unknown producers are undecided."""
    from ..defuse import bindings

    def ret_kinds(f: Func, depth: int = 0) -> set:
        out = set()
        for r in walk_own(f.node):
            if isinstance(r, ast.Return) and r.value is not None:
                out |= kinds(r.value, f, depth + 1)
        return out

    def kinds(e: ast.AST, f: Func, depth: int = 0) -> set:
        """kinds of the ELEMENT(s) e stands for: 'set', 'frozenset', '?'"""
        if depth > 14:
            return {"?"}
        if isinstance(e, (ast.Set, ast.SetComp)):
            return {"set"}
        if isinstance(e, ast.Call):
            d = prog.dotted(e.func) or ""
            if d == "set":
                return {"set"}
            if d == "frozenset":
                return {"frozenset"}
            if isinstance(e.func, ast.Attribute) and e.func.attr == "values" and not e.args:
                return kinds(e.func.value, f, depth + 1)       # the values of a dict: kinds of what the dict holds
            if d.split(".")[-1] == "defaultdict" and e.args:
                return {"set"} if norm(e.args[0]) == "set" else {"frozenset"} if norm(e.args[0]) == "frozenset" else {"?"}
            r = prog.resolve_call(e.func, f.mod, f)
            if r and r[0] == "fn":
                return ret_kinds(r[1], depth + 1) or {"?"}
            return {"?"}
        if isinstance(e, ast.DictComp):
            return kinds(e.value, f, depth + 1)
        if isinstance(e, ast.Dict):
            out = set()
            for v in e.values:
                out |= kinds(v, f, depth + 1)
            return out or {"?"}
        if isinstance(e, (ast.GeneratorExp, ast.ListComp)):
            return kinds(e.elt, f, depth + 1)
        if isinstance(e, ast.Subscript):
            return kinds(e.value, f, depth + 1)
        if isinstance(e, ast.IfExp):
            return kinds(e.body, f, depth + 1) | kinds(e.orelse, f, depth + 1)
        if isinstance(e, ast.Name):
            defs = [v for _s, v in bindings(f).get(e.id, []) if v is not None]
            out = set()
            for v in defs:
                out |= kinds(v, f, depth + 1)
            return out or {"?"}
        return {"?"}
    n = 0
    for fn in prog.funcs.values():
        for c in walk_own(fn.node):
            if isinstance(c, ast.Call) and (prog.dotted(c.func) or "") in ("set.union", "set.intersection", "set.difference", "set.symmetric_difference") \
                    and c.args and isinstance(c.args[0], ast.Starred):
                n += 1
                ks = kinds(c.args[0].value, fn)
                if "frozenset" in ks:
                    res.bad("R4.t", fn.loc(c), fn.fq, short(c, 70),
                            f"the elements can be frozensets (producers: {sorted(ks)}): the unbound `{norm(c.func)}` takes the first one as self and raises TypeError; "
                            "`set().union(*xs)` accepts any iterables")
                elif ks == {"set"}:
                    res.ok("R4.t", fn.loc(c), fn.fq, short(c, 70), "every producer of the elements builds a set")
                else:
                    res.undecided("R4.t", fn.loc(c), fn.fq, short(c, 70), f"kind of the elements not readable ({sorted(ks)})")
    if n == 0:
        res.ok("R4.t", "pyrefact/", "package", "unbound set.union / set.intersection calls with starred arguments", "none", trivial=True)


def _r4_r(prog: Program, res: Result) -> None:
    """Contradiction rule for computed indexes: if a function reads `A[e]` only under a test of the index variable against
    len(A) (so it believes the index can be out of range) and reads `B[e]` - the same index expression, B a table built from
    the same value as A - without any such test, one of the two is wrong.  Instance: every group of subscript reads with the
    same non-constant index expression in one function in which at least one read is guarded by a length test."""
    from ..defuse import bindings
    from ..pathcond import PathAnalysis, entails
    n_groups = 0
    for fn in prog.funcs.values():
        groups: Dict[str, List[ast.Subscript]] = {}
        for x in walk_own(fn.node):
            if isinstance(x, ast.Subscript) and isinstance(x.ctx, ast.Load) and isinstance(x.value, ast.Name) and not isinstance(x.slice, (ast.Slice, ast.Constant)) \
                    and any(isinstance(v, ast.Name) for v in ast.walk(x.slice)):
                groups.setdefault(norm(x.slice), []).append(x)
        groups = {k: v for k, v in groups.items() if len({s_.value.id for s_ in v}) >= 2}
        if not groups:
            continue
        pa = None
        len_tests = [t for t in ast.walk(fn.node) if isinstance(t, ast.Compare) and len(t.ops) == 1 and isinstance(t.ops[0], (ast.Lt, ast.LtE, ast.Gt, ast.GtE))
                     and any(isinstance(c, ast.Call) and isinstance(c.func, ast.Name) and c.func.id == "len" for c in [t.left] + t.comparators)]

        def family(name: str) -> str:
            """what the table was built from: the argument text of its single defining call"""
            defs = [v for _s, v in bindings(fn).get(name, []) if v is not None]
            if len(defs) == 1 and isinstance(defs[0], ast.Call) and defs[0].args:
                return norm(defs[0].args[0])
            return name
        for key, subs in groups.items():
            idx_vars = {v.id for v in ast.walk(subs[0].slice) if isinstance(v, ast.Name)}
            pa = pa or PathAnalysis(prog, fn)
            status = []
            for s_ in subs:
                worlds = pa.worlds_at(s_)
                guard = None
                for t in len_tests:
                    tv = {v.id for v in ast.walk(t) if isinstance(v, ast.Name)}
                    if not (tv & idx_vars):
                        continue
                    lens = [c.args[0] for c in [t.left] + t.comparators if isinstance(c, ast.Call) and isinstance(c.func, ast.Name) and c.func.id == "len" and c.args]
                    if not any(isinstance(a, ast.Name) and family(a.id) == family(s_.value.id) for a in lens):
                        continue
                    for pol in (True, False):
                        if worlds and all(entails(w.facts, pa.formula(t, w, pol)) for w in worlds):
                            guard = (t, pol)
                status.append((s_, guard))
            guarded = [g for g in status if g[1] is not None]
            if not guarded:
                continue
            n_groups += 1
            fams = {family(s_.value.id) for s_, _g in status}
            for s_, g in status:
                if g is not None:
                    res.ok("R4.r", fn.loc(s_), fn.fq, short(s_, 60), f"read under `{norm(g[0])}`" + (" (negated)" if not g[1] else ""))
                elif family(s_.value.id) in {family(x_.value.id) for x_, gg in guarded}:
                    res.bad("R4.r", fn.loc(s_), fn.fq, short(s_, 60),
                            f"`{norm(guarded[0][0])}` is read only under `{norm(guarded[0][1][0])}` - the function expects the index `{key}` to run past the end - but `{norm(s_)}`, "
                            f"a table built from the same `{family(s_.value.id)}`, is read with the same index without that test: IndexError for a position after the last line")
                else:
                    res.ok("R4.r", fn.loc(s_), fn.fq, short(s_, 60), "another table (not built from the same value): no stated belief about its length", trivial=True)
    res.analysed["index_groups_with_a_length_test"] = n_groups


def _r4_l(prog: Program, res: Result) -> None:
    """Parsing a SNIPPET: core.parse / ast.parse of a text that is not the function's own text parameter (the spelling of
    one literal, an uncommented comment block, ...) raises SyntaxError unless the snippet was validated first.  A
    contradiction rule (the code states its own belief): in a function where some snippet parse is guarded by the
    validity oracle, EVERY snippet parse must be guarded (by the oracle on the same text - as an earlier conjunct, an
    enclosing test or an early exit - or by a SyntaxError handler); functions that never guard are listed undecided."""
    from ..evaluator import caught as _caught
    per_fn = {}
    for fn in prog.funcs.values():
        for c in prog.calls_in(fn):
            d = prog.dotted(c.func) or ""
            if d not in ("core.parse", "ast.parse") or not c.args or not isinstance(c.args[0], ast.Name) or c.args[0].id in fn.all_params:
                continue
            x = c.args[0].id
            guarded = _caught(c, fn, "SyntaxError") is not None
            why = "inside a SyntaxError handler" if guarded else ""
            if not guarded:
                # earlier conjunct / enclosing test `is_valid_python(x)`
                child, a = c, parent(c)
                while a is not None and a is not fn.node and not guarded:
                    if isinstance(a, ast.BoolOp) and isinstance(a.op, ast.And):
                        idx = next((i for i, v in enumerate(a.values) if v is child or any(child is y for y in ast.walk(v))), None)
                        if idx is not None and any(norm(v).endswith(f"is_valid_python({x})") for v in a.values[:idx]):
                            guarded, why = True, "earlier conjunct is_valid_python on the same text"
                    if isinstance(a, (ast.If, ast.IfExp)) and norm(a.test).endswith(f"is_valid_python({x})"):
                        body = a.body if isinstance(a.body, list) else [a.body]
                        if any(child is b or any(child is y for y in ast.walk(b)) for b in body):
                            guarded, why = True, "inside `if is_valid_python(..)`"
                    child, a = a, parent(a)
            if not guarded:
                pa = PathAnalysis(prog, fn)
                test = ast.parse(f"core.is_valid_python({x})", mode="eval").body
                if pa.reached(c) and pa.holds_at(c, lambda w: pa.formula(test, w))[0]:
                    guarded, why = True, "reached only after is_valid_python held for the text"
            per_fn.setdefault(fn.key, []).append((fn, c, x, guarded, why))
    for key, items in sorted(per_fn.items()):
        believes = any(g and "is_valid_python" in w for _f, _c, _x, g, w in items)
        for fn, c, x, guarded, why in items:
            text = short(c, 70)
            if guarded:
                res.ok("R4.l", fn.loc(c), fn.fq, text, why)
            elif believes:
                res.bad("R4.l", fn.loc(c), fn.fq, text,
                        f"'{x}' is parsed without validation although the same function validates its other snippets first: a snippet that is not valid python on its own "
                        "(a piece of an f-string, half a statement) raises SyntaxError out of the formatter")
            else:
                res.undecided("R4.l", fn.loc(c), fn.fq, text, f"'{x}' is parsed without validation; this function never validates snippets (no stated belief to contradict)")


# ------------------------------------------------------------------------------------------------ R4.e / R4.g
def _explicit_raises(fn: Func) -> List[Tuple[ast.AST, str]]:
    out = []
    for n in walk_own(fn.node):
        if isinstance(n, ast.Raise) and n.exc is not None:
            e = n.exc.func if isinstance(n.exc, ast.Call) else n.exc
            name = norm(e).split(".")[-1]
            if exc_class(name) is not None and caught(n, fn, name) is None:
                # a raise inside an except handler that converts is still a raise of `name`
                out.append((n, name))
        elif isinstance(n, ast.Assert):
            if caught(n, fn, "AssertionError") is None:
                out.append((n, "AssertionError"))
    return out


def _r4_e(prog: Program, res: Result) -> None:
    raising: Dict[Tuple[str, str], Set[str]] = {}
    for fn in prog.funcs.values():
        rs = {name for _, name in _explicit_raises(fn)}
        if rs:
            raising[fn.key] = rs
    # call sites per raising helper
    sites: Dict[Tuple[str, str], List[Tuple[Func, ast.Call]]] = {}
    for fn in prog.funcs.values():
        for c in prog.calls_in(fn):
            r = prog.resolve_call(c.func, fn.mod, fn)
            if r and r[0] == "fn" and r[1].key in raising and r[1].key != fn.key:
                sites.setdefault(r[1].key, []).append((fn, c))
    from ..callgraph import CallGraph
    reach = CallGraph(prog).reachable()
    n_helpers = 0
    for key, callsites in sorted(sites.items()):
        callsites = [(f, c) for f, c in callsites if f.key in reach]
        helper = prog.funcs[key]
        for exc in sorted(raising[key]):
            if exc in ("AssertionError",):
                continue
            handled = [(f, c) for f, c in callsites if caught(c, f, exc) is not None]
            unhandled = [(f, c) for f, c in callsites if caught(c, f, exc) is None]
            if not handled:
                continue   # not used as a signal anywhere: belongs to the escape triage (R4.g)
            n_helpers += 1
            for f, c in handled:
                res.ok("R4.e", f.loc(c), f.fq, f"{helper.name}() may raise {exc}: {short(c, 50)}", "call site handles the signal")
            for f, c in unhandled:
                # propagating callers are fine if they themselves are only called under a handler
                if exc in raising.get(f.key, set()) or _all_callers_handle(prog, f, exc, sites):
                    res.ok("R4.e", f.loc(c), f.fq, f"{helper.name}() may raise {exc}: {short(c, 50)}", "propagated to callers that handle it")
                else:
                    res.bad("R4.e", f.loc(c), f.fq, f"{helper.name}() may raise {exc}: {short(c, 50)}",
                            f"{len(handled)} other call site(s) treat {exc} from {helper.fq} as 'not applicable' and handle it; this one does not: the exception escapes the rule")
    # next(<iterator>) without default
    for fn in prog.funcs.values():
        for c in prog.calls_in(fn):
            if isinstance(c.func, ast.Name) and c.func.id == "next" and len(c.args) == 1 and not c.keywords and isinstance(c.args[0], ast.Name):
                defs = [v for _, v in assignments(fn, c.args[0].id) if v is not None]
                gen = [prog.resolve_call(v.func, fn.mod, fn) for v in defs if isinstance(v, ast.Call)]
                if not (gen and all(g and g[0] == "fn" and g[1].is_generator for g in gen)):
                    continue   # not an iterator over a repository generator (e.g. iter(range(..)) of known length)
                h = caught(c, fn, "StopIteration")
                res.decide(h is not None, "R4.e", fn.loc(c), fn.fq, short(c, 60), "StopIteration handled" if h else "next() on a name generator without default or handler")
    res.analysed["signal_helpers"] = n_helpers


def _all_callers_handle(prog: Program, f: Func, exc: str, sites) -> bool:
    callers = []
    for g in prog.funcs.values():
        for c in prog.calls_in(g):
            r = prog.resolve_call(c.func, g.mod, g)
            if r and r[0] == "fn" and r[1].key == f.key and g.key != f.key:
                callers.append((g, c))
    return bool(callers) and all(caught(c, g, exc) is not None for g, c in callers)


def _r4_g(prog: Program, res: Result) -> None:
    listed = 0
    for fn in prog.funcs.values():
        for n, name in _explicit_raises(fn):
            key = (fn.fq, norm(n))
            if key in REACHABLE_RAISES:
                res.bad("R4.g", fn.loc(n), fn.fq, norm(n)[:120], f"reachable on valid input: {REACHABLE_RAISES[key]}")
            else:
                listed += 1
    res.analysed["explicit_raise_or_assert_sites_not_caught_locally"] = listed
    res.ok("R4.g", "pyrefact/", "package", "escape triage", f"{listed} explicit raise/assert statements are not caught locally (advisory list: feasibility of a raise is not a static fact)", trivial=True)


# ------------------------------------------------------------------------------------------------ R4.z
def _r4_z(prog: Program, res: Result) -> None:
    """min() / max() of nothing raises ValueError.  A statement list of the grammar is never empty - but what is left of it after a
    KIND filter can be: a function body of imports only, a module of definitions only.  Instance: min / max (no `default=`) over the
    elements of a comprehension `[n for n in <X>.body if <isinstance test of n>]` (directly, or through the local it is bound to);
    obligation: a test of that collection (truthiness / len) on the path, or a handler for ValueError."""
    from ..pathcond import PathAnalysis, plain
    n = 0
    for fn in prog.funcs.values():
        binds = bindings(fn)
        pa = None
        for c in prog.calls_in(fn):
            if not (isinstance(c.func, ast.Name) and c.func.id in ("min", "max") and len(c.args) == 1 and not any(k.arg == "default" for k in c.keywords)):
                continue
            a = c.args[0]
            coll = None
            src = a
            if isinstance(a, (ast.GeneratorExp, ast.ListComp)) and len(a.generators) == 1:
                src = a.generators[0].iter
                if a.generators[0].ifs and _kind_filter_over_body(a.generators[0]):
                    coll = a
            if coll is None and isinstance(src, ast.Name):
                vals = [v for _s, v in binds.get(src.id, []) if v is not None]
                if len(vals) == 1 and isinstance(vals[0], (ast.ListComp, ast.SetComp, ast.GeneratorExp)) and len(vals[0].generators) == 1 and _kind_filter_over_body(vals[0].generators[0]):
                    coll = src
            if coll is None:
                continue
            n += 1
            if caught(c, fn, "ValueError") is not None:
                res.ok("R4.z", fn.loc(c), fn.fq, f"{short(c, 70)} # extreme of a kind-filtered statement list", "inside a handler for ValueError")
                continue
            ok = False
            if isinstance(coll, ast.Name):
                pa = pa or PathAnalysis(prog, fn)
                worlds = pa.worlds_at(c)
                ok = bool(worlds) and all(any(f[0] == "lit" and ((f[2] and plain(f[1]) == coll.id) or (f[2] and plain(f[1]).replace(" ", "").startswith(f"lt(0,len({coll.id})")) or
                                                                  (not f[2] and plain(f[1]).replace(" ", "") == f"eq(0,len({coll.id}))")) for f in w.facts) for w in worlds)
            res.decide(ok, "R4.z", fn.loc(c), fn.fq, f"{short(c, 70)} # extreme of a kind-filtered statement list",
                       "reached only when the filtered list is not empty" if ok else
                       "the statements of one kind are filtered out of a body and the extreme of the REST is taken without a test that anything is left: a body that consists "
                       "of the filtered kind only (a function of nothing but imports) raises ValueError out of the formatter")
    if n == 0:
        res.ok("R4.z", "pyrefact/", "package", "extremes of kind-filtered statement lists", "none", trivial=True)


def _kind_filter_over_body(gen: ast.comprehension) -> bool:
    it = gen.iter
    over_body = isinstance(it, ast.Attribute) and it.attr in ("body", "orelse", "finalbody")
    kind_test = any(isinstance(x, ast.Call) and isinstance(x.func, ast.Name) and x.func.id == "isinstance" for i in gen.ifs for x in ast.walk(i))
    return over_body and kind_test


# ------------------------------------------------------------------------------------------------ R4.y
def _r4_y(prog: Program, res: Result) -> None:
    """Ambiguity under a star.  `(?:A|B)*` with an alternative that ENDS in an unbounded repeat of a class which can also match the first
    character of some alternative (`#[^\\n]*` next to `[\\s(]`: the blank after a `#` is the comment's or the next round's) has
    exponentially many ways to split a run; when the rest of the pattern then fails (`\\Z`, a literal), the matcher tries them all.
    Decided on the regex AST for every constant pattern that is applied to program text (the subject is the function's text
    parameter or a slice of it).  An alternative that must consume up to a delimiter (`#[^\\n]*\\n`) is unambiguous.  (R4.x is the
    special case `(\\n\\s*){k,}`, where the order of two substitutions saves the day.)"""
    import re._parser as sre
    TEXT_PARAMS = {"source", "src", "content", "text", "code", "new_source"}

    def first_chars(seq):
        """(set of sample chars an item sequence can start with, can_be_empty)"""
        out = set()
        for op, av in seq:
            name = str(op)
            if name == "LITERAL":
                out.add(chr(av))
                return out, False
            if name == "IN":
                out |= class_chars(av)
                return out, False
            if name == "NOT_LITERAL":
                out |= set(SAMPLE) - {chr(av)}
                return out, False
            if name == "ANY":
                out |= set(" #(x\t")
                return out, False
            if name in ("MAX_REPEAT", "MIN_REPEAT"):
                lo, _hi, sub = av
                c, _e = first_chars(list(sub))
                out |= c
                if lo > 0:
                    return out, False
                continue
            if name == "SUBPATTERN":
                c, e = first_chars(list(av[3]))
                out |= c
                if not e:
                    return out, False
                continue
            if name == "BRANCH":
                empty = False
                for b in av[1]:
                    c, e = first_chars(list(b))
                    out |= c
                    empty = empty or e
                if not empty:
                    return out, False
                continue
            if name == "AT":
                continue
            return out, False
        return out, True

    SAMPLE = " \t\n#()\\x_1,;"

    def class_chars(items):
        neg = any(str(o) == "NEGATE" for o, _a in items)
        pos = set()
        for o, a in items:
            n_ = str(o)
            if n_ == "LITERAL":
                pos.add(chr(a))
            elif n_ == "CATEGORY":
                cat = str(a)
                for ch in SAMPLE:
                    if ("SPACE" in cat and "NOT" not in cat and ch.isspace()) or ("NOT_SPACE" in cat and not ch.isspace()) or \
                            ("WORD" in cat and "NOT" not in cat and (ch.isalnum() or ch == "_")) or ("DIGIT" in cat and "NOT" not in cat and ch.isdigit()):
                        pos.add(ch)
            elif n_ == "RANGE":
                pos |= {ch for ch in SAMPLE if a[0] <= ord(ch) <= a[1]}
        return (set(SAMPLE) - pos) if neg else pos

    def tail_repeat_class(seq):
        """chars the trailing unbounded repeat of an alternative can match (None if it does not end in one)"""
        seq = list(seq)
        while seq and str(seq[-1][0]) == "SUBPATTERN":
            seq = list(seq[-1][1][3])
        if not seq or str(seq[-1][0]) not in ("MAX_REPEAT", "MIN_REPEAT") or seq[-1][1][1] != sre.MAXREPEAT:
            return None
        c, _e = first_chars(list(seq[-1][1][2]))
        return c

    def ambiguous(seq, can_fail_after):
        out = []
        seq = list(seq)
        for i, (op, av) in enumerate(seq):
            name = str(op)
            if name in ("MAX_REPEAT", "MIN_REPEAT") and av[1] == sre.MAXREPEAT:
                body = list(av[2])
                while len(body) == 1 and str(body[0][0]) == "SUBPATTERN":
                    body = list(body[0][1][3])
                alts = [list(b) for b in body[0][1][1]] if len(body) == 1 and str(body[0][0]) == "BRANCH" else [body]
                starts = set()
                for a_ in alts:
                    starts |= first_chars(a_)[0]
                rest_can_fail = can_fail_after or i + 1 < len(seq)
                for a_ in alts:
                    if len(a_) < 2:
                        continue        # a lone class repeated: `[..]*` is not ambiguous
                    tc = tail_repeat_class(a_)
                    if tc and (tc & starts) and rest_can_fail:
                        out.append(sorted(tc & starts))
                for a_ in alts:
                    out += ambiguous(a_, True)
            elif name == "SUBPATTERN":
                out += ambiguous(av[3], can_fail_after or i + 1 < len(seq))
            elif name == "BRANCH":
                for b in av[1]:
                    out += ambiguous(b, can_fail_after or i + 1 < len(seq))
        return out
    n = 0
    for fn in prog.funcs.values():
        for c in prog.calls_in(fn):
            d = prog.dotted(c.func) or ""
            if d not in ("re.search", "re.match", "re.sub", "re.findall", "re.finditer", "re.fullmatch", "re.split") or len(c.args) < 2:
                continue
            if not (isinstance(c.args[0], ast.Constant) and isinstance(c.args[0].value, str)):
                continue
            subject = c.args[2] if d == "re.sub" and len(c.args) > 2 else c.args[1]
            names = {x.id for x in ast.walk(subject) if isinstance(x, ast.Name)}
            if not (names & TEXT_PARAMS & set(fn.all_params)) and not (names & {"new_source"}):
                continue
            ptxt = c.args[0].value
            try:
                amb = ambiguous(list(sre.parse(ptxt)), False)
            except Exception:
                continue
            if not amb and "*" not in ptxt and "+" not in ptxt:
                continue
            n += 1
            # the run-limiter family of R4.x is judged there (order of the substitutions)
            if amb and fn.node.name == "fix_too_many_blank_lines":
                res.ok("R4.y", fn.loc(c), fn.fq, f"{short(c, 70)} # backtracking of a pattern applied to program text", "ambiguous group of the blank-line limiter: judged by R4.x (order)", trivial=True)
                continue
            res.decide(not amb, "R4.y", fn.loc(c), fn.fq, f"{short(c, 70)} # backtracking of a pattern applied to program text",
                       "no alternative under a star ends in a repeat that overlaps the start of an alternative" if not amb else
                       f"under an unbounded repeat an alternative ends in an open repeat whose class also matches the start of an alternative ({amb[0]}): a run of such "
                       "characters can be split in exponentially many ways, and the pattern can fail behind it - a line of `# # # # ..` in the text and the formatter does not return")
    if n == 0:
        res.undecided("R4.y", "pyrefact/", "package", "patterns with repeats applied to program text", "none found")


# ------------------------------------------------------------------------------------------------ R4.x
def _r4_x(prog: Program, res: Result) -> None:
    """Backtracking cost of the blank-line patterns.  `(\\n\\s*){k,}` is ambiguous - `\\s*` also matches the `\\n` that the next round
    of the group could start with - so a FAILING match over a run of N line breaks tries about 2^N splits.  A pattern that ends with
    a mere `\\n` cannot fail on a long run (the last line break of the run serves), so it is cheap, and after its substitution no
    run is longer than its replacement.  The patterns with a demanding tail (`\\Z`, a look-ahead, a second group) fail on almost
    every run and are affordable only on the runs the first one left: obligation for every function that applies several
    substitutions with the same ambiguous group to one text - the one whose tail is a plain `\\n` (the run limiter) comes first.
    (30 blank lines in the middle of a file made the formatter hang when the order was swapped.)"""
    import re._parser as sre
    n = 0
    for fn in prog.funcs.values():
        steps = []
        for s_ in fn.node.body:
            if isinstance(s_, ast.Assign) and isinstance(s_.value, ast.Call) and (prog.dotted(s_.value.func) or "") == "re.sub" and len(s_.value.args) >= 3 \
                    and isinstance(s_.value.args[0], ast.Constant) and isinstance(s_.value.args[0].value, str):
                steps.append((s_, s_.value.args[0].value))
        amb = []
        for s_, ptxt in steps:
            try:
                items = list(sre.parse(ptxt))
            except Exception:
                continue
            if not items or str(items[0][0]) not in ("MAX_REPEAT",):
                continue
            lo, hi, sub = items[0][1]
            if hi != sre.MAXREPEAT:
                continue
            # body: SUBPATTERN( first item X, ..., last item an unbounded repeat of a class that can match X's first char )
            body = list(sub)
            if len(body) == 1 and str(body[0][0]) == "SUBPATTERN":
                body = list(body[0][1][3])
            if len(body) < 2 or str(body[-1][0]) != "MAX_REPEAT" or body[-1][1][1] != sre.MAXREPEAT or str(body[0][0]) != "LITERAL":
                continue
            first_char = chr(body[0][1])
            inner = "".join(f"\\{c}" if c in "\\^$.|?*+()[]{}" else c for c in [first_char])
            tail_class = body[-1][1][2]
            can = any((str(op) == "IN" and any(str(o2) == "CATEGORY" and "SPACE" in str(a2) and first_char.isspace() or (str(o2) == "LITERAL" and chr(a2) == first_char) for o2, a2 in av))
                      or (str(op) == "ANY") or (str(op) == "LITERAL" and chr(av) == first_char) for op, av in tail_class)
            if not can:
                continue
            tail = items[1:]
            limiter = len(tail) == 1 and str(tail[0][0]) == "LITERAL" and chr(tail[0][1]) == first_char
            amb.append((s_, ptxt, limiter))
        if len(amb) < 2:
            continue
        n += 1
        first_limiter = next((i for i, a in enumerate(amb) if a[2]), None)
        ok = first_limiter == 0
        bad_step = amb[0] if not ok else None
        res.decide(ok, "R4.x", fn.loc(amb[0][0]), fn.fq, f"{len(amb)} substitutions with the ambiguous group of {amb[0][1]!r}",
                   "the run limiter (tail: one line break, cannot fail on a long run) is applied first" if ok else
                   f"{bad_step[1]!r} is applied before the run limiter: its tail fails on every long run of blank lines that is not where the tail wants it, and a failing "
                   "match of the ambiguous group costs about 2^N steps for N line breaks - 30 blank lines in the middle of a file and the formatter does not return")
    if n == 0:
        res.undecided("R4.x", "pyrefact/fixes.py:0", "fixes", "substitutions with an ambiguous repeated group", "none found (fix_too_many_blank_lines is expected)")


# ------------------------------------------------------------------------------------------------ R4.w
def _r4_w(prog: Program, res: Result) -> None:
    """A byte string that was CUT (`text.encode()[:k]`, `data[a:b]`) can end in the middle of a multi-byte character; decoding it
    strictly raises UnicodeDecodeError.  The cut position is an ast column, which falls on a character boundary for the line it
    was computed for - but positions are also asked for lines the node was not parsed from (statements that are moved or
    inserted take the line of another statement).  Obligation: every `.decode(..)` applied to a sliced bytes value passes an
    `errors=` policy that cannot raise (ignore / replace / ...), or sits in a handler for UnicodeDecodeError."""
    n = 0
    for fn in prog.funcs.values():
        for c in walk_own(fn.node):
            if not (isinstance(c, ast.Call) and isinstance(c.func, ast.Attribute) and c.func.attr == "decode"):
                continue
            recv = c.func.value
            if isinstance(recv, ast.Name):
                from ..defuse import bindings as _b
                vals = [v for _s, v in _b(fn).get(recv.id, []) if v is not None]
                recv = vals[0] if len(vals) == 1 else recv
            if not (isinstance(recv, ast.Subscript) and isinstance(recv.slice, ast.Slice)):
                continue
            n += 1
            errors = next((k.value for k in c.keywords if k.arg == "errors"), c.args[1] if len(c.args) > 1 else None)
            tolerant = isinstance(errors, ast.Constant) and errors.value in ("ignore", "replace", "backslashreplace", "surrogateescape", "surrogatepass", "namereplace", "xmlcharrefreplace")
            handled = any(caught(c, fn, e) is not None for e in ("UnicodeDecodeError",))
            ok = tolerant or handled
            res.decide(ok, "R4.w", fn.loc(c), fn.fq, f"{short(c, 70)} # decoding a cut byte string",
                       "cannot raise: " + ("errors policy " + repr(errors.value) if tolerant else "inside a handler for UnicodeDecodeError") if ok else
                       "a byte prefix cut at a column is decoded strictly: when the column falls inside a multi-byte character (a position asked for a line the node was not "
                       "parsed from - moved or inserted statements) UnicodeDecodeError escapes the formatter")
    if n == 0:
        res.undecided("R4.w", "pyrefact/", "package", "decoding of cut byte strings", "none found (core._get_charno is expected)")


# ------------------------------------------------------------------------------------------------ R4.u
EXECUTING_CALLS = {       # callee -> what it runs (library documentation)
    "importlib.import_module": "imports the module: runs its code and that of its parent packages",
    "__import__": "imports the module: runs its code and that of its parent packages",
    "importlib.util.find_spec": "for a dotted name imports the PARENT packages to find their __path__",
    "runpy.run_module": "runs the module", "runpy.run_path": "runs the file", "exec": "runs the text", "eval": "runs the text",
}


def _r4_u(prog: Program, res: Result) -> None:
    """Formatting a module must not RUN the project it belongs to: an `__init__.py` / `__main__.py` with top-level code
    (`sys.exit()`, argument parsing, a server start) would end or hang the formatter - SystemExit is no Exception and
    passes every handler - and leave the package in sys.modules for all later calls.  In the tracing module every call of
    the table EXECUTING_CALLS whose argument comes from the analysed program is reached only when that argument is known
    to name a module of the standard library (membership in the stdlib table, or an origin `frozen` / `built-in`); there
    is no exemption for `find_spec`, which imports the parents of a dotted name."""
    from ..pathcond import PathAnalysis, plain
    n = 0
    for f in prog.funcs.values():
        if f.mod.name != "tracing":
            continue
        pa = None
        for c in prog.calls_in(f):
            d = prog.dotted(c.func) or (c.func.id if isinstance(c.func, ast.Name) else "")
            if d not in EXECUTING_CALLS or not c.args:
                continue
            n += 1
            pa = pa or PathAnalysis(prog, f)
            worlds = pa.worlds_at(c)
            arg = norm(c.args[0])
            def stdlib_fact(fct) -> bool:
                if fct[0] != "lit" or not fct[2]:
                    return False
                t = plain(fct[1])
                return (t.startswith(f"in({arg},") and "STDLIB" in t.upper()) or (t.startswith("in(") and "'frozen'" in t.replace('"', "'") and "'built-in'" in t.replace('"', "'"))
            ok = bool(worlds) and all(any(stdlib_fact(fct) for fct in w.facts) for w in worlds)
            res.decide(ok, "R4.u", f.loc(c), f.fq, f"{d}(..): {short(c, 60)}",
                       "reached only for modules of the standard library" if ok else
                       f"{d}() {EXECUTING_CALLS[d]}; the name comes from the analysed program, so code of the analysed project runs inside the formatter "
                       "(`from unittest.__main__.a import b` ends the process with SystemExit, a package `__init__` with side effects is executed and pinned in sys.modules)")
    if n == 0:
        res.ok("R4.u", "pyrefact/tracing.py:0", "tracing", "calls that execute other modules", "none", trivial=True)



# ------------------------------------------------------------------------------------------------ R4.v
def _r4_v(prog: Program, res: Result) -> None:
    """The rules, the matcher, unparse and ast.dump walk the syntax tree RECURSIVELY, and the depth of the tree is a quantity of
    the input: an elif chain nests one level per branch, `a + b + c + ..` one level per operand, `x.f().f().f()` one per call -
    a few hundred of them exceed the interpreter's stack in whichever recursive walk comes first.  No per-function bound is in
    reach of a static argument; what is decidable is the FENCE: the entry point `format_code` runs inside a handler for
    RecursionError that hands back the text it was given (a decorator whose wrapper returns `function(text, ..)` from the try
    body and its own first parameter from the handler - or the same shape written inline)."""
    fn = prog.funcs.get(("main", "format_code"))
    if fn is None:
        raise AnalysisError("anchor main.format_code not found")
    def fenced_wrapper(w: ast.FunctionDef, wrapped_names) -> bool:
        params = [a.arg for a in w.args.posonlyargs + w.args.args]
        if not params:
            return False
        for t in ast.walk(w):
            if not isinstance(t, ast.Try):
                continue
            calls_wrapped = any(isinstance(r, ast.Return) and isinstance(r.value, ast.Call) and isinstance(r.value.func, ast.Name) and r.value.func.id in wrapped_names
                                and r.value.args and isinstance(r.value.args[0], ast.Name) and r.value.args[0].id == params[0] for st in t.body for r in ast.walk(st))
            for h in t.handlers:
                kinds = [norm(e) for e in (h.type.elts if isinstance(h.type, ast.Tuple) else [h.type])] if h.type is not None else ["BaseException"]
                hands_back = bool(h.body) and isinstance(h.body[-1], ast.Return) and isinstance(h.body[-1].value, ast.Name) and h.body[-1].value.id == params[0]
                if calls_wrapped and hands_back and any(k in ("RecursionError", "RuntimeError", "Exception", "BaseException") for k in kinds):
                    return True
        return False
    ok, how = False, ""
    for d in fn.node.decorator_list:
        name = d.id if isinstance(d, ast.Name) else None
        deco = prog.funcs.get(("main", name)) if name else None
        if deco is None:
            continue
        wrapped = deco.posparams[:1]
        for inner in ast.walk(deco.node):
            if isinstance(inner, ast.FunctionDef) and inner is not deco.node and fenced_wrapper(inner, wrapped):
                ok, how = True, f"decorator {name}: the wrapper returns the wrapped function's result from a try and its own text parameter from the RecursionError handler"
    res.decide(ok, "R4.v", fn.loc(), fn.fq, "format_code # fenced against the depth of the syntax tree", how if ok else
               "format_code does not run inside a handler for RecursionError: the recursive walks of the rules (has_side_effect, is_blocking, unparse, ast.dump) exceed "
               "the stack on an elif chain of 400 branches or a sum of 500 strings, and the exception leaves the formatter")



# ------------------------------------------------------------------------------------------------ R4.f
_WC = re.compile(r"\{\{(\w+)[?*+]?\}\}")
_CALL_SLOT = re.compile(r"\{\{(\w+)\(((?:\w+,?\s*)+)\)\}\}")


def _literal_templates(prog: Program, fn: Func, e: ast.AST, depth: int = 0) -> Optional[List[str]]:
    if depth > 3:
        return None
    if isinstance(e, ast.Constant) and isinstance(e.value, str):
        return [e.value]
    if isinstance(e, (ast.Tuple, ast.Set, ast.List)):
        out = []
        for x in e.elts:
            t = _literal_templates(prog, fn, x, depth + 1)
            if t is None:
                return None
            out += t
        return out
    if isinstance(e, ast.Name):
        defs = [v for s, v in assignments(fn, e.id) if v is not None]
        # the definition textually preceding is the relevant one; accept when all definitions are literals
        outs = []
        for v in defs:
            t = _literal_templates(prog, fn, v, depth + 1)
            if t is None:
                return None
            outs.append(t)
        if outs:
            return [x for t in outs for x in t]
    return None


def _nearest_def(fn: Func, name: str, at: ast.AST) -> Optional[ast.AST]:
    best = None
    for s, v in assignments(fn, name):
        if v is not None and s.lineno <= at.lineno and (best is None or s.lineno > best[0].lineno):
            best = (s, v)
    return best[1] if best else None


def _r4_f(prog: Program, res: Result) -> None:
    n = 0
    for fn in prog.funcs.values():
        for c in prog.calls_in(fn):
            r = prog.resolve_call(c.func, fn.mod, fn)
            if not (r and r[0] == "fn" and r[1].key == ("processing", "find_replace")):
                continue
            find = call_arg(c, 1, "find")
            repl = call_arg(c, 2, "replace")
            if find is None or repl is None:
                continue
            if isinstance(find, ast.Name):
                find = _nearest_def(fn, find.id, c) or find
            if isinstance(repl, ast.Name):
                repl = _nearest_def(fn, repl.id, c) or repl
            finds = _literal_templates(prog, fn, find)
            repls = _literal_templates(prog, fn, repl)
            text = f"find_replace at line {c.lineno}: {short(repl, 50)}"
            kwnames = {k.arg for k in c.keywords if k.arg}
            if repls is None:
                res.undecided("R4.f", fn.loc(c), fn.fq, text, "replace template is not a literal")
                continue
            if finds is None:
                # compiled template variable: wildcards unknown
                find_src = None
                if isinstance(find, ast.Call) and (prog.dotted(find.func) or "") == "core.compile_template" and find.args:
                    finds = _literal_templates(prog, fn, find.args[0])
                    kwnames |= {k.arg for k in find.keywords if k.arg}
                if finds is None:
                    res.undecided("R4.f", fn.loc(c), fn.fq, text, "find template is not a literal")
                    continue
            n += 1
            bound = {"root"}   # every match carries the matched node as `root`
            for f in finds:
                bound |= set(_WC.findall(f))
            problems = []
            for rtext in repls:
                used = set(_WC.findall(rtext))
                missing = used - bound
                if missing:
                    problems.append(f"replace template uses wildcard(s) {sorted(missing)} that the find template does not bind: format_template raises ValueError")
                for m in _CALL_SLOT.finditer(rtext):
                    if m.group(1) not in kwnames:
                        problems.append(f"callable slot {{{{{m.group(1)}(..)}}}} has no callable argument")
                    for a in re.findall(r"\w+", m.group(2)):
                        if a not in bound:
                            problems.append(f"callable slot argument '{a}' is not bound by the find template")
            for f in finds:
                probe = _WC.sub(lambda m: "wc_" + m.group(1), f)
                probe = re.sub(r"\{\{\.\.\.[?*+]?\}\}", "wc_any", probe)
                try:
                    ast.parse(textwrap.dedent(probe))
                except SyntaxError as error:
                    problems.append(f"find template does not parse: {error.msg}")
            res.decide(not problems, "R4.f", fn.loc(c), fn.fq, text, "; ".join(problems) or f"wildcards {sorted(bound)} bind every wildcard of the replacement")
    res.analysed["find_replace_pairs"] = n


# ------------------------------------------------------------------------------------------------ R4.h
def _r4_h(prog: Program, res: Result) -> None:
    from .c03 import valid_hook
    # parameters that are parsed without protection
    requires: Dict[Tuple[str, str], Set[str]] = {}
    for fn in prog.funcs.values():
        for c in prog.calls_in(fn):
            d = prog.dotted(c.func) or ""
            r = prog.resolve_call(c.func, fn.mod, fn)
            is_parse = (r and r[0] == "fn" and r[1].key == ("core", "parse")) or d == "ast.parse"
            if is_parse and c.args and isinstance(c.args[0], ast.Name) and c.args[0].id in fn.all_params:
                if caught(c, fn, "SyntaxError") is None and not assignments(fn, c.args[0].id):
                    requires.setdefault(fn.key, set()).add(c.args[0].id)
    from .c03 import SafeText
    st = SafeText(prog)
    st.solve([f for f in prog.funcs.values() if f.mod.name == "processing" and f.posparams and not f.is_generator])
    for m, q in (("processing", "_apply_rewrites"), ("processing", "_replace_nodes"), ("processing", "alter_code")):
        fn = prog.func(m, q)
        own = fn.posparams[0]
        pa = ValidPA(prog, fn, term_hook=valid_hook(prog), summaries=st)
        for c in prog.calls_in(fn):
            r = prog.resolve_call(c.func, fn.mod, fn)
            if not (r and r[0] == "fn" and r[1].key in requires):
                continue
            callee = r[1]
            for i, pn in enumerate(callee.posparams):
                if pn not in requires[callee.key]:
                    continue
                a = call_arg(c, i, pn)
                if not isinstance(a, ast.Name):
                    continue
                if a.id == own and not assignments(fn, own):
                    continue
                defs = [v for _, v in assignments(fn, a.id) if v is not None]
                if defs and all(isinstance(v, ast.Name) and v.id == own for v in defs):
                    continue   # alias of the input text
                worlds = pa.worlds_at(c)
                ok = bool(worlds) and all(entails(w.facts, Lit(f"valid({w.token(a.id)})")) for w in worlds)
                res.decide(ok, "R4.h", fn.loc(c), fn.fq, f"{callee.name}(.. {pn}={a.id} ..)",
                           f"'{a.id}' passed the validity test before {callee.name} parses it" if ok else
                           f"{callee.fq} parses its parameter '{pn}' (core.parse raises SyntaxError), and '{a.id}' is a new text that was not validated on this path: a rewrite producing unparsable code crashes the formatter instead of being rolled back")


class ValidPA(PathAnalysis):
    """x = F(.., y, ..) with F 'returns its text argument or a validated text': valid(y) carries over to x."""

    def __init__(self, prog, fn, term_hook=None, summaries=None):
        self.summaries = summaries
        super().__init__(prog, fn, term_hook=term_hook)

    def _assign(self, target, value, s, ws):
        carry = []
        if isinstance(target, ast.Name) and isinstance(value, ast.Call) and self.summaries is not None:
            r = self.prog.resolve_call(value.func, self.fn.mod, self.fn)
            if r and r[0] == "fn" and self.summaries.summary.get(r[1].key) in ("SAFE", "PARAM", "VALID"):
                # which parameter does the summary speak about: the last text-like one that is returned (by name)
                a = self.summaries.text_arg(value, r[1])
                if isinstance(a, ast.Name):
                    for w in ws:
                        if entails(w.facts, Lit(f"valid({w.token(a.id)})")):
                            carry.append(w)
        super()._assign(target, value, s, ws)
        for w in carry:
            w.add(Lit(f"valid({w.token(target.id)})"))


# ---------------------------------------------------------------------------------------------- self-test
from ..selftest import Variant  # noqa: E402

VARIANTS = [
    Variant("minimum-of-what-a-kind-filter-leaves-untested", "FIRE", "abstractions", "    if not imports:\n        return scope.body[-1].end_lineno  # Nothing but imports: behind the last of them\n\n", "", "R4.z"),
    Variant("decorator-search-with-an-open-ended-comment-alternative", "FIRE", "core", "#[^\\n]*\\n)*\\Z\", source[:start_charno])", "#[^\\n]*)*\\Z\", source[:start_charno])", "R4.y"),
    Variant("entry-point-without-depth-fence", "FIRE", "main", "@_hand_back_code_that_is_too_deep\ndef format_code(", "def format_code(", "R4.v"),
    Variant("depth-fence-hands-back-nothing", "FIRE", "main", "            logger.error(\"The code is too deeply nested to be formatted\")\n            return source\n", "            logger.error(\"The code is too deeply nested to be formatted\")\n            raise\n", "R4.v"),
    Variant("depth-fence-catches-every-exception", "SILENT", "main", "        except RecursionError:\n            logger.error(\"The code is too deeply nested", "        except (RecursionError, MemoryError):\n            logger.error(\"The code is too deeply nested", "R4.v"),
    Variant("modules-located-by-importing-their-parents", "FIRE", "tracing", "                module_spec = _find_spec_without_importing(module)\n", "                module_spec = importlib.util.find_spec(module)\n", "R4.u"),
    Variant("any-module-imported-to-list-its-exports", "FIRE", "tracing", "                if node.module in constants.PYTHON_311_STDLIB:\n                    # Logic copied", "                if node.module:\n                    # Logic copied", "R4.u"),
    Variant("definition-name-searched-in-normalised-form-only", "FIRE", "fixes", "    raise RuntimeError(f\"No definition of {node.name} in code block:\\n{codeblock}\")\n", "    raise RuntimeError(f\"Cannot find {node.name} in code block:\\n{codeblock}\")\n", "R4.g"),
    Variant("recursion-without-progress-test-after-a-refusable-edit", "FIRE", "fixes",
            "            if new_source == source:\n                continue  # The change was refused\n\n            return move_before_loop(new_source)", "            return move_before_loop(new_source)", "R4.c"),
    Variant("edited-text-parsed-before-it-is-validated", "FIRE", "processing",
            "    # Nodes are put in and taken out line by line, which does not work out for every layout\n    if not core.is_valid_python(source):\n        return original_source\n\n    source = _substitute_original_strings(original_source, source)",
            "    source = _substitute_original_strings(original_source, source)", "R4.h"),
    Variant("unbound-set-union-of-frozensets", "FIRE", "main", "        preserve = set().union(*used_names.values())", "        preserve = set.union(*used_names.values()) if used_names else set()", "R4.t"),
    Variant("unary-node-built-with-the-binary-operator", "FIRE", "fixes", "                        replacement = ast.UnaryOp(op=ast.USub(), operand=replacement)", "                        replacement = ast.UnaryOp(op=body_node.op, operand=replacement)", "R4.s"),
    Variant("boolop-built-with-a-comparison-operator", "FIRE", "symbolic_math", "                yield node, ast.BoolOp(op=ast.And(), values=values)", "                yield node, ast.BoolOp(op=ast.Eq(), values=values)", "R4.s"),
    Variant("line-start-table-read-past-the-end", "FIRE", "core",
            "    if lineno > len(lines):\n        return len(source)  # After the last line, where something may be inserted\n\n    line = lines[lineno - 1]\n",
            "    line = lines[lineno - 1] if lineno <= len(lines) else \"\"\n", "R4.r"),
    Variant("both-line-tables-read-under-the-test", "SILENT", "core",
            "    if lineno > len(lines):\n        return len(source)  # After the last line, where something may be inserted\n\n    line = lines[lineno - 1]\n",
            "    if not lineno <= len(lines):\n        return len(source)\n\n    line = lines[lineno - 1]\n"),
    Variant("append-without-argument-indexed", "FIRE", "fixes",
            "        if any(\n            m[0].value.func.attr in {\"append\", \"add\"} and len(m[0].value.args) != 1\n            for m in matches\n        ):\n            continue  # x.append() and x.add(1, 2) raise TypeError when they run, there is no element\n\n", "", "R4.q"),
    Variant("template-no-longer-pins-the-argument-list", "FIRE", "performance",
            "    iter_template = ast.Call(func=ast.Name(id=(\"iter\", \"list\", \"tuple\")), args=[object])", "    iter_template = ast.Call(func=ast.Name(id=(\"iter\", \"list\", \"tuple\")))", "R4.q"),
    Variant("length-test-instead-of-template-pin", "SILENT", "performance",
            "    iter_template = ast.Call(func=ast.Name(id=(\"iter\", \"list\", \"tuple\")), args=[object])\n    template = (ast.For(iter=iter_template), ast.comprehension(iter=iter_template))\n\n    for node in core.walk(root, template):\n",
            "    iter_template = ast.Call(func=ast.Name(id=(\"iter\", \"list\", \"tuple\")))\n    template = (ast.For(iter=iter_template), ast.comprehension(iter=iter_template))\n\n    for node in core.walk(root, template):\n        if len(node.iter.args) != 1:\n            continue\n"),
    Variant("set-call-argument-indexed-without-test", "FIRE", "fixes",
            "            if assigned_value.args:\n                elts = [ast.Starred(value=assigned_value.args[0])] + other_elts\n            else:\n                elts = other_elts\n",
            "            elts = [ast.Starred(value=assigned_value.args[0])] + other_elts\n", "R4.q"),
    Variant("preserve-option-taken-as-it-comes", "FIRE", "main", "    preserve = frozenset(preserve)  # Any collection is accepted, but the fixes use set operators\n\n", "", "R4.o"),
    Variant("preserve-option-normalised-with-set", "SILENT", "main", "    preserve = frozenset(preserve)  # Any collection is accepted, but the fixes use set operators\n", "    preserve = set(preserve) | set()\n"),
    Variant("sympy-parser-unfenced", "FIRE", "symbolic_math",
            "            try:\n                replacement = _sum_range(arg)\n            except Exception:  # sympy parses the text of the arguments, and cannot read all of python\n                continue\n            yield node, replacement\n",
            "            yield node, _sum_range(arg)\n", "R4.n"),
    Variant("sympy-parser-fenced-for-typeerror-only", "FIRE", "symbolic_math",
            "            try:\n                replacement = _sum_constants(arg.elts)\n            except Exception:\n                continue\n",
            "            try:\n                replacement = _sum_constants(arg.elts)\n            except TypeError:\n                continue\n", "R4.n"),
    Variant("sympy-fence-inside-the-helper", "SILENT", "symbolic_math",
            "            try:\n                replacement = _integrate_over(arg.elt, arg.generators)\n            except Exception:\n                continue\n            yield node, replacement\n",
            "            replacement = _integrate_or_none(arg.elt, arg.generators)\n            if replacement is None:\n                continue\n            yield node, replacement\n",
            extra=[("symbolic_math", "@processing.fix\ndef simplify_math_iterators(", "def _integrate_or_none(expr, generators):\n    try:\n        return _integrate_over(expr, generators)\n    except Exception:\n        return None\n\n\n@processing.fix\ndef simplify_math_iterators(")]),
    Variant("oracle-handles-syntax-errors-only", "FIRE", "core",
            "    except (SyntaxError, ValueError, RecursionError, MemoryError):\n        # ValueError: null bytes, lone surrogates. RecursionError: too deeply nested for the parser.\n        return False",
            "    except SyntaxError:\n        return False", "R4.m"),
    Variant("oracle-handles-everything", "SILENT", "core",
            "    except (SyntaxError, ValueError, RecursionError, MemoryError):\n        # ValueError: null bytes, lone surrogates. RecursionError: too deeply nested for the parser.\n        return False",
            "    except Exception:\n        return False"),
    Variant("first-line-of-an-empty-replacement", "FIRE", "processing",
            "        if new_code and not core.is_valid_python(choice):  # Nothing to indent in a deletion", "        if not core.is_valid_python(choice):", "R4.k"),
    Variant("first-line-of-an-empty-match", "FIRE", "pattern_matching",
            "{(match.string.splitlines() or [''])[0]}", "{match.string.splitlines()[0]}", "R4.k"),
    Variant("find-spec-handles-import-error-only", "FIRE", "tracing",
            "            except (ImportError, ValueError):  # ValueError: e.g. an empty module name", "            except ImportError:", "R4.j"),
    Variant("foreign-module-parsed-outside-handler", "FIRE", "tracing",
            "        try:\n            with origin.open(\"r\", encoding=\"utf-8\") as stream:\n                module_source = stream.read()\n\n            module_root = core.parse(module_source)\n        except (OSError, UnicodeDecodeError, SyntaxError):\n            continue  # The other module cannot be read, or is not valid python\n",
            "        try:\n            with origin.open(\"r\", encoding=\"utf-8\") as stream:\n                module_source = stream.read()\n        except (OSError, UnicodeDecodeError):\n            continue\n\n        module_root = core.parse(module_source)\n", "R4.j"),
    Variant("foreign-module-handler-catches-everything", "SILENT", "tracing",
            "        except (OSError, UnicodeDecodeError, SyntaxError):\n            continue  # The other module cannot be read, or is not valid python\n\n        if any(core.filter_nodes(module_root.body, all_template)):",
            "        except Exception:\n            continue\n\n        if any(core.filter_nodes(module_root.body, all_template)):"),
    Variant("else-keyword-list-indexed-unchecked", "FIRE", "fixes",
            "        if not else_matches:\n            continue\n        last_else = else_matches[-1]", "        last_else = else_matches[-1]", "R4.k"),
    Variant("alias-pairs-sorted-without-key", "FIRE", "fixes",
            "        names = sorted(\n            {(alias.name, alias.asname) for alias in node.names},\n            key=lambda t: (t[0], t[1] is not None, t[1]),\n        )",
            "        names = sorted({(alias.name, alias.asname) for alias in node.names})", "R4.i"),
    Variant("is-blocking-calls-the-raw-evaluator", "FIRE", "core",
            "            branch = node.body if literal_value(node.test) else node.orelse", "            branch = node.body if _literal_value(node.test) else node.orelse", "R4.a"),
    Variant("drop-first-validity-test", "FIRE", "processing",
            "    if not core.is_valid_python(new_source):\n        return source\n\n    new_source = _substitute_original_strings",
            "    new_source = _substitute_original_strings", "R4.h"),
    Variant("dead-ifs-without-handler", "FIRE", "fixes",
            "        try:\n            value = core.literal_value(node.test)\n        except ValueError:\n            continue\n\n        if _has_yield(node):",
            "        value = core.literal_value(node.test)\n\n        if _has_yield(node):", "R4.a"),
    Variant("yield-single-node", "FIRE", "fixes", "        if func == \"iter\" and isinstance(comp, ast.GeneratorExp):\n            yield node, comp", "        if func == \"iter\" and isinstance(comp, ast.GeneratorExp):\n            yield comp", "R4.b"),
    Variant("driver-while-true", "FIRE", "main",
            "    for _ in range(1, 1 + MAX_FILE_PASSES):\n        source = _multi_run_fixes(source, preserve=preserve)\n        if source in content_history:\n            break\n\n        content_history.add(source)\n\n    source = abstractions.overused_constant",
            "    while True:\n        source = _multi_run_fixes(source, preserve=preserve)\n        if source in content_history:\n            break\n\n        content_history.add(source)\n\n    source = abstractions.overused_constant", "R4.d"),
    Variant("worklist-never-popped", "FIRE", "fixes", "            if core.walk(nodes[-1], target_template):\n                break\n\n            nodes.pop()\n", "            if core.walk(nodes[-1], target_template):\n                break\n", "R4.d"),
    Variant("defaultdict-signal-unhandled", "FIRE", "fixes",
            "            try:\n                (key, obj, negative) = _get_contains_args(condition.test)\n                (f_obj, f_key, f_value) = _get_assign_functions(condition.body[0])\n                (t_obj, t_call, t_key, _) = _get_subscript_functions(append)\n            except ValueError:\n                continue\n",
            "            (key, obj, negative) = _get_contains_args(condition.test)\n            (f_obj, f_key, f_value) = _get_assign_functions(condition.body[0])\n            (t_obj, t_call, t_key, _) = _get_subscript_functions(append)\n", "R4.e"),
    Variant("duplicate-imports-recursion-unguarded", "FIRE", "fixes",
            "        if new_source != source:  # Replacements may be refused, e.g. because of pyrefact: ignore\n            return _fix_duplicate_regular_imports(new_source)",
            "        return _fix_duplicate_regular_imports(new_source)", "R4.c"),
    Variant("trace-origin-unbounded", "FIRE", "tracing", "    if _depth > 20:  # Modules may star-import each other\n        return None\n\n", "", "R4.c"),
    Variant("ordering-outside-handler", "FIRE", "symbolic_math",
            "        except TypeError:  # E.g. \"a\" < 1. The program will raise at runtime, leave it as it is.\n            continue\n", "        except KeyError:\n            continue\n", "R4.a"),
    Variant("replace-template-typo", "FIRE", "fixes", "    replace = \"{{variable}} = not ({{condition}})\"\n", "    replace = \"{{variable}} = not ({{conditon}})\"\n", "R4.f"),
    Variant("forward-match-objects", "FIRE", "performance",
            "    yield from processing.find_replace(\n        source,\n        \"({{sequence}}[:, {{index}}] for {{index}} in range({{sequence}}.shape[1]))\",\n        \"iter({{sequence}}.T)\",\n    )",
            "    yield from processing.find_replace(\n        source,\n        \"({{sequence}}[:, {{index}}] for {{index}} in range({{sequence}}.shape[1]))\",\n        \"iter({{sequence}}.T)\",\n        yield_match=True,\n    )", "R4.b"),
    Variant("handler-catches-more", "SILENT", "fixes",
            "        try:\n            value = core.literal_value(node.test)\n        except ValueError:\n            continue\n\n        if _has_yield(node):",
            "        try:\n            value = core.literal_value(node.test)\n        except (ValueError, TypeError):\n            continue\n\n        if _has_yield(node):"),
    Variant("yield-tuple-via-local", "SILENT", "fixes", "        if func == \"iter\" and isinstance(comp, ast.GeneratorExp):\n            yield node, comp", "        if func == \"iter\" and isinstance(comp, ast.GeneratorExp):\n            pair = (node, comp)\n            yield pair"),
]

META = {
    "design_ref": "DESIGN.md section 3, C04",
    "technique": "exception-escape analysis around the evaluator, yield-shape typestate of rule generators, progress analysis of text recursion (path condition with ghost 'filled' facts), loop-variant table, keyless ordering of optional components, signal-protocol contradiction rule, template closure; fence checks of the entry point (depth) and the evaluator (cost); regex-AST backtracking-order rule; errors policy of cut byte decodes; effect rule for the tracing path",
    "level_text": ("Decides on the current source the structural mechanisms that keep the formatter from crashing or "
                   "looping: evaluator failures become the 'unknown' signal and are handled, results of the evaluator are "
                   "not used in raising operations without handler/type test, rule generators yield well-shaped rewrites, "
                   "text recursion makes progress or carries a bound, driver loops are range-bounded and the tabled while "
                   "loops keep their variant, signalling helpers are handled at every call site, replacement templates are "
                   "closed over their find templates, back-ends only parse validated texts. It does not decide crashes "
                   "from index arithmetic on runtime text, nor time bounds, nor third-party code."),
    "level_note": "Trusted: CPython ast/builtins; WHILE_TABLE and REACHABLE_RAISES confirmed by reading/witness; the alter_code progress summary.",
}
