"""C17 Boolean, comparison and range rewrites are logically equivalent (partial, DESIGN 3/C17)."""
from __future__ import annotations

import ast
import itertools
import operator
import re
from fractions import Fraction
from typing import Dict, List, Optional, Sequence, Tuple

from ..model import AnalysisError, AstClass, Func, Program, Unresolvable, norm, parent, short, walk_own, walk_body
from ..report import Result

CMP = {"Eq": operator.eq, "NotEq": operator.ne, "Gt": operator.gt, "Lt": operator.lt, "GtE": operator.ge, "LtE": operator.le}
NEGATION = {"Eq": "NotEq", "NotEq": "Eq", "Lt": "GtE", "GtE": "Lt", "Gt": "LtE", "LtE": "Gt", "In": "NotIn", "NotIn": "In",
            "Is": "IsNot", "IsNot": "Is"}
MIRROR = {"Eq": "Eq", "NotEq": "NotEq", "Gt": "Lt", "Lt": "Gt", "GtE": "LtE", "LtE": "GtE"}
PYOP = {ast.Eq: "Eq", ast.NotEq: "NotEq", ast.Gt: "Gt", ast.Lt: "Lt", ast.GtE: "GtE", ast.LtE: "LtE"}


def ast_class_name(prog: Program, fn: Func, e: ast.AST) -> Optional[str]:
    """`ast.Gt` (through the module's alias of ast) -> 'Gt'; `ast.Gt()` too."""
    if isinstance(e, ast.Call) and not e.args and not e.keywords:
        e = e.func
    d = prog.dotted(e)
    if d and "." in d:
        head, name = d.rsplit(".", 1)
        al = fn.mod.aliases.get(head)
        if al == ("ext", "ast") and hasattr(ast, name):
            return name
    return None


LATER_RULES = " Later rules: R17.2 anchored at the operand swap; (R17.9) arithmetic on a matched constant's value needs an int-pinned template; (R17.10) and/or replaced by a truth value wherever it stands (known finding); (R17.11) function-name dispatch contradiction rule; (R17.12) a helper's 'nothing to simplify' is not a replacement; (R17.13) closed forms of sums need constant ordered bounds; (R17.14) a wildcard that is an operand in a replacement template is parenthesised by precedence, written between parentheses, restricted to tighter classes, or in the same position as in the find template; (R17.15) a statement that answers the truth value of a condition is replaced by the condition itself only for boolean-valued code."


def check(prog: Program, tier: str) -> Result:
    res = Result(
        "C17",
        explanation=(
            "Decides the table-shaped parts of the condition rewrites: (R17.1) the negation table equals logical "
            "negation of the comparison operators, is an involution, and both readers apply it to the operator they "
            "replace, only on single-operator comparisons; (R17.2) the operand-mirroring table and the two-sided "
            "templates of simplify_constrained_range pair each operator with its mirror image; (R17.3) De Morgan shape "
            "of _negate_condition; (R17.4) every pairwise (and the three-way) bound claim of "
            "simplify_boolean_expressions - 'under this order relation between the thresholds, these constraints on "
            "one expression are contradictory / exhaustive / one makes the other redundant' - is decided by exhaustive "
            "enumeration of the order types of (x, thresholds) over integers x and half-integer thresholds (and "
            "rational x, reported as a note); the flags and sets are tied to the yields they control; (R17.5) each "
            "comparison-folding branch applies the Python operator of the class it tests; (R17.6) the per-template "
            "bound updates of simplify_constrained_range are decided as difference-constraint claims over a finite box. "
            "(R17.7) no loop-carried state in the per-condition loops (definite-assignment analysis); (R17.8) the negation helper builds new "
            "nodes instead of flipping operators in the tree it was given. Not decided: sympy round trip, sum closed forms."),
        rule_text="instances = table entries, reader sites, extracted bound claims (one per guarded effect statement), folding branches",
    )
    res.explanation += LATER_RULES
    res.trusted_base = ["CPython ast", "reference semantics of the six comparison operators (python operator module) on small rationals",
                        "reference negation / mirror tables in sa/props/c17.py"]
    res.assumptions = ["thresholds are totally ordered numbers (the code admits int, float, bool literals only)"]
    _r17_1(prog, res)
    _r17_2(prog, res)
    _r17_3(prog, res)
    n_claims = _r17_4(prog, res, tier)
    _r17_5(prog, res)
    _r17_6(prog, res)
    _r17_7(prog, res)
    _r17_8(prog, res)
    _r17_9(prog, res)
    _r17_10(prog, res)
    _r17_11(prog, res)
    _r17_12(prog, res)
    _r17_13(prog, res)
    _r17_14(prog, res)
    _r17_15(prog, res)
    _r17_16(prog, res)
    _r17_17(prog, res)
    _r17_18(prog, res)
    _r17_19(prog, res)
    _r17_20(prog, res)
    _r17_21(prog, res)
    res.floors.update({"R17.20": 1, "R17.21": 1, "R17.19": 1, "R17.18": 1, "R17.17": 1, "R17.16": 1, "R17.15": 2, "R17.14": 10, "R17.13": 2, "R17.12": 1, "R17.11": 3, "R17.10": 3, "R17.9": 3, "R17.1": 12, "R17.2": 10, "R17.3": 4, "R17.4": 40, "R17.5": 6, "R17.6": 4, "R17.7": 2, "R17.8": 1})
    res.analysed["bound_claims"] = n_claims
    return res


# ------------------------------------------------------------------------------------------------ R17.14
PRECEDENCE = {      # reference table: how tightly the operator of a node class binds (Python grammar), 16 = atom / primary
    "NamedExpr": 0, "Lambda": 1, "Yield": 1, "YieldFrom": 1, "IfExp": 2, "Or": 3, "And": 4, "Not": 5, "Compare": 6, "Starred": 6,
    "BitOr": 7, "BitXor": 8, "BitAnd": 9, "LShift": 10, "RShift": 10, "Add": 11, "Sub": 11, "Mult": 12, "Div": 12, "FloorDiv": 12,
    "Mod": 12, "MatMult": 12, "UAdd": 13, "USub": 13, "Invert": 13, "Pow": 14, "Await": 15, "Attribute": 15, "Subscript": 15, "Call": 15,
}


def _level_of(node: ast.AST) -> Optional[int]:
    """Precedence of the operator of a template node (None: not an operator a wildcard can be an operand of)."""
    if isinstance(node, (ast.BoolOp, ast.BinOp, ast.UnaryOp)):
        return PRECEDENCE[type(node.op).__name__]
    return PRECEDENCE.get(type(node).__name__)


def _operand_positions(template: str) -> Dict[str, List[Tuple[str, int, bool]]]:
    """wildcard -> [(operator class, its precedence, explicitly parenthesised in the text)] for every place where the wildcard is an operand."""
    import re as _re
    import textwrap
    out: Dict[str, List[Tuple[str, int, bool]]] = {}
    probe = _re.sub(r"\{\{(\w+)\}\}", r"W__\1__", template)
    try:
        tree = ast.parse(textwrap.dedent(probe))
    except SyntaxError:
        return out
    for node in ast.walk(tree):
        level = _level_of(node)
        if level is None:
            continue
        children = list(ast.iter_child_nodes(node))
        if isinstance(node, ast.Subscript):
            children = [node.value]
        elif isinstance(node, ast.Call):
            children = [node.func]
        for ch in children:
            if isinstance(ch, ast.Name) and ch.id.startswith("W__") and ch.id.endswith("__"):
                name = ch.id[3:-2]
                opname = type(node.op).__name__ if isinstance(node, (ast.BoolOp, ast.BinOp, ast.UnaryOp)) else type(node).__name__
                out.setdefault(name, []).append((opname, level, False))
    # explicit parentheses in the text: every occurrence of the wildcard is written `({{name}})`
    for name in list(out):
        bare = len(_re.findall(r"\{\{" + name + r"\}\}", template))
        wrapped = len(_re.findall(r"\(\s*\{\{" + name + r"\}\}\s*\)", template))
        if bare == wrapped:
            out[name] = [(o, l, True) for o, l, _ in out[name]]
    return out


def _levels_assigned(prog: Program, f: Func) -> Dict[str, int]:
    """Read the precedence function: `if isinstance(node, ast.K): return <int>` (also `A if isinstance(node.op, ast.Op) else B`) and the
    module-level table it indexes for binary operators."""
    out: Dict[str, int] = {}

    def classes(test: ast.AST) -> List[str]:
        if isinstance(test, ast.Call) and norm(test.func) == "isinstance" and len(test.args) == 2:
            cs = test.args[1].elts if isinstance(test.args[1], ast.Tuple) else [test.args[1]]
            return [norm(c).replace("ast.", "") for c in cs]
        return []
    for st in walk_own(f.node):
        if not isinstance(st, ast.If):
            continue
        test, branch = st.test, st.body
        while isinstance(test, ast.UnaryOp) and isinstance(test.op, ast.Not):
            test, branch = test.operand, (st.orelse if branch is st.body else st.body)
        if not (branch and isinstance(branch[0], ast.Return) and branch[0].value is not None):
            continue
        v = branch[0].value
        if isinstance(v, ast.IfExp) and isinstance(v.test, ast.UnaryOp) and isinstance(v.test.op, ast.Not):
            v = ast.IfExp(test=v.test.operand, body=v.orelse, orelse=v.body)
        for cls in classes(test):
            if isinstance(v, ast.Constant) and isinstance(v.value, int):
                out.setdefault(cls, v.value)
            elif isinstance(v, ast.IfExp) and isinstance(v.body, ast.Constant) and isinstance(v.orelse, ast.Constant):
                ops = classes(v.test)
                if cls == "BoolOp" and ops:
                    other = "And" if ops[0] == "Or" else "Or"
                    out[ops[0]], out[other] = v.body.value, v.orelse.value
                elif cls == "UnaryOp" and ops:
                    if ops[0] == "Not":
                        out["Not"], out["USub"] = v.body.value, v.orelse.value
                    else:
                        out["USub"], out["Not"] = v.body.value, v.orelse.value
            elif isinstance(v, ast.Subscript) and isinstance(v.value, ast.Name) and cls == "BinOp":
                table = f.mod.globals.get(v.value.id)
                tv = table if isinstance(table, ast.Dict) else getattr(table, "value", None)
                if isinstance(tv, ast.Dict):
                    for k, val in zip(tv.keys, tv.values):
                        if k is not None and isinstance(val, ast.Constant):
                            out[norm(k).replace("ast.", "")] = val.value
    return out



def _central_parenthesiser(prog: Program) -> Optional[str]:
    """core.format_template gives the code of a wildcard parentheses when its precedence is not above that of the operator it becomes an operand
    of: the substitution loop contains a comparison (<= / <) between a precedence of the VALUE and an entry of a table computed from the
    TEMPLATE by a function that parses the template (ast.parse) - and the precedence function agrees with the reference table."""
    fn = prog.funcs.get(("core", "format_template"))
    if fn is None:
        return None
    table_fn = prec_fn = None
    for c in prog.calls_in(fn):
        r = prog.resolve_call(c.func, fn.mod, fn)
        if r and r[0] == "fn":
            body = norm(r[1].node)
            if "ast.parse(" in body and "ast.iter_child_nodes(" in body and c.args and isinstance(c.args[0], ast.Name) and c.args[0].id in fn.posparams:
                table_fn = r[1]
            if "ast.IfExp" in body and "ast.BoolOp" in body and "ast.Compare" in body and "return" in body and len(r[1].posparams) == 1 and "ast.parse(" not in body:
                prec_fn = r[1]
    if table_fn is None or prec_fn is None:
        return None
    guarded = False
    for n in walk_own(fn.node):
        if isinstance(n, ast.Compare) and len(n.ops) == 1 and isinstance(n.ops[0], (ast.LtE, ast.Lt)):
            left_calls = [x for x in ast.walk(n.left) if isinstance(x, ast.Call) and norm(x.func) == prec_fn.node.name]
            if left_calls and isinstance(n.ops[0], ast.LtE):
                guarded = True
    if not guarded:
        return None
    # the precedence function against the reference table: the ORDER of the levels it assigns is the order of the grammar
    levels = _levels_assigned(prog, prec_fn)
    chain = ["NamedExpr", "Lambda", "IfExp", "Or", "And", "Not", "Compare", "BitOr", "BitXor", "BitAnd", "LShift", "Add", "Mult", "USub", "Pow"]
    if any(k not in levels for k in chain):
        return None
    if any(not levels[a_] < levels[b_] for a_, b_ in zip(chain, chain[1:])):
        return None
    if not (levels["LShift"] == levels.get("RShift") and levels["Add"] == levels.get("Sub") and levels["Mult"] == levels.get("Div") == levels.get("FloorDiv") == levels.get("Mod")):
        return None
    return f"{fn.node.name}() compares {prec_fn.node.name}(value) with the operator table of {table_fn.node.name}(template)"


def _r17_14(prog: Program, res: Result) -> None:
    """A replacement template is TEXT: `return not {{condition}}` with the matched condition pasted in.  Where the wildcard is
    an operand of an operator of the template, code whose own operator binds no tighter falls apart: `not p if c else q`
    is `(not p) if c else q`, `a or b | {..}` is `a or (b | {..})`, `a + b.T` is `a + (b.T)`.  For every constant replacement
    template of a find_replace call and every wildcard in operand position, one of: (a) the substitution parenthesises by
    precedence (central mechanism in core.format_template, checked against the reference precedence table); (b) the
    template itself writes `({{w}})`; (c) the wildcard is restricted by a keyword to node classes that bind tighter;
    (d) the wildcard is an operand of the same operator class in the find template (same position, same grouping)."""
    from ..defuse import assignments
    central = _central_parenthesiser(prog)
    n = 0
    for fn in prog.funcs.values():
        if fn.mod.name in ("core", "processing", "pattern_matching"):
            continue
        for c in prog.calls_in(fn):
            r = prog.resolve_call(c.func, fn.mod, fn)
            if not (r and r[0] == "fn"):
                continue
            callee = r[1]
            if callee.key != ("processing", "find_replace"):
                continue
            def const_of(e):
                if isinstance(e, ast.Name):
                    defs = [(st, v) for st, v in assignments(fn, e.id) if v is not None and st.lineno <= c.lineno]
                    e = max(defs, key=lambda sv: sv[0].lineno)[1] if defs else e
                if isinstance(e, ast.Call) and norm(e.func).endswith("compile_template") and e.args:
                    return const_of(e.args[0])          # a template compiled from a constant text
                if isinstance(e, ast.Tuple) and e.elts:
                    return const_of(e.elts[0])          # alternatives: judged by the first (they differ in a prefix only)
                return e.value if isinstance(e, ast.Constant) and isinstance(e.value, str) else None
            if len(c.args) < 3:
                continue
            find, replace = const_of(c.args[1]), const_of(c.args[2])
            if replace is None:
                continue
            find_pos = _operand_positions(find) if find else {}
            for name, places in sorted(_operand_positions(replace).items()):
                for opname, level, wrapped in places:
                    n += 1
                    construct = f"{{{{{name}}}}} under {opname} # in the replacement `{' '.join(replace.split())[:50]}`"
                    kw = next((k.value for k in c.keywords if k.arg == name), None)
                    if wrapped:
                        res.ok("R17.14", fn.loc(c), fn.fq, construct, "(b) written between parentheses in the template")
                    elif any(o == opname for o, _l, _w in find_pos.get(name, [])):
                        res.ok("R17.14", fn.loc(c), fn.fq, construct, "(d) an operand of the same operator in the find template")
                    elif kw is not None and _all_tighter(kw, level):
                        res.ok("R17.14", fn.loc(c), fn.fq, construct, f"(c) restricted to node classes that bind tighter than {opname}")
                    elif central:
                        res.ok("R17.14", fn.loc(c), fn.fq, construct, f"(a) {central}")
                    else:
                        res.bad("R17.14", fn.loc(c), fn.fq, construct,
                                f"the code of {{{{{name}}}}} is pasted as an operand of {opname} without parentheses, whatever it is: code whose operator binds no "
                                f"tighter (a conditional expression, and/or, a comparison ...) is regrouped - `not p if c else q` means `(not p) if c else q`")
    res.analysed["operand_wildcards_in_replacements"] = n


def _all_tighter(kw: ast.AST, level: int) -> bool:
    classes = kw.elts if isinstance(kw, ast.Tuple) else [kw]
    ok = True
    for k in classes:
        name = norm(k).replace("ast.", "")
        tight = {"Name": 16, "Constant": 15, "Call": 16, "Attribute": 16, "Subscript": 16, "List": 16, "Dict": 16, "Set": 16, "ListComp": 16, "SetComp": 16, "DictComp": 16}
        if tight.get(name, -1) <= level:
            ok = False
    return ok



# ------------------------------------------------------------------------------------------------ R17.15
def _truth_fold(find: str, replace: str) -> Optional[str]:
    """The find template decides between the constants True and False by {{w}}, and the replacement uses {{w}} ITSELF as the
    value (not under `not`, not inside a call): -> w."""
    import re as _re
    import textwrap
    if find is None or replace is None:
        return None
    fprobe = _re.sub(r"\{\{(\w+)\}\}", r"W__\1__", find)
    rprobe = _re.sub(r"\{\{(\w+)\}\}", r"W__\1__", replace)
    try:
        ftree, rtree = ast.parse(textwrap.dedent(fprobe)), ast.parse(textwrap.dedent(rprobe))
    except SyntaxError:
        return None
    consts = {c.value for c in ast.walk(ftree) if isinstance(c, ast.Constant) and isinstance(c.value, bool)}
    if consts != {True, False}:
        return None
    tests = [n.test for n in ast.walk(ftree) if isinstance(n, (ast.If, ast.IfExp)) and isinstance(n.test, ast.Name) and n.test.id.startswith("W__")]
    if not tests:
        return None
    w = tests[0].id
    for n in ast.walk(rtree):
        value = n.value if isinstance(n, (ast.Return, ast.Assign, ast.AnnAssign, ast.Expr)) else None
        if isinstance(value, ast.Name) and value.id == w:
            return w[3:-2]
    return None


def _boolean_classifier(prog: Program, f: Func) -> bool:
    """f(node) says whether an expression evaluates to True or False: it accepts comparisons and negations, and nothing that can be
    another object: it never accepts a bare ast.Name / ast.Attribute / ast.Subscript / ast.BinOp, and for and/or demands it of every operand."""
    text = norm(f.node)
    if len(f.posparams) != 1 or "ast.Compare" not in text or "ast.Not" not in text:
        return False
    accepted = set()
    for n in ast.walk(f.node):
        if isinstance(n, ast.Attribute) and isinstance(n.value, ast.Name) and n.value.id == "ast":
            accepted.add(n.attr)
    if accepted & {"Attribute", "Subscript", "BinOp", "Starred", "Lambda", "Dict", "List", "Tuple", "Set"}:
        return False
    if "Name" in accepted:
        # ast.Name may only occur as the callee of a call to a function that answers a bool: `ast.Call(func=ast.Name(id=..))`
        for n in ast.walk(f.node):
            if isinstance(n, ast.Attribute) and n.attr == "Name" and isinstance(n.value, ast.Name) and n.value.id == "ast":
                call = parent(n)
                if not (isinstance(call, ast.Call) and call.func is n and isinstance(parent(call), ast.keyword) and parent(call).arg == "func"):
                    return False
    if "BoolOp" in accepted:
        over_values = [n for n in ast.walk(f.node) if isinstance(n, ast.Call) and isinstance(n.func, ast.Name) and n.func.id in ("all", "any")
                       and any(isinstance(x, ast.Attribute) and x.attr == "values" for x in ast.walk(n))]
        if not over_values or any(n.func.id == "any" for n in over_values):
            return False
    return True


def _r17_15(prog: Program, res: Result) -> None:
    """`if x: return True` / `return False` answers the TRUTH VALUE of x.  Replacing the statement by `return x` answers x
    itself - the same only when x evaluates to True or False (a comparison, a negation, a bool(..) call; `a and b` only if
    both are).  For every find_replace whose find template decides between True and False by a wildcard and whose
    replacement uses the wildcard itself as the value, the rewrite is handed on only under a positive answer of a
    classifier of boolean-valued expressions applied to the matched wildcard."""
    from ..defuse import assignments
    from ..pathcond import PathAnalysis, plain
    n = 0
    for fn in prog.funcs.values():
        if fn.mod.name not in ("fixes", "performance", "performance_numpy", "performance_pandas", "object_oriented", "symbolic_math"):
            continue
        for c in prog.calls_in(fn):
            r = prog.resolve_call(c.func, fn.mod, fn)
            if not (r and r[0] == "fn"):
                continue
            callee = r[1]
            def const_of(e):
                if isinstance(e, ast.Name):
                    defs = [(st, v) for st, v in assignments(fn, e.id) if v is not None and st.lineno <= c.lineno]
                    e = max(defs, key=lambda sv: sv[0].lineno)[1] if defs else e
                return e.value if isinstance(e, ast.Constant) and isinstance(e.value, str) else None
            texts = [const_of(a) for a in c.args]
            if callee.key == ("processing", "find_replace") and len(texts) >= 3:
                w = _truth_fold(texts[1], texts[2])
                if w is None:
                    continue
                n += 1
                # the rewrite leaves the function at a yield: which must be under classifier(match.<w>)
                ok = False
                pa = PathAnalysis(prog, fn)
                host = parent(c)
                loop = host if isinstance(host, ast.For) else None
                if loop is not None:
                    ys = [y for y in walk_body(loop.body) if isinstance(y, ast.Yield)]
                    ok = bool(ys)
                    for y in ys:
                        worlds = pa.worlds_at(y)
                        good = bool(worlds)
                        for wld in worlds:
                            hit = False
                            for fct in wld.facts:
                                if fct[0] == "lit" and fct[2] and f".{w})" in plain(fct[1]):
                                    callee_name = plain(fct[1]).split("(", 1)[0]
                                    g = prog.funcs.get((fn.mod.name, callee_name))
                                    if g is not None and _boolean_classifier(prog, g):
                                        hit = True
                            good = good and hit
                        ok = ok and good
                res.decide(ok, "R17.15", fn.loc(c), fn.fq, f"`{' '.join(texts[2].split())[:50]}` # the truth value of {{{{{w}}}}} replaced by {{{{{w}}}}} itself",
                           "handed on only when a classifier found the matched code boolean-valued" if ok else
                           f"`if {w}: .. True .. else .. False` answers the truth value of {w}, the replacement answers {w} itself, and no test restricts it to code that "
                           "evaluates to True or False: `if x: return True; return False` becomes `return x` (5 instead of True)")
            elif any(t is not None for t in texts) and callee.mod.name == fn.mod.name:
                # through a helper that takes the templates: find_replace inside the helper with the helper's parameters
                for k in prog.calls_in(callee):
                    rr = prog.resolve_call(k.func, callee.mod, callee)
                    if rr and rr[0] == "fn" and rr[1].key == ("processing", "find_replace") and len(k.args) >= 3 \
                            and all(isinstance(a, ast.Name) and a.id in callee.posparams for a in k.args[1:3]):
                        fi, ri = callee.posparams.index(k.args[1].id), callee.posparams.index(k.args[2].id)
                        if fi < len(texts) and ri < len(texts):
                            w = _truth_fold(texts[fi], texts[ri])
                            if w is None:
                                continue
                            n += 1
                            pa = PathAnalysis(prog, callee)
                            loop = parent(k) if isinstance(parent(k), ast.For) else None
                            ok = False
                            if loop is not None:
                                ys = [y for y in walk_body(loop.body) if isinstance(y, ast.Yield)]
                                ok = bool(ys)
                                for y in ys:
                                    worlds = pa.worlds_at(y)
                                    good = bool(worlds)
                                    for wld in worlds:
                                        hit = False
                                        for fct in wld.facts:
                                            if fct[0] == "lit" and fct[2] and f".{w})" in plain(fct[1]):
                                                g = prog.funcs.get((callee.mod.name, plain(fct[1]).split("(", 1)[0]))
                                                if g is not None and _boolean_classifier(prog, g):
                                                    hit = True
                                        good = good and hit
                                    ok = ok and good
                            res.decide(ok, "R17.15", fn.loc(c), fn.fq, f"`{' '.join(texts[ri].split())[:50]}` # the truth value of {{{{{w}}}}} replaced by {{{{{w}}}}} itself",
                                       f"handed on by {callee.node.name}() only when a classifier found the matched code boolean-valued" if ok else
                                       f"the replacement answers {w} itself instead of its truth value, and {callee.node.name}() hands it on without asking whether {w} "
                                       "evaluates to True or False")
    res.analysed["truth_value_folds"] = n



# ------------------------------------------------------------------------------------------------ R17.1
def _r17_1(prog: Program, res: Result) -> None:
    where = "pyrefact/constants.py"
    try:
        table = prog.const("constants", "REVERSE_OPERATOR_MAPPING")
    except Unresolvable as error:
        res.undecided("R17.1", where, "constants.REVERSE_OPERATOR_MAPPING", "negation table", f"not resolvable: {error}")
        return
    node = prog.module("constants").globals["REVERSE_OPERATOR_MAPPING"]
    loc = f"{where}:{node.lineno}"
    for k, v in table.items():
        kn, vn = getattr(k, "name", str(k)), getattr(v, "name", str(v))
        ok = NEGATION.get(kn) == vn
        res.decide(ok, "R17.1", loc, "constants.REVERSE_OPERATOR_MAPPING", f"{kn} -> {vn}",
                   "logical negation" if ok else f"not ({'x ' + kn + ' y'}) is {NEGATION.get(kn)}, not {vn}")
    names = {getattr(k, "name", str(k)): getattr(v, "name", str(v)) for k, v in table.items()}
    inv = all(names.get(v) == k for k, v in names.items())
    res.decide(inv, "R17.1", loc, "constants.REVERSE_OPERATOR_MAPPING", "involution", "negating twice gives the operator back" if inv else "table is not an involution")
    # readers: MAPPING[type(X.ops[0])] must be used to build a Compare whose operands are X's
    readers = 0
    for fn in prog.funcs.values():
        for n in walk_own(fn.node):
            if isinstance(n, ast.Subscript) and prog.dotted(n.value) in ("constants.REVERSE_OPERATOR_MAPPING", "REVERSE_OPERATOR_MAPPING") \
                    and isinstance(n.ctx, ast.Load):
                readers += 1
                _reader_obligation(prog, res, fn, n)
    if readers == 0:
        res.undecided("R17.1", loc, "constants.REVERSE_OPERATOR_MAPPING", "readers", "no reader found")


def _reader_obligation(prog: Program, res: Result, fn: Func, sub: ast.Subscript) -> None:
    # index must be type(<X>.ops[0])
    idx = sub.slice
    src = None
    if isinstance(idx, ast.Call) and isinstance(idx.func, ast.Name) and idx.func.id == "type" and len(idx.args) == 1:
        a = idx.args[0]
        if isinstance(a, ast.Subscript) and isinstance(a.value, ast.Attribute) and a.value.attr == "ops" \
                and isinstance(a.slice, ast.Constant) and a.slice.value == 0:
            src = norm(a.value.value)
    if src is None and isinstance(idx, ast.Call) and isinstance(idx.func, ast.Name) and idx.func.id == "type" and len(idx.args) == 1 \
            and isinstance(idx.args[0], ast.Name):
        # MAPPING[type(v)] with v running over <X>.ops (comprehension or for loop): the table is applied to EVERY operator
        # of the comparison.  `not (a < b < c)` is `a >= b or b >= c`, never `a >= b >= c`: elementwise negation is the
        # negation only for a single operator, which then has to be a fact on the path (or of the selecting template).
        v = idx.args[0].id
        over = None
        n = sub
        while n is not None and n is not fn.node:
            gens = getattr(n, "generators", None)
            for g in gens or []:
                if any(isinstance(t, ast.Name) and t.id == v for t in ast.walk(g.target)):
                    over = g.iter
            if isinstance(n, (ast.For, ast.AsyncFor)) and any(isinstance(t, ast.Name) and t.id == v for t in ast.walk(n.target)):
                over = n.iter
            if over is not None:
                break
            n = parent(n)
        while isinstance(over, ast.Call) and over.args and isinstance(over.func, ast.Name) and over.func.id in ("list", "tuple", "iter", "reversed", "enumerate"):
            over = over.args[0]
        if isinstance(over, ast.Attribute) and over.attr == "ops":
            chain = norm(over.value)
            text = norm(fn.node).replace(" ", "")
            single = any(s in text for s in (f"len({chain}.ops)==1", f"len({chain}.comparators)==1", f"len({chain}.ops)<2", f"len({chain}.comparators)<2"))
            if not single:
                for c in walk_own(fn.node):
                    if isinstance(c, ast.Call) and ast_class_name(prog, fn, c.func) == "Compare":
                        ckw = {k.arg: k.value for k in c.keywords}
                        if any(isinstance(ckw.get(f_), ast.List) and len(ckw[f_].elts) == 1 for f_ in ("comparators", "ops")) \
                                and not any(isinstance(x, ast.Name) and x.id == v for x in ast.walk(c)):
                            single = True
            res.decide(single, "R17.1", fn.loc(sub), fn.fq, f"{short(sub, 70)} # negation table applied to every operator of {chain}",
                       f"{chain} is restricted to a single operator" if single else
                       f"every operator of the chain {chain}.ops is negated: `a < b < c` would become `a >= b >= c` (its negation is `a >= b or b >= c`)")
            return
    if src is None:
        res.undecided("R17.1", fn.loc(sub), fn.fq, norm(sub), "index is not type(<compare>.ops[0])")
        return
    # the constructed Compare: find the enclosing or consuming ast.Compare(...) call
    ctor = None
    n = sub
    while n is not None and n is not fn.node:
        if isinstance(n, ast.Call) and ast_class_name(prog, fn, n.func) == "Compare":
            ctor = n
            break
        n = parent(n)
    if ctor is None:
        # value stored in a local, then used in a Compare constructor
        st = sub
        while st is not None and not isinstance(st, ast.Assign):
            st = parent(st)
        if isinstance(st, ast.Assign) and isinstance(st.targets[0], ast.Name):
            var = st.targets[0].id
            for c in walk_own(fn.node):
                if isinstance(c, ast.Call) and ast_class_name(prog, fn, c.func) == "Compare" and any(
                        isinstance(x, ast.Name) and x.id == var for x in ast.walk(c)):
                    ctor = c
    if ctor is None:
        res.undecided("R17.1", fn.loc(sub), fn.fq, norm(sub), "no ast.Compare constructed from the negated operator")
        return
    kw = {k.arg: k.value for k in ctor.keywords}
    left_ok = "left" in kw and norm(kw["left"]) == f"{src}.left"
    comp_ok = "comparators" in kw and norm(kw["comparators"]) == f"{src}.comparators"
    ops = kw.get("ops")
    ops_ok = isinstance(ops, ast.List) and len(ops.elts) == 1
    res.decide(left_ok and comp_ok and ops_ok, "R17.1", fn.loc(ctor), fn.fq, short(ctor, 100),
               f"negated operator of {src} combined with {src}'s own operands, same order" if left_ok and comp_ok and ops_ok else
               f"the negated operator of {src} is combined with different or reordered operands")
    # the matched comparison must have a single operator
    single = False
    for c in walk_own(fn.node):
        if isinstance(c, ast.Call) and ast_class_name(prog, fn, c.func) == "Compare" and c is not ctor:
            ckw = {k.arg: k.value for k in c.keywords}
            for fld in ("comparators", "ops"):
                v = ckw.get(fld)
                if isinstance(v, ast.List) and len(v.elts) == 1:
                    single = True
    res.decide(single, "R17.1", fn.loc(ctor), fn.fq, f"single-operator restriction for {src}",
               "the comparison is selected by a template with exactly one operator/comparator" if single else
               "no template restricts the negated comparison to a single operator: `a < b < c` would become `a >= b >= c`")


# ------------------------------------------------------------------------------------------------ R17.19
def _r17_19(prog: Program, res: Result) -> None:
    """`a and (b and c)` is `a and b and c`; `a and (b or c)` is not `a and b and c`.  Where the bound analysis collects the operands of an
    and/or expression and takes the operands of a NESTED and/or expression into the same list (so that their bounds are compared with
    the outer ones), the nested expression has to have the same operator: the admitting test mentions the operator of both (a template
    `ast.BoolOp(op=type(<outer>.op))`, or a comparison of the two `.op`)."""
    from ..defuse import bindings
    n = 0
    for fn in prog.funcs.values():
        if fn.mod.name != "symbolic_math" or not fn.is_fix:
            continue
        for t in walk_own(fn.node):
            if not isinstance(t, ast.If) or "BoolOp" not in norm(t.test):
                continue
            # body takes the operands of the tested value into a list: X.extend(<v>.values) / X += <v>.values / for .. in <v>.values: X.append
            subject = None
            for c in ast.walk(t):
                if isinstance(c, ast.Attribute) and c.attr == "values" and isinstance(c.value, ast.Name) and c.value.id in {x.id for x in ast.walk(t.test) if isinstance(x, ast.Name)}:
                    subject = c.value.id
            grows = any(isinstance(c, ast.Call) and isinstance(c.func, ast.Attribute) and c.func.attr in ("extend", "append") for b in t.body for c in ast.walk(b)) \
                or any(isinstance(b, ast.AugAssign) for b in t.body)
            if subject is None or not grows:
                continue
            n += 1
            txt = norm(t.test).replace(" ", "")
            same = ("op=type(" in txt and ".op)" in txt) or (f"type({subject}.op)" in txt and ".op" in txt.replace(f"type({subject}.op)", "", 1)) or \
                (f"isinstance({subject}.op,type(" in txt) or ("op=ast.And" in txt) or ("op=ast.Or" in txt)    # pinned to one operator (the `if` clauses of a comprehension are a conjunction)
            res.decide(same, "R17.19", fn.loc(t), fn.fq, f"{short(t.test, 70)} # operands of a nested and/or taken into the list of the outer one",
                       "only for a nested expression with the same operator" if same else
                       f"the operands of every nested BoolOp are taken in, whatever its operator: the bounds of `{subject}` in `x < 3 and (x < 1 or y > 0)` are compared as if all three "
                       "were joined by `and`, and the expression becomes `x < 1 or y > 0`")
    if n == 0:
        res.undecided("R17.19", "pyrefact/symbolic_math.py:0", "symbolic_math", "flattening of nested and/or expressions", "none found (simplify_boolean_expressions is expected)")


# ------------------------------------------------------------------------------------------------ R17.20 / R17.21
_INFIX_SEPARATOR = re.compile(r"^\s*(\*\*|//|<<|>>|[-+*/%@|&^]|and|or)\s*$")


def _r17_20(prog: Program, res: Result) -> None:
    """Code assembled as TEXT obeys the grammar, not the tree it was made from: `" + ".join(unparse(x) for x in xs)` over `1 << 2` and `3`
    is `1 << 2 + 3`, which is `1 << 5`.  Every join of unparsed code with an infix operator as the separator puts each operand between
    parentheses (the element is an f-string / concatenation that opens with `(` and closes with `)`), the text-level twin of R17.14."""
    n = 0
    for fn in prog.funcs.values():
        for c in prog.calls_in(fn):
            if not (isinstance(c.func, ast.Attribute) and c.func.attr == "join" and isinstance(c.func.value, ast.Constant) and isinstance(c.func.value.value, str)
                    and _INFIX_SEPARATOR.match(c.func.value.value) and len(c.args) == 1):
                continue
            g = c.args[0]
            if not (isinstance(g, (ast.GeneratorExp, ast.ListComp)) and any(isinstance(x, ast.Call) and norm(x.func).endswith("unparse") for x in ast.walk(g.elt))):
                continue
            n += 1
            e = g.elt
            ok = False
            if isinstance(e, ast.JoinedStr) and len(e.values) >= 3:
                a, b = e.values[0], e.values[-1]
                ok = isinstance(a, ast.Constant) and str(a.value).lstrip().startswith("(") and isinstance(b, ast.Constant) and str(b.value).rstrip().endswith(")")
            elif isinstance(e, ast.BinOp) and isinstance(e.op, ast.Add):
                parts = []
                todo = [e]
                while todo:
                    x = todo.pop()
                    if isinstance(x, ast.BinOp) and isinstance(x.op, ast.Add):
                        todo += [x.right, x.left]
                    else:
                        parts.append(x)
                ok = len(parts) >= 3 and isinstance(parts[0], ast.Constant) and str(parts[0].value).lstrip().startswith("(") \
                    and isinstance(parts[-1], ast.Constant) and str(parts[-1].value).rstrip().endswith(")")
            res.decide(ok, "R17.20", fn.loc(c), fn.fq, f"{short(c, 80)} # operands joined as text",
                       "every operand stands between parentheses" if ok else
                       f"unparsed operands are joined with `{c.func.value.value.strip()}` as they are: an operand whose operator binds weaker is regrouped by the parser "
                       "(`sum([1 << 2, 3])` became `1 << 2 + 3`, which is 32, not 7)")
    if n == 0:
        res.ok("R17.20", "pyrefact/", "package", "joins of unparsed code with an infix separator", "none", trivial=True)


def _refuses_bitxor(prog: Program, fn: Func, test: ast.AST) -> bool:
    """The test is true for every candidate that contains a `^`: it is the search itself, or a disjunction with the search as one operand
    (a conjunction refuses only some of them)."""
    if isinstance(test, ast.BoolOp):
        return isinstance(test.op, ast.Or) and any(_refuses_bitxor(prog, fn, v) for v in test.values)
    if isinstance(test, ast.UnaryOp) or isinstance(test, ast.IfExp):
        return False
    return _reads_bitxor(prog, fn, test)


def short_text(t: str, n: int = 60) -> str:
    return t if len(t) <= n else t[:n - 3] + "..."


def _reads_bitxor(prog: Program, fn: Func, test: ast.AST) -> bool:
    for x in ast.walk(test):
        if isinstance(x, ast.Attribute) and x.attr == "BitXor":
            return True
        if isinstance(x, (ast.Name, ast.Attribute)) and not (isinstance(x, ast.Attribute) and norm(x).startswith("ast.")):
            try:
                d = norm(x)
                v = prog.const(fn.mod.name, d) if "." not in d else prog.const(d.split(".")[-2], d.split(".")[-1])
            except (AnalysisError, Unresolvable, KeyError):
                continue
            if any(isinstance(t, AstClass) and t.name == "BitXor" for t in (v if isinstance(v, (set, frozenset, tuple, list)) else [v])):
                return True
    return False


def _r17_21(prog: Program, res: Result) -> None:
    """sympy reads text by its own grammar: `^` is a power there (sympify) or a logical xor (parse_expr), never python's bitwise xor.  A rule
    from which a text reader of sympy is reachable (sympy.simplify / sympify of text made by unparse, parse_expr) refuses code that
    contains `ast.BitXor` before the first call that can reach the reader: `if <search of the candidate for ast.BitXor>: continue`, in the loop
    over the candidates and above that call (the test reads the loop variable; a conjunction with something else refuses only a part)."""
    from ..callgraph import CallGraph
    from ..defuse import bindings
    from ..pathcond import PathAnalysis, plain
    sinks: Dict[Tuple[str, str], ast.AST] = {}
    for fn in prog.funcs.values():
        for c in prog.calls_in(fn):
            d = norm(c.func)
            if d.endswith("parse_expr") and d.startswith("sympy") and c.args:
                sinks.setdefault(fn.key, c)
            elif d in ("sympy.simplify", "sympy.sympify") and c.args and isinstance(c.args[0], ast.Name):
                if any(v is not None and any(isinstance(x, ast.Call) and norm(x.func).endswith("unparse") for x in ast.walk(v)) for _s, v in bindings(fn).get(c.args[0].id, [])):
                    sinks.setdefault(fn.key, c)
    if not sinks:
        res.undecided("R17.21", "pyrefact/symbolic_math.py:0", "symbolic_math", "text readers of sympy", "none found (_simplify_math and _parse_sympy_expr are expected)")
        return
    cg = CallGraph(prog)
    sink_funcs = set(sinks)
    # a function decorated with a repository decorator whose wrapper reads text hands its own result to the reader
    for fn in prog.funcs.values():
        for d in fn.node.decorator_list:
            r = prog.resolve_call(d.func if isinstance(d, ast.Call) else d, fn.mod, fn) if isinstance(d, (ast.Name, ast.Attribute, ast.Call)) else None
            if r and r[0] == "fn" and cg.reachable([r[1].key]) & set(sinks):
                sink_funcs.add(fn.key)
    n = 0
    for fn in prog.funcs.values():
        if not fn.is_fix:
            continue
        reaching = []
        for c in prog.calls_in(fn):
            r = prog.resolve_call(c.func, fn.mod, fn)
            if r and r[0] == "fn" and (cg.reachable([r[1].key]) & sink_funcs):
                reaching.append(c)
        if not reaching:
            continue
        n += 1
        first = min(reaching, key=lambda c: (c.lineno, c.col_offset))
        loops = [lp for lp in walk_own(fn.node) if isinstance(lp, ast.For) and any(x is first for x in ast.walk(lp))]
        loop_names = {x.id for lp in loops for x in ast.walk(lp.target) if isinstance(x, ast.Name)}
        pa = PathAnalysis(prog, fn)

        def refused(w) -> Optional[str]:
            # a fact that is known to be FALSE where the call stands: the candidate was searched for a `^` and none was found
            for fct in w.facts:
                if fct[0] == "lit" and not fct[2]:
                    try:
                        t = ast.parse(plain(fct[1]), mode="eval").body
                    except SyntaxError:
                        continue
                    if _reads_bitxor(prog, fn, t) and loop_names & {x.id for x in ast.walk(t) if isinstance(x, ast.Name)}:
                        return plain(fct[1])
            return None
        verdicts = [refused(w) for w in pa.worlds_at(first)]
        guard = verdicts[0] if verdicts and all(verdicts) else None
        res.decide(guard is not None, "R17.21", fn.loc(first), fn.fq, f"{short(first, 60)} # code handed to sympy as text",
                   f"reached only where `{short_text(guard)}` is false: code with a `^` is refused above the first call that reaches a text reader of sympy" if guard is not None else
                   f"{len(reaching)} call(s) of this rule reach a text reader of sympy ({', '.join(sorted(q for _m, q in sinks))}) and nothing above them refuses code that contains "
                   "ast.BitXor: sympy reads `7 ^ 3` as 7**3 (`sum([7 ^ 3, 4])` became 347, is 8)")
    if n == 0:
        res.undecided("R17.21", "pyrefact/symbolic_math.py:0", "symbolic_math", "rules that reach a text reader of sympy", "none found (simplify_math_iterators is expected)")


# ------------------------------------------------------------------------------------------------ R17.18
def _r17_18(prog: Program, res: Result) -> None:
    """A reader of signed integer literals (`-1`) answers `-operand.value` for the template it matched.  If the template admits more
    than one unary operator (`(ast.USub, ast.UAdd)`) the answer has to depend on WHICH one matched; a single `-x` for both reads
    `+7` as -7, and every bound, range and closed form computed from it is that of another program."""
    n = 0
    for fn in prog.funcs.values():
        if fn.mod.name != "symbolic_math":
            continue
        for t in walk_own(fn.node):
            if not (isinstance(t, ast.If) and isinstance(t.test, ast.Call) and norm(t.test.func).endswith("match_template") and len(t.test.args) == 2):
                continue
            tmpl = t.test.args[1]
            if not (isinstance(tmpl, ast.Call) and norm(tmpl.func) == "ast.UnaryOp"):
                continue
            op = next((k.value for k in tmpl.keywords if k.arg == "op"), None)
            ops = [norm(e) for e in (op.elts if isinstance(op, (ast.Tuple, ast.Set, ast.List)) else [op])] if op is not None else []
            rets = [r for r in walk_body(t.body) if isinstance(r, ast.Return) and r.value is not None]
            if not rets:
                continue
            n += 1
            negating = [r for r in rets if isinstance(r.value, ast.UnaryOp) and isinstance(r.value.op, ast.USub)]
            branches_on_op = any(isinstance(x, ast.Call) and norm(x.func) == "isinstance" and ".op" in norm(x) for x in ast.walk(t))
            ok = ops == ["ast.USub"] and len(negating) == len(rets) or (len(ops) > 1 and branches_on_op) or (ops == ["ast.UAdd"] and not negating)
            res.decide(ok, "R17.18", fn.loc(t), fn.fq, f"{short(t.test, 70)} # sign of a literal read through a unary operator",
                       f"operators {ops}: the value is negated exactly for ast.USub" if ok else
                       f"the template admits {ops} and the value is negated whichever of them matched: `+7` is read as -7 (`sum(range(+7, 5))`, `range(+2, 10)`)")
    if n == 0:
        res.undecided("R17.18", "pyrefact/symbolic_math.py:0", "symbolic_math", "readers of signed literals", "none found (_constant_int is expected)")


# ------------------------------------------------------------------------------------------------ R17.17
def _r17_17(prog: Program, res: Result) -> None:
    """A filter condition of a comprehension is replaced by True BECAUSE the rewritten range takes over what it says.  The two
    rewrites are one change: applied alone (the other one refused - an ignore comment on its line, an overlap with another rule) the
    comprehension loses its filter and keeps the old range.  Obligation: in a rule generator that yields `<condition>, Constant(True)`
    next to a rewrite of `<comprehension>.iter`, all of those yields carry the same explicit transaction variable."""
    n = 0
    for fn in prog.funcs.values():
        if fn.mod.name != "symbolic_math" or not fn.is_fix:
            continue
        ys = [y for y in walk_own(fn.node) if isinstance(y, ast.Yield) and isinstance(y.value, ast.Tuple) and len(y.value.elts) >= 2]
        drops = [y for y in ys if isinstance(y.value.elts[1], ast.Call) and norm(y.value.elts[1].func) == "ast.Constant"
                 and any(k.arg == "value" and isinstance(k.value, ast.Constant) and k.value.value is True for k in y.value.elts[1].keywords)]
        iters = [y for y in ys if isinstance(y.value.elts[0], ast.Attribute) and y.value.elts[0].attr == "iter"]
        if not drops or not iters:
            continue
        n += 1
        group = drops + iters
        ids = {norm(y.value.elts[2]) if len(y.value.elts) == 3 else None for y in group}
        ok = None not in ids and len(ids) == 1 and all(isinstance(y.value.elts[2], ast.Name) for y in group)
        res.decide(ok, "R17.17", fn.loc(drops[0]), fn.fq, f"{len(drops)} condition(s) replaced by True, {len(iters)} rewrites of the iterable",
                   f"one transaction ({next(iter(ids))})" if ok else
                   "the dropped conditions and the new range are separate transactions: when the range rewrite is refused on its own (an ignore comment on its line) the "
                   "filter is gone and the old range stays - `[x for x in range(10) if x > 5]` becomes `[x for x in range(10) if True]`")
    if n == 0:
        res.undecided("R17.17", "pyrefact/symbolic_math.py:0", "symbolic_math", "conditions absorbed by a range", "no generator yields both (simplify_constrained_range is expected)")


# ------------------------------------------------------------------------------------------------ R17.16
def _r17_16(prog: Program, res: Result) -> None:
    """How many terms a range has is Python's definition, `len(range(start, stop, step))`: 0 when the direction of the step does not
    lead from start to stop.  Where a sum over a constant range is turned into `Sum(f(first + stride * i), (i, 0, N - 1))`, N is that
    length - written as len(range(..)) of the bounds, or as arithmetic that is evaluated here on the box start, stop in -4..4,
    step in -3..3 without 0 and compared with len(range(..)) (a two-line interpreter for + - * // % abs min max and unary minus;
    nothing of the repository is run)."""
    import itertools as _it
    from ..defuse import bindings
    n = 0
    for fn in prog.funcs.values():
        if fn.mod.name != "symbolic_math":
            continue
        for c in prog.calls_in(fn):
            if not (norm(c.func).endswith("Sum") and len(c.args) == 2 and isinstance(c.args[1], ast.Tuple) and len(c.args[1].elts) == 3):
                continue
            lo, hi = c.args[1].elts[1], c.args[1].elts[2]
            if not (isinstance(lo, ast.Constant) and lo.value == 0 and isinstance(hi, ast.BinOp) and isinstance(hi.op, ast.Sub) and isinstance(hi.left, ast.Name)
                    and isinstance(hi.right, ast.Constant) and hi.right.value == 1):
                continue
            count_var = hi.left.id
            defs = [v for _s, v in bindings(fn).get(count_var, []) if v is not None]
            if len(defs) != 1:
                res.undecided("R17.16", fn.loc(c), fn.fq, f"{short(c, 70)} # number of terms of the range", f"'{count_var}' has {len(defs)} definitions")
                continue
            expr = defs[0]
            n += 1
            # names of the three bounds: a tuple target unpacked from the list of the constant bounds
            roles = {}
            bounds_name = None
            for a in walk_own(fn.node):
                if isinstance(a, ast.Assign) and isinstance(a.targets[0], ast.Tuple) and len(a.targets[0].elts) == 3 and isinstance(a.value, ast.Name):
                    for role, t in zip(("start", "stop", "step"), a.targets[0].elts):
                        if isinstance(t, ast.Name):
                            roles[t.id] = role
                    bounds_name = a.value.id

            def ev(e, env):
                if isinstance(e, ast.Constant) and isinstance(e.value, int):
                    return e.value
                if isinstance(e, ast.Name):
                    return env[roles[e.id]]
                if isinstance(e, ast.UnaryOp) and isinstance(e.op, ast.USub):
                    return -ev(e.operand, env)
                if isinstance(e, ast.BinOp):
                    l, r = ev(e.left, env), ev(e.right, env)
                    ops = {ast.Add: lambda: l + r, ast.Sub: lambda: l - r, ast.Mult: lambda: l * r, ast.FloorDiv: lambda: l // r, ast.Mod: lambda: l % r}
                    return ops[type(e.op)]()
                if isinstance(e, ast.Call) and isinstance(e.func, ast.Name) and e.func.id in ("abs", "min", "max"):
                    return {"abs": abs, "min": min, "max": max}[e.func.id](*[ev(a, env) for a in e.args])
                if isinstance(e, ast.Call) and isinstance(e.func, ast.Name) and e.func.id == "len" and len(e.args) == 1 and isinstance(e.args[0], ast.Call) \
                        and isinstance(e.args[0].func, ast.Name) and e.args[0].func.id == "range":
                    ra = e.args[0].args
                    if len(ra) == 1 and isinstance(ra[0], ast.Starred) and isinstance(ra[0].value, ast.Name) and ra[0].value.id == bounds_name:
                        return len(range(env["start"], env["stop"], env["step"]))
                    return len(range(*[ev(a, env) for a in ra]))
                raise KeyError(type(e).__name__)
            cex = None
            try:
                for start, stop, step in _it.product(range(-4, 5), range(-4, 5), [s_ for s_ in range(-3, 4) if s_]):
                    env = {"start": start, "stop": stop, "step": step}
                    if ev(expr, env) != len(range(start, stop, step)):
                        cex = (start, stop, step, ev(expr, env))
                        break
            except (KeyError, ZeroDivisionError) as error:
                res.undecided("R17.16", fn.loc(expr), fn.fq, f"{count_var} = {short(expr, 60)} # number of terms of the range", f"not an arithmetic expression over the bounds ({error})")
                continue
            res.decide(cex is None, "R17.16", fn.loc(expr), fn.fq, f"{count_var} = {short(expr, 60)} # number of terms of the range",
                       "equals len(range(start, stop, step)) on the whole box" if cex is None else
                       f"for range({cex[0]}, {cex[1]}, {cex[2]}) the expression gives {cex[3]} terms, python {len(range(cex[0], cex[1], cex[2]))}: a range that is empty "
                       "because its step leads away from the stop is summed as if it ran the other way")
    if n == 0:
        res.undecided("R17.16", "pyrefact/symbolic_math.py:0", "symbolic_math", "number of terms of a constant range", "no Sum(.., (i, 0, N - 1)) found")


# ------------------------------------------------------------------------------------------------ R17.13
def _r17_13(prog: Program, res: Result) -> None:
    """sum(range(a, b)) is T(b) - T(a) (T(n) = n(n-1)/2) only when a <= b: an empty range sums to 0, the closed form gives
    minus the reversed sum.  With a bound that is not a constant the order is not known when the program is rewritten.
    Obligation for the function that builds `T(end) - T(start)` from the two bounds of a range: the construction is reached
    only when both bounds are known integer constants (a template pinning ast.Constant(value=int), or an evaluation) - then
    the order can be (and must be) compared."""
    from ..pathcond import PathAnalysis, plain
    n = 0
    for fn in prog.funcs.values():
        if fn.mod.name != "symbolic_math":
            continue
        # start, end, step = <range bounds helper>(rng)
        bounds = None
        for a in walk_own(fn.node):
            if isinstance(a, ast.Assign) and isinstance(a.targets[0], ast.Tuple) and len(a.targets[0].elts) == 3 and isinstance(a.value, ast.Call) \
                    and all(isinstance(t, ast.Name) for t in a.targets[0].elts):
                r = prog.resolve_call(a.value.func, fn.mod, fn)
                if r and r[0] == "fn" and "range" in norm(r[1].node).lower() and ".args" in norm(r[1].node):
                    bounds = [t.id for t in a.targets[0].elts]
        if not bounds:
            continue
        start, end = bounds[0], bounds[1]
        pa = PathAnalysis(prog, fn)
        from ..defuse import bindings

        def int_reader(call: ast.AST) -> bool:
            """a call of a repository helper that answers the int value of a constant node (or None)"""
            if not isinstance(call, ast.Call):
                return False
            r_ = prog.resolve_call(call.func, fn.mod, fn)
            return bool(r_ and r_[0] == "fn" and "Constant(value=int)" in norm(r_[1].node).replace(" ", ""))

        def known_constant(w, v: str) -> bool:
            tok = v
            for f in w.facts:
                if f[0] != "lit":
                    continue
                t = plain(f[1]).replace(" ", "")
                if f[2] and t.startswith(f"match_template({tok},") and "Constant(value=int)" in t:
                    return True
                if not f[2] and t.startswith("is(") and t.endswith(",None)"):
                    x = t[3:-6]
                    for _s, d in bindings(fn).get(x, []):
                        # x = reader(v)   or   x, y = reader(v), reader(u)
                        cands = [d] if d is not None else []
                        if isinstance(_s, ast.Assign) and isinstance(_s.targets[0], ast.Tuple) and isinstance(_s.value, ast.Tuple):
                            cands = [val for tg, val in zip(_s.targets[0].elts, _s.value.elts) if isinstance(tg, ast.Name) and tg.id == x]
                        if any(int_reader(c_) and c_.args and norm(c_.args[0]) == v for c_ in cands):
                            return True
                if not f[2] and t.startswith("in(None,"):
                    L = t[len("in(None,"):-1]
                    for _s, d in bindings(fn).get(L, []):
                        if isinstance(d, ast.ListComp) and int_reader(d.elt) and v in {x_.id for x_ in ast.walk(d.generators[0].iter) if isinstance(x_, ast.Name)}:
                            return True
            return False
        sites = []
        for b in walk_own(fn.node):
            if isinstance(b, ast.Call) and ast_class_name(prog, fn, b.func) == "BinOp":
                kw = {k.arg: k.value for k in b.keywords}
                if ast_class_name(prog, fn, kw.get("op")) == "Sub" and {start, end} <= {x.id for x in ast.walk(b) if isinstance(x, ast.Name)}:
                    sites.append((b, f"T({end}) - T({start})"))
            if isinstance(b, ast.Call) and (prog.dotted(b.func) or "").endswith("sympy.Sum") and len(b.args) == 2 and isinstance(b.args[1], ast.Tuple) and len(b.args[1].elts) == 3 \
                    and any(isinstance(x, ast.Name) for e_ in b.args[1].elts[1:] for x in ast.walk(e_)):
                # limits that are variables of the function: do they come from the bounds of the range?
                lim_names = {x.id for e_ in b.args[1].elts[1:] for x in ast.walk(e_) if isinstance(x, ast.Name)}
                derived = False
                for nm in lim_names:
                    for _s, d in bindings(fn).get(nm, []):
                        if d is not None and ({start, end} & {x.id for x in ast.walk(d) if isinstance(x, ast.Name)}):
                            derived = True
                if derived:
                    sites.append((b, "sympy.Sum over (lower, upper) taken from the bounds"))
        for b, what in sites:
            n += 1
            worlds = pa.worlds_at(b)
            ok = bool(worlds) and all(known_constant(w, start) and known_constant(w, end) for w in worlds)
            res.decide(ok, "R17.13", fn.loc(b), fn.fq, short(b, 70),
                       "built only for constant integer bounds" if ok else
                       f"the closed form ({what}) is built for bounds whose order is unknown when the program is rewritten: for an EMPTY range (start > stop) "
                       "Python's sum is 0, the closed form is minus the reversed sum (`sum(2 for w in range(x))` -> `2 * x`: -8 instead of 0 at x = -4)")
    if n == 0:
        res.undecided("R17.13", "pyrefact/symbolic_math.py:0", "symbolic_math", "closed form of a sum over a range", "construction not found")


# ------------------------------------------------------------------------------------------------ R17.12
def _r17_12(prog: Program, res: Result) -> None:
    """'Leave it alone' is not a replacement.  A rule yields `(node, helper(part))` where part is a sub-node of node.  If the
    helper can `return <that parameter>` - its way of saying "nothing to simplify" - the rule replaces the whole node by one of
    its own parts: `sum(range(2, 11, 2))` became `range(2, 11, 2)`.  Instance: every yield of a rule generator whose replacement
    is (a local bound to) a call of a repository helper that receives a part of the replaced node."""
    from ..defuse import bindings
    n = 0
    for fn in prog.funcs.values():
        if not fn.is_fix:
            continue
        for y in walk_own(fn.node):
            if not (isinstance(y, ast.Yield) and isinstance(y.value, ast.Tuple) and len(y.value.elts) >= 2 and isinstance(y.value.elts[0], ast.Name)):
                continue
            N = y.value.elts[0].id
            R = y.value.elts[1]
            if isinstance(R, ast.Name):
                defs = [d for _s, d in bindings(fn).get(R.id, []) if d is not None]
                # the definition that reaches the yield: the textually last one before it
                defs = [d for d in defs if getattr(d, "lineno", 0) <= y.lineno]
                R = max(defs, key=lambda d: d.lineno) if defs else R
            if not isinstance(R, ast.Call):
                continue
            r = prog.resolve_call(R.func, fn.mod, fn)
            if not (r and r[0] == "fn"):
                continue
            helper = r[1]

            def part_of_node(a: ast.AST, depth: int = 0) -> bool:
                if depth > 3:
                    return False
                e = a
                hops = 0
                while isinstance(e, (ast.Attribute, ast.Subscript)):
                    e = e.value
                    hops += 1
                if isinstance(e, ast.Name) and e.id == N and hops > 0:
                    return True
                if isinstance(a, ast.Name) and a.id != N:
                    ds = [d for _s, d in bindings(fn).get(a.id, []) if d is not None]
                    return len(ds) == 1 and part_of_node(ds[0], depth + 1)
                return False
            for i, a in enumerate(R.args):
                if i >= len(helper.posparams) or not part_of_node(a):
                    continue
                n += 1
                p_ = helper.posparams[i]
                gives_up = [rt for rt in walk_own(helper.node) if isinstance(rt, ast.Return) and isinstance(rt.value, ast.Name) and rt.value.id == p_
                            and not any(isinstance(st, (ast.Assign, ast.AugAssign)) and p_ in {t.id for t in ast.walk(st) if isinstance(t, ast.Name) and isinstance(t.ctx, ast.Store)}
                                        for st in walk_own(helper.node))]
                res.decide(not gives_up, "R17.12", fn.loc(y), fn.fq, f"{short(y, 40)} # replacement computed by {helper.name}",
                           f"{helper.name}() never hands its argument back" if not gives_up else
                           f"{helper.name}() can `return {p_}` (line {gives_up[0].lineno}: nothing to simplify), and the rule yields that as the replacement of the whole `{N}`: "
                           "the node is replaced by one of its own parts (`sum(range(2, 11, 2))` -> `range(2, 11, 2)`)")
    if n == 0:
        res.undecided("R17.12", "pyrefact/", "package", "helpers fed a part of the replaced node", "none found")


# ------------------------------------------------------------------------------------------------ R17.11
def _r17_11(prog: Program, res: Result) -> None:
    """One template, several functions: a rule that walks calls of `ast.Name(id=<a table of several names>)` (sum AND len, ...)
    and replaces them by a closed form must know WHICH function it is looking at.  Contradiction rule: if one yield of the loop
    is reached only under a test of `<node>.func.id`, every yield that replaces the node must be (the closed form of a sum is
    not the length: `len([1, 2, 3])` became `6`)."""
    from ..pathcond import PathAnalysis, plain
    from ..defuse import bindings
    from ..model import ConstEval
    n = 0
    for fn in prog.funcs.values():
        if not fn.is_fix:
            continue
        for lp in walk_own(fn.node):
            if not (isinstance(lp, ast.For) and isinstance(lp.target, ast.Name) and isinstance(lp.iter, ast.Call) and len(lp.iter.args) >= 2
                    and (prog.dotted(lp.iter.func) or "").split(".")[-1] in ("walk", "filter_nodes")):
                continue
            v = lp.target.id
            # the template: ast.Call(func=ast.Name(id=<several names>))
            t = lp.iter.args[1]
            if isinstance(t, ast.Name):
                defs = [d for _s, d in bindings(fn).get(t.id, []) if d is not None]
                t = defs[0] if len(defs) == 1 else t
            several = False
            for c in ast.walk(t):
                if isinstance(c, ast.Call) and ast_class_name(prog, fn, c.func) == "Name":
                    for kw in c.keywords:
                        if kw.arg == "id":
                            try:
                                val = ConstEval(prog, fn.mod).ev(kw.value)
                                several = several or (isinstance(val, (tuple, set, frozenset, list)) and len(val) > 1)
                            except Exception:
                                if isinstance(kw.value, ast.Call) and norm(kw.value.func) == "tuple" and kw.value.args:
                                    try:
                                        val = ConstEval(prog, fn.mod).ev(kw.value.args[0])
                                        several = several or len(val) > 1
                                    except Exception:
                                        pass
            if not several:
                continue
            pa = PathAnalysis(prog, fn)
            ys = [y for y in ast.walk(lp) if isinstance(y, ast.Yield) and isinstance(y.value, ast.Tuple) and y.value.elts and isinstance(y.value.elts[0], ast.Name) and y.value.elts[0].id == v]
            tested = {}
            for y in ys:
                worlds = pa.worlds_at(y)
                tested[id(y)] = bool(worlds) and all(any(f[0] == "lit" and f".func.id" in plain(f[1]) and w.token(v).split("#")[0] in plain(f[1]) for f in w.facts) for w in worlds)
            if not any(tested.values()):
                continue         # no stated belief: the rule never distinguishes the functions
            for y in ys:
                n += 1
                ok = tested[id(y)]
                res.decide(ok, "R17.11", fn.loc(y), fn.fq, short(y, 70),
                           f"reached only under a test of {v}.func.id" if ok else
                           f"the template matches several function names and another branch of this loop tests `{v}.func.id`, but this replacement is made for ALL of them: "
                           "`len([1, 2, 3])` is given the closed form of the sum (6)")
    if n == 0:
        res.undecided("R17.11", "pyrefact/symbolic_math.py:0", "symbolic_math.simplify_math_iterators", "function-name dispatch", "no loop over a several-names call template with a name test found")


# ------------------------------------------------------------------------------------------------ R17.10
def _r17_10(prog: Program, res: Result) -> None:
    """`a and b` is not a truth value: it is a if a is falsy, else b; `a or b` is a if a is truthy, else b.  Replacing an
    and/or expression by the literal True / False is only an equivalence where nothing but its truth is looked at (the test of
    an if / while / conditional expression / comprehension filter / assert, the operand of `not`).  `y = x or "default"` is the
    everyday counter-example: the value is x or the string, never True.  Instance: every yield in a rewrite rule that
    replaces the and/or node it iterates over by ast.Constant(value=True/False); obligation: the path carries a test of the
    node's syntactic context (a repository predicate over the node that looks at if / while tests)."""
    from ..pathcond import PathAnalysis, plain
    n = 0
    for fn in prog.funcs.values():
        if not fn.is_fix:
            continue
        for lp in walk_own(fn.node):
            if not (isinstance(lp, ast.For) and isinstance(lp.target, ast.Name) and isinstance(lp.iter, ast.Call)
                    and (prog.dotted(lp.iter.func) or "").split(".")[-1] in ("walk", "filter_nodes") and len(lp.iter.args) >= 2
                    and "BoolOp" in norm(lp.iter.args[1]) and "UnaryOp" not in norm(lp.iter.args[1])):
                continue
            v = lp.target.id
            pa = None
            for y in ast.walk(lp):
                if not (isinstance(y, ast.Yield) and isinstance(y.value, ast.Tuple) and len(y.value.elts) >= 2 and isinstance(y.value.elts[0], ast.Name) and y.value.elts[0].id == v):
                    continue
                new = y.value.elts[1]
                lit = isinstance(new, ast.Call) and ast_class_name(prog, fn, new.func) == "Constant" and any(
                    k.arg == "value" and isinstance(k.value, ast.Constant) and isinstance(k.value.value, bool) for k in new.keywords)
                if not lit:
                    continue
                n += 1
                pa = pa or PathAnalysis(prog, fn)
                ctx = False
                worlds = pa.worlds_at(y)
                for c in ast.walk(fn.node):
                    if isinstance(c, ast.Call) and c.args and isinstance(c.args[0], ast.Name) and c.args[0].id == v:
                        r = prog.resolve_call(c.func, fn.mod, fn)
                        if r and r[0] == "fn" and ".test" in norm(r[1].node) and ("ast.If" in norm(r[1].node) or "ast.While" in norm(r[1].node)):
                            from ..pathcond import entails
                            if worlds and all(entails(w.facts, pa.formula(c, w)) for w in worlds):
                                ctx = True
                conds = _conds_of_17(y, lp)
                litval = next(k.value.value for k in new.keywords if k.arg == "value")
                # every operand IS that literal: `True and True` is True (the filtered operand list is empty)
                all_literal = False
                from ..defuse import bindings as _bd
                for nm, defs in _bd(fn).items():
                    for _s, d in defs:
                        if isinstance(d, ast.ListComp) and len(d.generators) == 1 and norm(d.generators[0].iter) == f"{v}.values" and len(d.generators[0].ifs) == 1:
                            cond = d.generators[0].ifs[0]
                            if isinstance(cond, ast.UnaryOp) and isinstance(cond.op, ast.Not) and isinstance(cond.operand, ast.Call) \
                                    and norm(cond.operand.func).endswith("match_template") and len(cond.operand.args) == 2 \
                                    and norm(cond.operand.args[1]).replace(" ", "") == f"ast.Constant(value={litval})" and _s in list(ast.walk(lp)):
                                test = ast.Name(id=nm, ctx=ast.Load())
                                ast.copy_location(test, y)
                                if worlds and all(_entails17(w, pa, test) for w in worlds) and _latest_def_is(fn, nm, _s, y):
                                    all_literal = True
                # the site is identified by WHAT IS KNOWN on its path (a digest of the path condition with local names blanked): stable
                # under renaming and under rewriting the ifs around it, different for each of the folding sites
                import hashlib
                import re as _re
                from ..report import LOCAL_NAMES
                locs = LOCAL_NAMES.get(fn.fq, set())
                fact_texts = set()
                for w in worlds:
                    for f_ in w.facts:
                        if f_[0] == "lit":
                            t_ = _re.sub(r"[A-Za-z_]\w*", lambda m_: "$" if m_.group(0) in locs else m_.group(0), plain(f_[1]))
                            fact_texts.add(("+" if f_[2] else "-") + t_.replace(" ", ""))
                digest = hashlib.sha1("|".join(sorted(fact_texts)).encode()).hexdigest()[:8]
                code = f"(yield ({v}, {litval}))"      # one key per literal: the sites of one function share it (digest {digest} of the path condition is shown, not keyed)
                where_txt = "; ".join(conds)[:160]
                if all_literal:
                    res.ok("R17.10", fn.loc(y), fn.fq, code, f"every operand is the literal {litval}: the value of the expression is that literal")
                    continue
                res.decide(ctx, "R17.10", fn.loc(y), fn.fq, code,
                           "only where the truth of the expression is all that is looked at" if ctx else
                           f"[under {where_txt}; path {digest}] an and/or expression is replaced by `{litval}` wherever it stands: as a VALUE `a or b` is a or b, not a truth value "
                           "(`y = x or 'default'` becomes `y = True`, `n = count and 0` becomes `n = False`)")
    if n == 0:
        raise AnalysisError("R17.10: no replacement of an and/or expression by a truth value found (anchor lost)")


def _conds_of_17(n: ast.AST, stop: ast.AST) -> List[str]:
    out = []
    child, a = n, parent(n)
    while a is not None and a is not stop:
        if isinstance(a, ast.If):
            # keyword names are dropped from the text: they can coincide with local names, which keys are normalised over
            t = norm(a.test)
            import re as _re
            t = _re.sub(r"\b\w+=", "", t)
            out.append(("" if child in a.body else "not ") + "(" + t + ")")
        child, a = a, parent(a)
    return list(reversed(out))[-2:]


def _entails17(w, pa, test) -> bool:
    from ..pathcond import entails
    return entails(w.facts, pa.formula(test, w, False))


def _latest_def_is(fn: Func, name: str, stmt: ast.AST, use: ast.AST) -> bool:
    """the binding `stmt` of name is the textually last one before `use` (straight-line approximation inside one block)"""
    from ..defuse import bindings
    before = [s_ for s_, _d in bindings(fn).get(name, []) if getattr(s_, "lineno", 0) < getattr(use, "lineno", 0)]
    return bool(before) and max(before, key=lambda s_: s_.lineno) is stmt


# ------------------------------------------------------------------------------------------------ R17.9
NUMERIC_PINS = ("int", "bool")      # range bounds: integers only (a float pin would still give range(3.5, 10))


def _r17_9(prog: Program, res: Result) -> None:
    """Arithmetic and ordering on the VALUE of a matched constant: `c.value + 1`, `c.value > start` are only meaningful for
    numbers - and the range rewrites only for integers.  The node c is selected by a template; `ast.Constant()` without a
    `value=` pin also selects 2.5, 'a', None, b'x'.  With 2.5 the rewrite produces `range(3.5, 10)` (TypeError in the
    rewritten program where the original ran), with 'a' or None the comparison raises inside the formatter.  Instance:
    every arithmetic / ordering operation with an operand `<e>.value`; obligation: every template the path condition (or
    the loop source) says the node of <e> matches pins each ast.Constant in it to a numeric type, or the path carries an
    isinstance test of that value."""
    from ..defuse import bindings
    from ..pathcond import PathAnalysis, entails

    def root_name(e: ast.AST) -> Optional[str]:
        while isinstance(e, (ast.Attribute, ast.Subscript)):
            e = e.value
        return e.id if isinstance(e, ast.Name) else None

    def constants_in(e: ast.AST, fn: Func, depth: int = 0, seen=None) -> List[ast.AST]:
        """ast.Constant sub-templates (calls or bare class references) of the template expression e."""
        seen = seen if seen is not None else set()
        out: List[ast.AST] = []
        if depth > 6 or id(e) in seen:
            return out
        seen.add(id(e))
        for x in ast.walk(e):
            if isinstance(x, ast.Call) and ast_class_name(prog, fn, x.func) == "Constant":
                out.append(x)
            elif isinstance(x, ast.Attribute) and ast_class_name(prog, fn, x) == "Constant" and not (isinstance(parent(x), ast.Call) and parent(x).func is x):
                out.append(x)
            elif isinstance(x, ast.Name) and isinstance(x.ctx, ast.Load):
                for _s, v in bindings(fn).get(x.id, []):
                    if v is not None:
                        out += constants_in(v, fn, depth + 1, seen)
        return out
    n = 0
    for fn in prog.funcs.values():
        sites = []
        for x in walk_own(fn.node):
            ops: List[ast.AST] = []
            if isinstance(x, ast.BinOp) and isinstance(x.op, (ast.Add, ast.Sub, ast.Mult, ast.Div, ast.FloorDiv, ast.Mod, ast.Pow)):
                ops = [x.left, x.right]
            elif isinstance(x, ast.Compare) and any(isinstance(o, (ast.Lt, ast.Gt, ast.LtE, ast.GtE)) for o in x.ops):
                ops = [x.left] + list(x.comparators)
            elif isinstance(x, ast.UnaryOp) and isinstance(x.op, ast.USub):
                ops = [x.operand]
            for o in ops:
                if isinstance(o, ast.Attribute) and o.attr == "value" and root_name(o.value) is not None:
                    sites.append((x, o))
                    break
        if not sites:
            continue
        pa = PathAnalysis(prog, fn)
        mt_calls = [c for c in ast.walk(fn.node) if isinstance(c, ast.Call) and (prog.dotted(c.func) or "").split(".")[-1] == "match_template" and len(c.args) >= 2]
        for x, o in sites:
            n += 1
            # the nodes the operand may be: the root of the access path, and what that root is bound to
            roots = {root_name(o.value)}
            for _s, v in bindings(fn).get(root_name(o.value), []):
                if v is not None and root_name(v) is not None:
                    roots.add(root_name(v))
            templates: List[ast.AST] = []
            worlds = pa.worlds_at(x)
            for c in mt_calls:
                if root_name(c.args[0]) in roots and isinstance(c.args[0], ast.Name) and worlds and all(entails(w.facts, pa.formula(c, w)) for w in worlds):
                    templates.append(c.args[1])
            # loop sources: for m in [sorted(] filter_nodes(.., T) [)]
            for lp in ast.walk(fn.node):
                if isinstance(lp, ast.For) and isinstance(lp.target, ast.Name) and lp.target.id in roots and any(x is y for y in ast.walk(lp)):
                    for c in ast.walk(lp.iter):
                        if isinstance(c, ast.Call) and (prog.dotted(c.func) or "").split(".")[-1] in ("filter_nodes", "walk") and len(c.args) >= 2:
                            templates.append(c.args[1])
            typed_on_path = False
            for w in worlds or []:
                pass
            isinst = [c for c in ast.walk(fn.node) if isinstance(c, ast.Call) and isinstance(c.func, ast.Name) and c.func.id == "isinstance" and len(c.args) == 2
                      and norm(c.args[0]) == norm(o)]
            typed_on_path = bool(worlds) and any(all(entails(w.facts, pa.formula(c, w)) for w in worlds) for c in isinst)
            consts = [k for t in templates for k in constants_in(t, fn)]
            loose = [k for k in consts if not (isinstance(k, ast.Call) and any(kw.arg == "value" and norm(kw.value) in NUMERIC_PINS for kw in k.keywords))]
            text = f"{short(x, 60)}"
            if typed_on_path:
                res.ok("R17.9", fn.loc(x), fn.fq, text, f"{norm(o)} is tested with isinstance on this path")
            elif not templates:
                res.undecided("R17.9", fn.loc(x), fn.fq, text, f"no template found that selects the node of {norm(o)}")
            elif loose:
                res.bad("R17.9", fn.loc(x), fn.fq, text,
                        f"the node of {norm(o)} is selected by templates in which `{norm(loose[0])}` (line {loose[0].lineno}"
                        + (f", {len(loose)} such sub-templates" if len(loose) > 1 else "") + ") does not pin the value to a number: 2.5 gives `range(3.5, 10)` "
                        "(TypeError in the rewritten program), 'a' or None raise TypeError inside the formatter")
            else:
                res.ok("R17.9", fn.loc(x), fn.fq, text, f"every constant in the selecting templates is pinned to a numeric type ({len(consts)} sub-templates)")
    if n == 0:
        raise AnalysisError("no arithmetic on a matched constant's value found (anchor lost)")


# ------------------------------------------------------------------------------------------------ R17.2
def _r17_2(prog: Program, res: Result) -> None:
    fn = prog.func("symbolic_math", "simplify_boolean_expressions")
    from ..defuse import bindings
    from ..model import ConstEval

    def op_table(e: ast.AST):
        """The operator table an expression denotes: a dict display of ast operator classes (directly or through one
        local), or a module-level constant.  -> (names dict, node to report at, description)"""
        if isinstance(e, ast.Name):
            defs = [v for (_s, v) in bindings(fn).get(e.id, [])]
            if len(defs) == 1 and defs[0] is not None:
                return op_table(defs[0])
        if isinstance(e, ast.Dict) and e.keys and all(k is not None for k in e.keys):
            ks = [ast_class_name(prog, fn, k) for k in e.keys]
            vs = [ast_class_name(prog, fn, v) for v in e.values]
            if all(ks) and all(vs):
                return dict(zip(ks, vs)), e, "local table"
        try:
            val = ConstEval(prog, fn.mod).ev(e)
        except Exception:      # Unresolvable and anything the evaluator cannot model
            return None
        if isinstance(val, dict) and val and all(hasattr(k, "name") and hasattr(v, "name") for k, v in val.items()):
            return {k.name: v.name for k, v in val.items()}, e, norm(e)
        return None

    # anchor: the statement that swaps the two operands of the comparison (constant brought to the right-hand side)
    swaps = [s_ for s_ in walk_own(fn.node) if isinstance(s_, ast.Assign) and isinstance(s_.targets[0], ast.Tuple) and isinstance(s_.value, ast.Tuple)
             and len(s_.value.elts) == 2 and [norm(x) for x in s_.targets[0].elts] == [norm(x) for x in reversed(s_.value.elts)]]
    if not swaps:
        res.undecided("R17.2", fn.loc(), fn.fq, "mirror table", "operand-swap table not found")
    for sw in swaps:
        host = parent(sw)
        block = next((getattr(host, f) for f in ("body", "orelse", "finalbody") if sw in getattr(host, f, [])), [])
        lookups = [x for st in block for x in ast.walk(st) if isinstance(x, ast.Subscript) and isinstance(x.ctx, ast.Load) and op_table(x.value) is not None]
        if not lookups:
            res.bad("R17.2", fn.loc(sw), fn.fq, norm(sw), "the operands are swapped in a branch that does not mirror the operator through a table of comparison operators")
            continue
        for u in lookups:
            names, at, what = op_table(u.value)
            for kn in sorted(set(names) | set(MIRROR)):
                vn = names.get(kn)
                if kn not in MIRROR:
                    continue      # entries for operators the rewrite never sees (In, Is, ...) are not used here
                ok = MIRROR.get(kn) == vn
                res.decide(ok, "R17.2", fn.loc(at) if what == "local table" else fn.loc(u), fn.fq, f"mirror {kn} -> {vn}",
                           "c OP x  ==  x MIRROR(OP) c" if ok else
                           (f"swapping the operands of {kn} gives {MIRROR.get(kn)}, not {vn}" if vn else f"{kn} is missing from the table (KeyError when the constant is on the left)")
                           + (f" [{what} is not the mirror table: negating an operator is not reading it from the other side]" if what != "local table" else ""))
            st = u
            while not isinstance(st, ast.stmt):
                st = parent(st)
            res.ok("R17.2", fn.loc(u), fn.fq, norm(st), "operator mirrored in the same branch that swaps the operands")
    # every OTHER use of a mirror table must sit in a branch that swaps
    for u in [x for x in walk_own(fn.node) if isinstance(x, ast.Subscript) and isinstance(x.ctx, ast.Load) and isinstance(x.value, ast.Name)]:
        t = op_table(u.value)
        if t is None or t[2] != "local table" or t[0] != MIRROR:
            continue
        st = u
        while not isinstance(st, ast.stmt):
            st = parent(st)
        host = parent(st)
        block = next((getattr(host, f) for f in ("body", "orelse", "finalbody") if st in getattr(host, f, [])), [])
        if not any(sw in block for sw in swaps):
            res.bad("R17.2", fn.loc(u), fn.fq, norm(st), "operator mirrored without swapping the operands")
    # two-sided templates of simplify_constrained_range
    fn2 = prog.func("symbolic_math", "simplify_constrained_range")
    pairs = 0
    for n in walk_own(fn2.node):
        if isinstance(n, ast.Assign) and isinstance(n.value, ast.Tuple) and len(n.value.elts) == 2 and all(
                isinstance(e, ast.Call) and ast_class_name(prog, fn2, e.func) == "Compare" for e in n.value.elts):
            forms = []
            for e in n.value.elts:
                kw = {k.arg: k.value for k in e.keywords}
                ops = kw.get("ops")
                opn = ast_class_name(prog, fn2, ops.elts[0]) if isinstance(ops, ast.List) and len(ops.elts) == 1 else None
                left_is_var = isinstance(kw.get("left"), ast.Call) and ast_class_name(prog, fn2, kw["left"].func) == "Name"
                forms.append((opn, left_is_var))
            if None in [f[0] for f in forms]:
                continue
            pairs += 1
            (o1, v1), (o2, v2) = forms
            ok = v1 != v2 and MIRROR.get(o1) == o2
            res.decide(ok, "R17.2", fn2.loc(n), fn2.fq, f"template pair {norm(n.targets[0])}: x {o1} c | c {o2} x",
                       "second form is the mirror image of the first" if ok else f"`c {o2} x` is not `x {o1} c` (mirror of {o1} is {MIRROR.get(o1)})")
            # the variable name must agree with the operator (gt_template -> Gt ...), checked through its use site
            _template_use(prog, res, fn2, n, o1 if v1 else MIRROR.get(o2))
    if pairs == 0:
        res.undecided("R17.2", fn2.loc(), fn2.fq, "two-sided templates", "none found")


def _template_use(prog, res, fn, assign, opname) -> None:
    pass  # the semantic use of each template is decided by R17.6


# ------------------------------------------------------------------------------------------------ R17.3
def _r17_3(prog: Program, res: Result) -> None:
    fn = prog.func("fixes", "_negate_condition")
    p = fn.posparams[0]
    seen = {"And": False, "Or": False, "Not": False, "default": False}
    for s in walk_own(fn.node):       # an if chain written with early returns or as nesting
        if isinstance(s, ast.If):
            t = norm(s.test)
            ret = next((r for r in s.body if isinstance(r, ast.Return)), None)
            if ret is None:
                continue
            v = ret.value
            for ctx, dual in (("And", "Or"), ("Or", "And")):
                if f"BoolOp(op=ast.{ctx})" in t.replace(" ", "") or f"BoolOp(op=ast.{ctx}())" in t.replace(" ", ""):
                    seen[ctx] = True
                    ok = isinstance(v, ast.Call) and ast_class_name(prog, fn, v.func) == "BoolOp"
                    detail = "not a BoolOp constructor"
                    if ok:
                        kw = {k.arg: k.value for k in v.keywords}
                        got = ast_class_name(prog, fn, kw.get("op")) if kw.get("op") is not None else None
                        vals = kw.get("values")
                        rec = isinstance(vals, (ast.ListComp, ast.GeneratorExp)) and isinstance(vals.elt, ast.Call) \
                            and isinstance(vals.elt.func, ast.Name) and vals.elt.func.id == fn.name \
                            and norm(vals.generators[0].iter) == f"{p}.values" and not vals.generators[0].ifs
                        ok = got == dual and rec
                        detail = (f"not ({ctx.lower()} ...) = {dual.lower()} of the negated operands" if ok else
                                  f"De Morgan broken: operator {got} (expected {dual}), operands negated recursively over all values: {rec}")
                    res.decide(ok, "R17.3", fn.loc(ret), fn.fq, f"{ctx}: {short(ret, 80)}", detail)
            if "UnaryOp(op=ast.Not)" in t.replace(" ", "") or "UnaryOp(op=ast.Not())" in t.replace(" ", ""):
                seen["Not"] = True
                ok = norm(v) == f"{p}.operand"
                res.decide(ok, "R17.3", fn.loc(ret), fn.fq, f"Not: {norm(ret)}", "not (not a) = a" if ok else "double negation does not return the operand")
    from ..model import default_return
    last = default_return(prog, fn)
    if isinstance(last, ast.Return):
        seen["default"] = True
        v = last.value
        ok = isinstance(v, ast.Call) and ast_class_name(prog, fn, v.func) == "UnaryOp" and any(
            k.arg == "op" and ast_class_name(prog, fn, k.value) == "Not" for k in v.keywords) and any(
            k.arg == "operand" and norm(k.value) == p for k in v.keywords)
        res.decide(ok, "R17.3", fn.loc(last), fn.fq, f"default: {norm(last)}", "wraps in `not`" if ok else "fall-through does not wrap the condition in `not`")
    for k, v in seen.items():
        if not v:
            res.undecided("R17.3", fn.loc(), fn.fq, f"{k} branch", "not found in the recognised shape")
    # every caller must use the result in place of the condition it negated (if/else swap) - owned by R17.3b
    for caller in prog.funcs.values():
        for c in prog.calls_in(caller):
            if isinstance(c.func, ast.Name) and c.func.id == fn.name and caller is not fn:
                res.ok("R17.3", caller.loc(c), caller.fq, norm(c), "caller of _negate_condition (listed)", trivial=True)


# ------------------------------------------------------------------------------------------------ R17.4
class Claim:
    def __init__(self, env, conds, effect, node, unknown):
        self.env = env          # threshold var -> (op name or '*', value var)
        self.conds = conds      # list of (expr, polarity)
        self.effect = effect    # ("flag", varname, ctxclass) | ("set", setname, valuevar)
        self.node = node
        self.unknown = unknown  # unrecognised path conditions mentioning threshold variables


def _bounds_op(prog, fn, e: ast.AST) -> Optional[str]:
    if isinstance(e, ast.Subscript) and isinstance(e.value, ast.Name):
        return ast_class_name(prog, fn, e.slice)
    return None


def _extract_claims(prog: Program, fn: Func) -> Tuple[List[Claim], Dict[str, object]]:
    claims: List[Claim] = []

    def bind_pair(t):
        if isinstance(t, ast.Tuple) and len(t.elts) == 2 and all(isinstance(x, ast.Name) for x in t.elts):
            return t.elts[0].id, t.elts[1].id
        return None

    def cond_names(e):
        return {n.id for n in ast.walk(e) if isinstance(n, ast.Name)}

    choice: Dict[str, List[str]] = {}

    def walk(stmts, env, conds, unknown):
        for s in stmts:
            if isinstance(s, ast.For):
                it = s.iter
                op = _bounds_op(prog, fn, it)
                if op:
                    bp = bind_pair(s.target)
                    if bp:
                        walk(s.body, {**env, bp[0]: (op, bp[1])}, conds, unknown)
                        continue
                d = prog.dotted(it.func) if isinstance(it, ast.Call) else None
                if d == "itertools.combinations" and len(it.args) == 2 and _bounds_op(prog, fn, it.args[0]):
                    op = _bounds_op(prog, fn, it.args[0])
                    if isinstance(s.target, ast.Tuple) and len(s.target.elts) == 2:
                        a, b = bind_pair(s.target.elts[0]), bind_pair(s.target.elts[1])
                        if a and b:
                            walk(s.body, {**env, a[0]: (op, a[1]), b[0]: (op, b[1])}, conds, unknown)
                            continue
                if d == "itertools.chain.from_iterable" and it.args and isinstance(it.args[0], ast.GeneratorExp):
                    inner = it.args[0].elt
                    if isinstance(inner, ast.Call) and prog.dotted(inner.func) == "itertools.combinations" \
                            and isinstance(s.target, ast.Tuple) and len(s.target.elts) == 2:
                        a, b = bind_pair(s.target.elts[0]), bind_pair(s.target.elts[1])
                        if a and b:
                            walk(s.body, {**env, a[0]: ("*", a[1]), b[0]: ("*same", b[1])}, conds, unknown)
                            continue
                walk(s.body, env, conds, unknown)
            elif isinstance(s, ast.If):
                names = cond_names(s.test)
                if names & set(env):
                    if _evaluable(s.test, set(env)):
                        walk(s.body, env, conds + [(s.test, True)], unknown)
                        walk(s.orelse, env, conds + [(s.test, False)], unknown)
                    else:
                        walk(s.body, env, conds, unknown + [norm(s.test)])
                        walk(s.orelse, env, conds, unknown + [norm(s.test)])
                else:
                    ctx = _ctx_of_test(prog, fn, s.test)
                    walk(s.body, env, conds + ([("ctx", ctx)] if ctx else []), unknown)
                    walk(s.orelse, env, conds, unknown)
            elif env:
                if isinstance(s, ast.Assign) and len(s.targets) == 1 and isinstance(s.targets[0], ast.Name) and isinstance(s.value, ast.IfExp) \
                        and isinstance(s.value.body, ast.Name) and isinstance(s.value.orelse, ast.Name):
                    choice[s.targets[0].id] = [s.value.body.id, s.value.orelse.id]
                    continue
                eff = _effect_of(prog, fn, s, env, conds)
                if eff:
                    alts = choice.get(eff[2], [eff[2]]) if eff[0] == "set" else [eff[2]]
                    for alt in alts:
                        claims.append(Claim(dict(env), [c for c in conds if c[0] != "ctx"], (eff[0], eff[1], alt), s, list(unknown)))
    walk(fn.node.body, {}, [], [])
    return claims, {}


def _ctx_of_test(prog, fn, test) -> Optional[str]:
    if isinstance(test, ast.UnaryOp) and isinstance(test.op, ast.Not):      # `if not isinstance(node.op, ast.And)`: the other context
        inner = _ctx_of_test(prog, fn, test.operand)
        return {"Or": "And", "And": "Or"}.get(inner)
    if isinstance(test, ast.Call) and isinstance(test.func, ast.Name) and test.func.id == "isinstance" and len(test.args) == 2 \
            and norm(test.args[0]).endswith(".op"):
        return ast_class_name(prog, fn, test.args[1])
    return None


def _evaluable(e: ast.AST, names: set) -> bool:
    if isinstance(e, ast.Compare):
        return all(isinstance(x, ast.Name) and x.id in names or isinstance(x, ast.Constant) and isinstance(x.value, (int, float))
                   for x in [e.left] + e.comparators) and all(type(o) in PYOP for o in e.ops)
    if isinstance(e, ast.BoolOp):
        return all(_evaluable(v, names) for v in e.values)
    if isinstance(e, ast.UnaryOp) and isinstance(e.op, ast.Not):
        return _evaluable(e.operand, names)
    return False


def _eval(e: ast.AST, val: Dict[str, Fraction]) -> bool:
    if isinstance(e, ast.Compare):
        left = _term(e.left, val)
        for o, c in zip(e.ops, e.comparators):
            right = _term(c, val)
            if not CMP[PYOP[type(o)]](left, right):
                return False
            left = right
        return True
    if isinstance(e, ast.BoolOp):
        vals = [_eval(v, val) for v in e.values]
        return all(vals) if isinstance(e.op, ast.And) else any(vals)
    return not _eval(e.operand, val)


def _term(e, val):
    return val[e.id] if isinstance(e, ast.Name) else Fraction(e.value)


def _effect_of(prog, fn, s: ast.stmt, env, conds):
    ctx_path = [c[1] for c in conds if c[0] == "ctx"]
    if isinstance(s, ast.AugAssign) and isinstance(s.op, ast.BitOr) and isinstance(s.target, ast.Name):
        ctx = _ctx_of_test(prog, fn, s.value)
        if ctx:
            return ("flag", s.target.id, ctx)
        if isinstance(s.value, ast.Constant) and s.value.value is True:
            return ("flag", s.target.id, ctx_path[-1] if ctx_path else "Any")
    if isinstance(s, ast.Assign) and len(s.targets) == 1 and isinstance(s.targets[0], ast.Name):
        v = s.value
        if isinstance(v, ast.Constant) and v.value is True:
            return ("flag", s.targets[0].id, ctx_path[-1] if ctx_path else "Any")
        if isinstance(v, ast.BoolOp) and isinstance(v.op, ast.Or) and any(_ctx_of_test(prog, fn, x) for x in v.values):
            return ("flag", s.targets[0].id, next(_ctx_of_test(prog, fn, x) for x in v.values if _ctx_of_test(prog, fn, x)))
    if isinstance(s, ast.Expr) and isinstance(s.value, ast.Call) and isinstance(s.value.func, ast.Attribute) \
            and s.value.func.attr == "add" and isinstance(s.value.func.value, ast.Name) and len(s.value.args) == 1:
        a = s.value.args[0]
        if isinstance(a, ast.Name):
            return ("set", s.value.func.value.id, a.id)
    return None


def _roles(prog: Program, fn: Func) -> Dict[str, Tuple[str, object]]:
    """flag/set variable -> role read from the statements that consume it:
    ('const', (value, ctx or None)) for `if F: yield node, Constant(value)`;
    ('redundant', ctx) for `if S and isinstance(node.op, ast.K): values = [v for v in node.values if v not in S]`."""
    roles: Dict[str, Tuple[str, object]] = {}
    for n in walk_own(fn.node):
        if not isinstance(n, ast.If):
            continue
        test_names = [x for x in ast.walk(n.test) if isinstance(x, ast.Name)]
        ctx = None
        for sub in ast.walk(n.test):
            c = _ctx_of_test(prog, fn, sub)
            if c:
                ctx = c
        for y in walk_body(n.body):
            if isinstance(y, ast.Yield) and isinstance(y.value, ast.Tuple) and len(y.value.elts) >= 2:
                v = y.value.elts[1]
                if isinstance(v, ast.Call) and ast_class_name(prog, fn, v.func) == "Constant":
                    kw = {k.arg: k.value for k in v.keywords}
                    val = kw.get("value")
                    if isinstance(val, ast.Constant) and isinstance(val.value, bool) and isinstance(n.test, ast.Name):
                        roles[n.test.id] = ("const", val.value)
        # redundant sets
        for st in n.body:
            if isinstance(st, ast.Assign) and isinstance(st.value, ast.ListComp) and ctx:
                g = st.value.generators[0]
                if norm(g.iter).endswith(".values") and len(g.ifs) == 1:
                    c = g.ifs[0]
                    if isinstance(c, ast.Compare) and len(c.ops) == 1 and isinstance(c.ops[0], ast.NotIn) and isinstance(c.comparators[0], ast.Name):
                        roles[c.comparators[0].id] = ("redundant", ctx)
    return roles


def _grid(n_vars: int):
    ths = [Fraction(i, 2) for i in range(0, 7)]   # 0, .5, ..., 3
    return itertools.product(ths, repeat=n_vars)


XS_INT = [Fraction(i) for i in range(-1, 5)]
XS_RAT = [Fraction(i, 4) for i in range(-4, 17)]


def _decide_claim(c: Claim, roles) -> Tuple[Optional[bool], str, Optional[str]]:
    """-> (holds over integer x?, description, note for rational-only failure)"""
    kind, var, arg = c.effect
    role = roles.get(var)
    if role is None:
        return None, f"effect on '{var}' whose consumer was not recognised", None
    tvars = sorted(c.env)
    star = [v for v in tvars if c.env[v][0] in ("*", "*same")]
    op_choices = [None]
    if star:
        op_choices = list(CMP)
    int_fail = rat_fail = None
    for star_op in op_choices:
        ops = {v: (star_op if c.env[v][0] in ("*", "*same") else c.env[v][0]) for v in tvars}
        for values in _grid(len(tvars)):
            val = dict(zip(tvars, values))
            if not all(_eval(e, val) == pol for e, pol in c.conds):
                continue
            for xs, is_int in ((XS_INT, True), (XS_RAT, False)):
                if (is_int and int_fail) or (not is_int and rat_fail):
                    continue
                # the claim quantifies over all x: compute the truth vectors
                preds = {v: [CMP[ops[v]](x, val[v]) for x in xs] for v in tvars}
                conj = [all(preds[v][i] for v in tvars) for i in range(len(xs))]
                disj = [any(preds[v][i] for v in tvars) for i in range(len(xs))]
                good = True
                if role[0] == "const":
                    value = role[1]
                    ctx = arg
                    whole = conj if ctx == "And" else disj if ctx == "Or" else None
                    if whole is None:
                        good = all(x == value for x in conj) and all(x == value for x in disj)
                    else:
                        good = all(x == value for x in whole)
                else:
                    ctx = role[1]
                    owner = [v for v in tvars if c.env[v][1] == arg]
                    if not owner:
                        return None, f"value '{arg}' is not bound by the enclosing loops", None
                    rest = [v for v in tvars if v != owner[0]]
                    if ctx == "And":
                        other = [all(preds[v][i] for v in rest) for i in range(len(xs))]
                        good = other == conj
                    else:
                        other = [any(preds[v][i] for v in rest) for i in range(len(xs))]
                        good = other == disj
                if not good:
                    bad_x = next(x for i, x in enumerate(xs))
                    cex = ", ".join(f"{v}={float(val[v]):g}" for v in tvars)
                    desc = f"thresholds {cex}" + (f", operator {star_op}" if star else "")
                    if is_int:
                        int_fail = desc
                    else:
                        rat_fail = desc
    if int_fail:
        return False, f"counterexample over integer x: {int_fail}", None
    return True, "holds for all order types of (x, thresholds)", (f"fails for non-integer x: {rat_fail}" if rat_fail else None)


def _claim_text(c: Claim, roles) -> str:
    env = ", ".join(f"x {PYSYM.get(op, op)} {v}" for v, (op, _) in sorted(c.env.items()))
    conds = " and ".join(("" if pol else "not ") + norm(e) for e, pol in c.conds) or "always"
    kind, var, arg = c.effect
    role = roles.get(var)
    if role and role[0] == "const":
        eff = f"whole {arg.lower() if arg in ('And', 'Or') else 'expression'} is {role[1]}"
    elif role:
        owner = next((f"x {PYSYM.get(c.env[v][0], c.env[v][0])} {v}" for v in c.env if c.env[v][1] == arg), arg)
        eff = f"`{owner}` is redundant in {role[1].lower()}"
    else:
        eff = f"{var} <- {arg}"
    return f"[{env}] when {conds}: {eff}"


PYSYM = {"Eq": "==", "NotEq": "!=", "Gt": ">", "Lt": "<", "GtE": ">=", "LtE": "<=", "*": "OP", "*same": "OP"}


def _r17_4(prog: Program, res: Result, tier: str) -> int:
    fn = prog.func("symbolic_math", "simplify_boolean_expressions")
    claims, _ = _extract_claims(prog, fn)
    roles = _roles(prog, fn)
    for c in claims:
        text = _claim_text(c, roles)
        if c.unknown:
            res.undecided("R17.4", fn.loc(c.node), fn.fq, text, f"path condition not evaluable: {c.unknown}")
            continue
        ok, detail, note = _decide_claim(c, roles)
        if ok is None:
            res.undecided("R17.4", fn.loc(c.node), fn.fq, text, detail)
        else:
            res.decide(ok, "R17.4", fn.loc(c.node), fn.fq, text, detail)
            if note:
                res.notes.append(f"R17.4 {fn.loc(c.node)} {text}: {note}")
    # the roles themselves: flag False under And-contradiction etc. are part of the claims; check that each role var has claims
    for var, role in roles.items():
        n = sum(1 for c in claims if c.effect[1] == var)
        res.ok("R17.4", fn.loc(), fn.fq, f"role of {var}: {role}", f"{n} claim(s) feed it", trivial=True)
    # contradiction rule {True, False} in expression_conditions.values()
    for n in walk_own(fn.node):
        if isinstance(n, ast.If) and "{True, False}" in norm(n.test):
            for sub in n.body:
                if isinstance(sub, ast.If):
                    ctx = _ctx_of_test(prog, fn, sub.test)
                    if ctx is None:
                        res.undecided("R17.4", fn.loc(sub), fn.fq, "a op not a", f"context test `{short(sub.test, 50)}` not recognised")
                        continue
                    for branch, bctx in ((sub.body, ctx), (sub.orelse, {"Or": "And", "And": "Or"}.get(ctx))):
                        for y in walk_body(branch):
                            if isinstance(y, ast.Yield) and isinstance(y.value, ast.Tuple):
                                v = y.value.elts[1]
                                kw = {k.arg: k.value for k in v.keywords} if isinstance(v, ast.Call) else {}
                                val = kw.get("value")
                                if isinstance(val, ast.Constant):
                                    want = (bctx == "Or")
                                    res.decide(val.value is want, "R17.4", fn.loc(y), fn.fq, f"a {bctx.lower()} not a -> {val.value}",
                                               "a or not a is True, a and not a is False" if val.value is want else f"`a {bctx.lower()} not a` is {want}, not {val.value}")
    return len(claims)


# ------------------------------------------------------------------------------------------------ R17.7
def _r17_7(prog: Program, res: Result) -> None:
    """Every condition is judged on its own: in the per-node loops of the condition rewrites no variable that the
    loop modifies (flags 'always true/false', sets of redundant operands, bound tables) may be read before it was
    re-initialised in the same iteration - otherwise a contradiction found in one and/or expression marks every later
    expression of the module (definite-assignment analysis of the loop body, sa/loopstate.py)."""
    from ..loopstate import loop_carried
    from ..model import ancestors
    n = 0
    for fn in prog.funcs.values():
        if fn.mod.name != "symbolic_math" or not fn.is_fix:
            continue
        for loop in walk_own(fn.node):
            if not isinstance(loop, ast.For) or any(isinstance(a, (ast.For, ast.While)) for a in ancestors(loop) if a is not loop):
                continue
            if not any(isinstance(y, (ast.Yield, ast.YieldFrom)) for y in ast.walk(loop)):
                continue
            n += 1
            carried = loop_carried(loop)
            head = f"for {norm(loop.target)} in {short(loop.iter, 50)}"
            if not carried:
                res.ok("R17.7", fn.loc(loop), fn.fq, head, "every variable the loop modifies is re-initialised before it is read in the same iteration")
            for name, node in sorted(carried.items()):
                # a transaction counter is MEANT to be carried over: only ever stepped by a constant and only ever used as the transaction
                # component of a yield - it says nothing about the condition at hand
                uses = [x for x in ast.walk(loop) if isinstance(x, ast.Name) and x.id == name and isinstance(x.ctx, ast.Load)]
                stepped = all(isinstance(a, ast.AugAssign) and isinstance(a.op, ast.Add) and isinstance(a.value, ast.Constant)
                              for a in ast.walk(loop) if isinstance(a, (ast.Assign, ast.AugAssign)) and any(isinstance(t, ast.Name) and t.id == name for t in ast.walk(getattr(a, "target", None) or a.targets[0])))
                as_id = all(isinstance(parent(u), ast.Tuple) and parent(u).elts[-1] is u and len(parent(u).elts) == 3 and isinstance(parent(parent(u)), ast.Yield) for u in uses)
                if stepped and as_id and uses:
                    res.ok("R17.7", fn.loc(node), fn.fq, f"{head}: '{name}'", "a transaction counter: stepped by a constant, used only as the transaction of the yields")
                    continue
                res.bad("R17.7", fn.loc(node), fn.fq, f"{head}: '{name}'",
                        f"'{name}' is modified in the loop but read at line {node.lineno} without having been re-initialised in the same iteration: "
                        "what was concluded about one condition is carried over to the next one")
    if n == 0:
        res.errors.append("R17.7: no per-node loop found in the condition rewrites of symbolic_math")


# ------------------------------------------------------------------------------------------------ R17.8
def _r17_8(prog: Program, res: Result) -> None:
    """The negation helper builds a NEW condition: if it flipped operators inside the tree it was given, the original
    condition - still referenced by the statement being rewritten, by enclosing replacement nodes and by the cached
    parse of the text - would change its meaning as well (mutation summaries of sa/ownership.py)."""
    from ..ownership import Ownership
    own = Ownership(prog)
    for mod, name in (("fixes", "_negate_condition"),):
        fn = prog.funcs.get((mod, name))
        if fn is None:
            raise AnalysisError(f"anchor {mod}.{name} not found")
        summ = own.summaries.get(fn.key)
        for prm in fn.all_params:
            what = summ.mutates.get(prm) if summ is not None else None
            res.decide(what is None, "R17.8", fn.loc(), fn.fq, f"{name}: argument '{prm}' is left unmodified",
                       "the negation is built from new nodes" if what is None else
                       f"the condition passed in is modified in place ({what}): the un-negated condition the caller still uses changes with it")


# ------------------------------------------------------------------------------------------------ R17.5
def _evaluates(prog: Program, fn: Func, e: ast.AST, at: ast.AST, side: str) -> bool:
    """e is a local whose nearest preceding definition (in the loop around `at`) is the evaluated LEFT operand
    (literal_value(<cmp>.left)) resp. the evaluated comparator (literal_value(<cmp>.comparators[0]), possibly through a
    local bound to that comparator) of the comparison being folded."""
    if not isinstance(e, ast.Name):
        return False
    loop = parent(at)
    while loop is not None and not isinstance(loop, ast.For):
        loop = parent(loop)
    scope = loop if loop is not None else fn.node
    defs = [a for a in ast.walk(scope) if isinstance(a, ast.Assign) and len(a.targets) == 1 and isinstance(a.targets[0], ast.Name)
            and a.targets[0].id == e.id and a.lineno < at.lineno]
    if not defs:
        return False
    d = max(defs, key=lambda a: a.lineno).value
    if not (isinstance(d, ast.Call) and norm(d.func).endswith("literal_value") and d.args):
        return False
    arg = d.args[0]
    if isinstance(arg, ast.Name):     # comparator = node.comparators[0]
        inner = [a for a in ast.walk(scope) if isinstance(a, ast.Assign) and isinstance(a.targets[0], ast.Name) and a.targets[0].id == arg.id and a.lineno < at.lineno]
        if inner:
            arg = max(inner, key=lambda a: a.lineno).value
    t = norm(arg)
    return t.endswith(".left") if side == "left" else t.endswith(".comparators[0]")


def _r17_5(prog: Program, res: Result) -> None:
    fn = prog.func("symbolic_math", "simplify_boolean_expressions")
    n = 0
    for s in walk_own(fn.node):
        if isinstance(s, ast.If):
            t = s.test
            if isinstance(t, ast.Call) and isinstance(t.func, ast.Name) and t.func.id == "isinstance" and len(t.args) == 2:
                cls = ast_class_name(prog, fn, t.args[1])
                if cls in CMP and len(s.body) == 1 and isinstance(s.body[0], ast.Expr) and isinstance(s.body[0].value, ast.Yield):
                    y = s.body[0].value.value
                    if isinstance(y, ast.Tuple) and isinstance(y.elts[1], ast.Call):
                        kw = {k.arg: k.value for k in y.elts[1].keywords}
                        v = kw.get("value")
                        if isinstance(v, ast.Compare) and len(v.ops) == 1:
                            n += 1
                            got = PYOP.get(type(v.ops[0]))
                            order_ok = _evaluates(prog, fn, v.left, s, "left") and _evaluates(prog, fn, v.comparators[0], s, "comparators")
                            if not order_ok and _evaluates(prog, fn, v.left, s, "comparators") and _evaluates(prog, fn, v.comparators[0], s, "left"):
                                # `right < left` is `left > right`: the mirrored operator on swapped operands
                                got, order_ok = MIRROR.get(got), True
                            res.decide(got == cls and order_ok, "R17.5", fn.loc(s), fn.fq, f"{cls}: {norm(v)}",
                                       "folds with the operator it tested for" if got == cls and order_ok else
                                       f"branch for ast.{cls} folds with {got} / operands {norm(v.left)}, {norm(v.comparators[0])}")
    if n == 0:
        res.undecided("R17.5", fn.loc(), fn.fq, "comparison folding", "branches not found")


# ------------------------------------------------------------------------------------------------ R17.6
def _r17_6(prog: Program, res: Result) -> None:
    """Bound updates of simplify_constrained_range as difference-constraint claims.

    For each branch `if match(condition, T_op): if <guard over c, start, stop>: <start/stop := c (+1)>; redundant.add`
    the claim is: for all integers start, stop, c (start/stop possibly unknown=None is skipped) and x, with the
    guard true:  (start <= x < stop and x OP c)  <=>  (start' <= x < stop').  Decided over a finite box that
    realises every order type with gaps 0, 1, 2 (a small-model argument for difference constraints with
    constants 0 and 1).  Step is taken as 1 here; the step-phase clause is a separate obligation below.
    """
    fn = _canonical_roles(prog.func("symbolic_math", "simplify_constrained_range"))
    # template variable -> operator (from the first element: x OP c)
    tmpl_op: Dict[str, str] = {}
    for n in walk_own(fn.node):
        if isinstance(n, ast.Assign) and isinstance(n.targets[0], ast.Name) and isinstance(n.value, ast.Tuple) and len(n.value.elts) == 2:
            e = n.value.elts[0]
            if isinstance(e, ast.Call) and ast_class_name(prog, fn, e.func) == "Compare":
                kw = {k.arg: k.value for k in e.keywords}
                ops = kw.get("ops")
                left_is_var = isinstance(kw.get("left"), ast.Call) and ast_class_name(prog, fn, kw["left"].func) == "Name"
                if isinstance(ops, ast.List) and len(ops.elts) == 1:
                    opn = ast_class_name(prog, fn, ops.elts[0])
                    tmpl_op[n.targets[0].id] = opn if left_is_var else MIRROR.get(opn)
    loop = None
    for n in walk_own(fn.node):
        if isinstance(n, ast.For) and any(isinstance(s, ast.If) and "match_template" in norm(s.test) for s in n.body):
            loop = n
    if loop is None or not tmpl_op:
        res.undecided("R17.6", fn.loc(), fn.fq, "bound updates", "update loop not found")
        return
    cvar = None
    for s in loop.body:
        if isinstance(s, ast.If) and "match_template" not in norm(s.test):
            for a in walk_body([s]):
                if isinstance(a, ast.Assign) and isinstance(a.targets[0], ast.Name):
                    cvar = a.targets[0].id
    chain = next((s for s in loop.body if isinstance(s, ast.If) and "match_template" in norm(s.test)), None)
    branches = []
    node = chain
    while isinstance(node, ast.If):
        t = node.test
        tv = None
        if isinstance(t, ast.Call) and len(t.args) == 2 and isinstance(t.args[1], ast.Name):
            tv = t.args[1].id
        branches.append((tv, node.body, node))
        node = node.orelse[0] if len(node.orelse) == 1 and isinstance(node.orelse[0], ast.If) else None
    box = range(0, 5)
    for tv, body, host in branches:
        op = tmpl_op.get(tv)
        if op is None:
            res.undecided("R17.6", fn.loc(host), fn.fq, f"branch {tv}", "template operator unknown")
            continue
        bad = None
        interp_ok = True
        for start, stop, c in itertools.product(box, box, box):
            env = {"start": start, "stop": stop, cvar + ".value" if cvar else "c": c}
            state = {"start": start, "stop": stop, "redundant": False}
            try:
                _run_branch(body, state, c, cvar)
            except _Unsupported as error:
                interp_ok = False
                why = str(error)
                break
            if not state["redundant"]:
                # condition stays in the comprehension: the bounds must still describe a superset-consistent range
                new = [x for x in range(-2, 8) if state["start"] <= x < state["stop"] and CMP[op](x, c)]
            else:
                new = [x for x in range(-2, 8) if state["start"] <= x < state["stop"]]
            old = [x for x in range(-2, 8) if start <= x < stop and CMP[op](x, c)]
            if new != old:
                bad = f"range({start}, {stop}) if x {PYSYM[op]} {c}: rewritten to range({state['start']}, {state['stop']})" + \
                      ("" if state["redundant"] else f" if x {PYSYM[op]} {c}") + f" = {new}, expected {old}"
                break
        text = f"update for x {PYSYM[op]} c ({tv})"
        if not interp_ok:
            res.undecided("R17.6", fn.loc(host), fn.fq, text, f"branch uses a statement outside the interpreted subset: {why}")
        else:
            res.decide(bad is None, "R17.6", fn.loc(host), fn.fq, text, bad or "new bounds select exactly the same integers (all order types of start, stop, c)")
    # unknown bounds: a start/stop that is not a known constant (None) must never be folded
    none_guard = False
    for n in walk_own(fn.node):
        if isinstance(n, ast.If) and n.lineno < loop.lineno and any(isinstance(b, ast.Continue) for b in n.body):
            try:
                hits = []
                for st0 in ({"start": None, "stop": 3, "step": 1}, {"start": 0, "stop": None, "step": 1}, {"start": 0, "stop": 3, "step": 1}):
                    st = dict(st0)
                    _run_branch([ast.If(test=n.test, body=[ast.Assign(targets=[ast.Name(id="hit", ctx=ast.Store())], value=ast.Constant(value=True))], orelse=[])], st, 0, cvar)
                    hits.append(bool(st.get("hit")))
                if hits == [True, True, False]:
                    none_guard = True
            except (_Unsupported, TypeError):
                continue
    if none_guard:
        res.ok("R17.6", fn.loc(loop), fn.fq, "unknown bounds", "ranges whose start or stop is not a known constant are skipped before any bound is folded")
    else:
        bad = None
        for tv, body, host in branches:
            op = tmpl_op.get(tv)
            if op is None:
                continue
            for start, stop in ((None, 3), (1, None), (None, None)):
                for c in (0, 2, 5):
                    state = {"start": start, "stop": stop, "redundant": False}
                    try:
                        _run_branch(body, state, c, cvar)
                    except _Unsupported:
                        continue
                    except TypeError:
                        bad = bad or f"x {PYSYM[op]} {c} with start={start}, stop={stop}: comparison with an unknown bound raises TypeError"
                        continue
                    if state["redundant"] or state["start"] != start or state["stop"] != stop:
                        bad = bad or (f"x {PYSYM[op]} {c} is folded into range(start={start}, stop={stop}) -> (start={state['start']}, stop={state['stop']}) although "
                                      "None stands for a bound that is not a known constant (it may be smaller or larger than the compared value)")
        res.decide(bad is None, "R17.6", fn.loc(loop), fn.fq, "unknown bounds", bad or "no branch folds a condition into an unknown bound")

    # step phase: raising `start` is only sound when step is 1: a guard before the update loop must skip every other step
    step_guard = None
    for n in walk_own(fn.node):
        if isinstance(n, ast.If) and n.lineno < loop.lineno and any(isinstance(b, ast.Continue) for b in n.body) \
                and any(isinstance(x, ast.Name) and x.id == "step" for x in ast.walk(n.test)):
            try:
                verdicts = {}
                for v in (None, -2, -1, 0, 1, 2, 3):
                    st = {"step": v, "start": 0, "stop": 0}
                    sentinel = {"hit": False}
                    _run_branch([ast.If(test=n.test, body=[ast.Assign(targets=[ast.Name(id="hit", ctx=ast.Store())], value=ast.Constant(value=True))], orelse=[])], st, 0, cvar)
                    verdicts[v] = bool(st.get("hit"))
                if all(verdicts[v] for v in verdicts if v != 1) and not verdicts[1]:
                    step_guard = n
            except (_Unsupported, TypeError):
                continue
    res.decide(step_guard is not None, "R17.6", fn.loc(step_guard or loop), fn.fq, "step phase",
               "bounds are folded only when the step is the constant 1 (guard skips None, negative, zero and larger steps)" if step_guard is not None else
               "the start bound is raised to c (+1) whatever the step: range(0, 10, 2) if x > 2 becomes range(3, 10, 2) (different phase)")


class _Unsupported(Exception):
    pass


def _canonical_roles(fn: Func) -> Func:
    """A copy of the function in which the locals that play the roles the interpreter knows are called by their role:
    the three values unpacked from the range arguments -> start, stop, step; the set that collects the conditions
    folded into the bounds (`X.add(<condition>)` inside the update branches) -> redundant.  Roles are found by
    structure, so the analysis does not depend on what the repository calls them."""
    import copy
    mapping: Dict[str, str] = {}
    for n in walk_own(fn.node):
        if isinstance(n, ast.Assign) and isinstance(n.targets[0], ast.Tuple) and len(n.targets[0].elts) == 3 \
                and all(isinstance(t, ast.Name) for t in n.targets[0].elts) and ("_constant_int" in norm(n.value) or "args" in norm(n.value)):
            for t, role in zip(n.targets[0].elts, ("start", "stop", "step")):
                mapping[t.id] = role
    for n in walk_own(fn.node):
        if isinstance(n, ast.If) and "match_template" in norm(n.test):
            for c in ast.walk(n):
                if isinstance(c, ast.Call) and isinstance(c.func, ast.Attribute) and c.func.attr == "add" and isinstance(c.func.value, ast.Name) \
                        and c.args and isinstance(c.args[0], ast.Name):
                    mapping.setdefault(c.func.value.id, "redundant")
    mapping = {k: v for k, v in mapping.items() if k != v}
    if not mapping:
        return fn
    node = copy.deepcopy(fn.node)
    for x in ast.walk(node):
        if isinstance(x, ast.Name) and x.id in mapping:
            x.id = mapping[x.id]
    from ..model import set_parents
    set_parents(node)
    clone = copy.copy(fn)
    clone.node = node
    return clone


def _run_branch(stmts, state, c, cvar) -> None:
    def ev(e):
        if isinstance(e, ast.Name):
            if e.id in ("start", "stop"):
                return state[e.id]
            if e.id in state:
                return state[e.id]
            raise _Unsupported(f"name {e.id}")
        if isinstance(e, ast.Attribute) and isinstance(e.value, ast.Name) and e.value.id == cvar and e.attr == "value":
            return c
        if isinstance(e, ast.Constant):
            return e.value
        if isinstance(e, ast.BinOp) and isinstance(e.op, (ast.Add, ast.Sub)):
            l, r = ev(e.left), ev(e.right)
            return l + r if isinstance(e.op, ast.Add) else l - r
        if isinstance(e, ast.Compare):
            left = ev(e.left)
            for o, cmpr in zip(e.ops, e.comparators):
                right = ev(cmpr)
                if isinstance(o, (ast.Is, ast.IsNot)):
                    r = (left is right) if isinstance(o, ast.Is) else (left is not right)
                elif type(o) in PYOP:
                    r = CMP[PYOP[type(o)]](left, right)
                else:
                    raise _Unsupported(norm(e))
                if not r:
                    return False
                left = right
            return True
        if isinstance(e, ast.BoolOp):
            if isinstance(e.op, ast.And):
                return all(ev(v) for v in e.values)
            return any(ev(v) for v in e.values)
        if isinstance(e, ast.UnaryOp) and isinstance(e.op, ast.Not):
            return not ev(e.operand)
        raise _Unsupported(norm(e))

    for s in stmts:
        if isinstance(s, ast.If):
            _run_branch(s.body if ev(s.test) else s.orelse, state, c, cvar)
        elif isinstance(s, ast.Assign):
            v = ev(s.value)
            for t in s.targets:
                if isinstance(t, ast.Name):
                    state[t.id] = v
                else:
                    raise _Unsupported(norm(s))
        elif isinstance(s, ast.Expr) and isinstance(s.value, ast.Call) and isinstance(s.value.func, ast.Attribute) \
                and s.value.func.attr == "add" and norm(s.value.func.value).startswith("redundant"):
            state["redundant"] = True
        elif isinstance(s, ast.Pass):
            pass
        else:
            raise _Unsupported(norm(s))
    if state.get("changes") is True and False:
        pass


# ---------------------------------------------------------------------------------------------- self-test
from ..selftest import Variant  # noqa: E402

VARIANTS = [
    Variant("sum-terms-joined-without-parentheses", "FIRE", "symbolic_math",
            "    expr = \" + \".join(f\"({core.unparse(node).strip()})\" for node in values)\n", "    expr = \" + \".join(core.unparse(node).strip() for node in values)\n", "R17.20"),
    Variant("sum-terms-parenthesised-by-concatenation", "SILENT", "symbolic_math",
            "    expr = \" + \".join(f\"({core.unparse(node).strip()})\" for node in values)\n", "    expr = \" + \".join(\"(\" + core.unparse(node).strip() + \")\" for node in values)\n"),
    Variant("xor-handed-to-sympy", "FIRE", "symbolic_math",
            "        if any(core.walk(node, ast.BitXor)):\n            continue  # sympy reads the code as text, and in its grammar 7 ^ 3 is 7 ** 3\n", "", "R17.21"),
    Variant("xor-refused-below-the-first-reader", "FIRE", "symbolic_math",
            "        if any(core.walk(node, ast.BitXor)):\n            continue  # sympy reads the code as text, and in its grammar 7 ^ 3 is 7 ** 3\n\n        arg = node.args[0]\n",
            "        arg = node.args[0]\n        if core.match_template(arg, basic_collection_template) and any(core.walk(node, ast.BitXor)):\n            continue\n", "R17.21"),
    Variant("xor-refused-with-isinstance", "SILENT", "symbolic_math",
            "        if any(core.walk(node, ast.BitXor)):\n            continue  # sympy", "        if any(isinstance(part, (ast.BitXor, ast.MatMult)) for part in ast.walk(node)):\n            continue  # sympy"),
    Variant("dropped-condition-in-a-transaction-of-its-own", "FIRE", "symbolic_math", "            yield condition, ast.Constant(value=True, kind=None), transaction\n", "            yield condition, ast.Constant(value=True, kind=None)\n", "R17.17"),
    Variant("truth-value-fold-for-any-condition", "FIRE", "fixes", "        if _is_boolean_valued(template_match.condition):\n            yield tuple(rewrite)\n", "        if template_match.condition:\n            yield tuple(rewrite)\n", "R17.15"),
    Variant("names-count-as-boolean-valued", "FIRE", "fixes", "    template = (\n        ast.Compare,\n        ast.UnaryOp(op=ast.Not),", "    template = (\n        ast.Compare,\n        ast.Name,\n        ast.UnaryOp(op=ast.Not),", "R17.15"),
    Variant("and-or-boolean-valued-if-one-operand-is", "FIRE", "fixes", "        return all(map(_is_boolean_valued, node.values))", "        return any(map(_is_boolean_valued, node.values))", "R17.15"),
    Variant("wildcard-operands-pasted-without-parentheses", "FIRE", "core", "        if isinstance(value, ast.expr) and _precedence(value) <= operand_wildcards.get(name, -1):\n            code = f\"({code})\"  # \"not {{x}}\" is about all of x, also if x is \"a or b\"\n", "", "R17.14"),
    Variant("parentheses-only-for-strictly-looser-code", "FIRE", "core", "        if isinstance(value, ast.expr) and _precedence(value) <= operand_wildcards.get(name, -1):", "        if isinstance(value, ast.expr) and _precedence(value) < operand_wildcards.get(name, -1):", "R17.14"),
    Variant("conditional-expression-ranked-above-not", "FIRE", "core", "    if isinstance(node, ast.IfExp):\n        return 2\n", "    if isinstance(node, ast.IfExp):\n        return 6\n", "R17.14"),
    Variant("bitwise-or-ranked-below-comparison", "FIRE", "core", "    ast.BitOr: 7,\n", "    ast.BitOr: 5,\n", "R17.14"),
    Variant("template-writes-its-own-parentheses", "SILENT", "fixes", "    replace = \"return not {{condition}}\"\n", "    replace = \"return not ({{condition}})\"\n", "R17.14"),
    Variant("closed-form-for-unknown-bounds", "FIRE", "symbolic_math",
            "    if start_value is None or end_value is None:\n        raise ValueError(\"The closed form needs start <= stop, which is only known for constants\")\n\n    if start_value > end_value:\n        return ast.Constant(value=0, kind=None)\n\n", "", "R17.13"),
    Variant("helper-hands-its-argument-back", "FIRE", "symbolic_math", "        raise ValueError(\"Only a range with step 1 has this closed form\")", "        return rng", "R17.12"),
    Variant("function-name-tested-in-one-branch-only", "FIRE", "symbolic_math",
            "        if node.func.id != \"sum\":\n            continue  # The closed forms below are those of sums, len([1, 2, 3]) is not 6\n\n        if any(core.walk(node, ast.BitXor)):\n            continue  # sympy reads the code as text, and in its grammar 7 ^ 3 is 7 ** 3\n\n        arg = node.args[0]\n        if core.match_template(arg, ast.Call(func=ast.Name(id=\"range\"))):\n            if any((node is not arg for node in core.walk(arg, (ast.Attribute, ast.Call)))):\n                continue\n",
            "        if any(core.walk(node, ast.BitXor)):\n            continue\n\n        arg = node.args[0]\n        if core.match_template(arg, ast.Call(func=ast.Name(id=\"range\"))):\n            if any((node is not arg for node in core.walk(arg, (ast.Attribute, ast.Call)))):\n                continue\n            if node.func.id != \"sum\":\n                continue\n", "R17.11"),
    Variant("range-bound-from-any-constant", "FIRE", "symbolic_math",
            "                left=ast.Name(id=target_name), ops=[ast.Gt()], comparators=[ast.Constant(value=int)]",
            "                left=ast.Name(id=target_name), ops=[ast.Gt()], comparators=[ast.Constant()]", "R17.9"),
    Variant("range-bound-from-float-constant", "FIRE", "symbolic_math",
            "                left=ast.Name(id=target_name), ops=[ast.Lt()], comparators=[ast.Constant(value=int)]",
            "                left=ast.Name(id=target_name), ops=[ast.Lt()], comparators=[ast.Constant(value=(int, float))]", "R17.9"),
    Variant("range-bound-type-tested-instead-of-pinned", "SILENT", "symbolic_math",
            "            if isinstance(condition.left, ast.Constant):\n                comparator = condition.left\n            else:\n                comparator = condition.comparators[0]\n",
            "            if isinstance(condition.left, ast.Constant):\n                comparator = condition.left\n            else:\n                comparator = condition.comparators[0]\n            if not isinstance(comparator.value, int):\n                continue\n"),
    Variant("flags-initialised-once-before-the-loop", "FIRE", "symbolic_math",
            "    for node in core.walk(root, ast.BoolOp):\n        if isinstance(node.op, (ast.And, ast.Or)):\n            # Find opposite expressions",
            "    always_true = always_false = False\n    for node in core.walk(root, ast.BoolOp):\n        if isinstance(node.op, (ast.And, ast.Or)):\n            # Find opposite expressions",
            "R17.7", extra=[("symbolic_math", "            always_true = False\n            always_false = False\n            for left, bounds in constant_bounds.items():", "            for left, bounds in constant_bounds.items():")]),
    Variant("sets-cleared-instead-of-recreated", "SILENT", "symbolic_math",
            "            redundant_and_values = set()\n            redundant_or_values = set()\n            always_true = False",
            "            redundant_and_values.clear()\n            redundant_or_values.clear()\n            always_true = False",
            extra=[("symbolic_math", "    for node in core.walk(root, ast.BoolOp):\n        if isinstance(node.op, (ast.And, ast.Or)):\n            # Find opposite expressions",
                    "    redundant_and_values = set()\n    redundant_or_values = set()\n    for node in core.walk(root, ast.BoolOp):\n        if isinstance(node.op, (ast.And, ast.Or)):\n            # Find opposite expressions")]),
    Variant("negation-flips-operator-in-place", "FIRE", "fixes",
            "        return ast.Compare(\n            left=node.left, ops=[opposite_operator_type()], comparators=node.comparators\n        )\n",
            "        node.ops = [opposite_operator_type()]\n        return node\n", "R17.8"),
    Variant("every-operator-of-a-chain-negated", "FIRE", "fixes", '    if core.match_template(\n        node, ast.Compare(ops=[tuple(constants.REVERSE_OPERATOR_MAPPING)], comparators=[object])\n    ):\n        opposite_operator_type = constants.REVERSE_OPERATOR_MAPPING[type(node.ops[0])]\n        return ast.Compare(\n            left=node.left, ops=[opposite_operator_type()], comparators=node.comparators\n        )\n', '    if isinstance(node, ast.Compare) and all(\n        type(operator) in constants.REVERSE_OPERATOR_MAPPING for operator in node.ops\n    ):\n        opposite_operators = [\n            constants.REVERSE_OPERATOR_MAPPING[type(operator)]() for operator in node.ops\n        ]\n        return ast.Compare(left=node.left, ops=opposite_operators, comparators=node.comparators)\n', "R17.1"),
    Variant("elementwise-negation-of-a-single-operator", "SILENT", "fixes", '    if core.match_template(\n        node, ast.Compare(ops=[tuple(constants.REVERSE_OPERATOR_MAPPING)], comparators=[object])\n    ):\n        opposite_operator_type = constants.REVERSE_OPERATOR_MAPPING[type(node.ops[0])]\n        return ast.Compare(\n            left=node.left, ops=[opposite_operator_type()], comparators=node.comparators\n        )\n', '    if isinstance(node, ast.Compare) and len(node.ops) == 1 and all(\n        type(operator) in constants.REVERSE_OPERATOR_MAPPING for operator in node.ops\n    ):\n        opposite_operators = [\n            constants.REVERSE_OPERATOR_MAPPING[type(operator)]() for operator in node.ops\n        ]\n        return ast.Compare(left=node.left, ops=opposite_operators, comparators=node.comparators)\n'),
    Variant("negation-table-gt-lt", "FIRE", "constants", "    ast.Gt: ast.LtE,\n", "    ast.Gt: ast.Lt,\n", "R17.1"),
    Variant("demorgan-and-stays-and", "FIRE", "fixes",
            "        return ast.BoolOp(op=ast.Or(), values=[_negate_condition(child) for child in node.values])",
            "        return ast.BoolOp(op=ast.And(), values=[_negate_condition(child) for child in node.values])", "R17.3"),
    Variant("demorgan-operands-not-negated", "FIRE", "fixes",
            "        return ast.BoolOp(op=ast.And(), values=[_negate_condition(child) for child in node.values])",
            "        return ast.BoolOp(op=ast.And(), values=[child for child in node.values])", "R17.3"),
    Variant("mirror-table-gt-gte", "FIRE", "symbolic_math", "                    ast.Gt: ast.Lt,\n", "                    ast.Gt: ast.LtE,\n", "R17.2"),
    Variant("claim-eq-gt-flipped", "FIRE", "symbolic_math",
            "                        if eq <= gt:\n                            always_false |= isinstance(node.op, ast.And)",
            "                        if eq < gt:\n                            always_false |= isinstance(node.op, ast.And)\n                        if eq == gt:\n                            redundant_and_values.add(gt_value)", "R17.4"),
    Variant("claim-neq-lt-strictness", "FIRE", "symbolic_math",
            "                        if neq < lt:\n                            always_true |= isinstance(node.op, ast.Or)",
            "                        if neq <= lt:\n                            always_true |= isinstance(node.op, ast.Or)", "R17.4"),
    Variant("claim-gt-lt-tautology-off-by-one", "FIRE", "symbolic_math",
            "                        if gt >= lt:\n                            always_false |= isinstance(node.op, ast.And)\n                        if gt < lt:\n                            always_true |= isinstance(node.op, ast.Or)\n\n                        if gt == lt:",
            "                        if gt >= lt:\n                            always_false |= isinstance(node.op, ast.And)\n                        if gt <= lt:\n                            always_true |= isinstance(node.op, ast.Or)\n\n                        if gt == lt:", "R17.4"),
    Variant("claim-context-swapped", "FIRE", "symbolic_math",
            "                        if gte > lte:\n                            always_false |= isinstance(node.op, ast.And)",
            "                        if gte > lte:\n                            always_false |= isinstance(node.op, ast.Or)", "R17.4"),
    Variant("claim-lt-pair-wrong-survivor", "FIRE", "symbolic_math",
            "                        if lt1 < lt2:\n                            redundant_and_values.add(lt2_value)\n                            redundant_or_values.add(lt1_value)",
            "                        if lt1 < lt2:\n                            redundant_and_values.add(lt1_value)\n                            redundant_or_values.add(lt2_value)", "R17.4"),
    Variant("contradiction-rule-swapped", "FIRE", "symbolic_math",
            "                if isinstance(node.op, ast.Or):\n                    yield node, ast.Constant(value=True, kind=None)\n                else:\n                    yield node, ast.Constant(value=False, kind=None)",
            "                if isinstance(node.op, ast.Or):\n                    yield node, ast.Constant(value=False, kind=None)\n                else:\n                    yield node, ast.Constant(value=True, kind=None)", "R17.4"),
    Variant("folding-lt-uses-le", "FIRE", "symbolic_math",
            "            yield node, ast.Constant(value=left < right, kind=None)", "            yield node, ast.Constant(value=left <= right, kind=None)", "R17.5"),
    Variant("negated-compare-any-length", "FIRE", "fixes",
            "        node, ast.Compare(ops=[tuple(constants.REVERSE_OPERATOR_MAPPING)], comparators=[object])\n    ):",
            "        node, ast.Compare(ops={tuple(constants.REVERSE_OPERATOR_MAPPING)})\n    ):", "R17.1"),
    Variant("gt-gte-equal-thresholds", "FIRE", "symbolic_math",
            "                        if gt >= gte:\n                            redundant_and_values.add(gte_value)\n                            redundant_or_values.add(gt_value)\n                        if gt < gte:",
            "                        if gt > gte:\n                            redundant_and_values.add(gte_value)\n                            redundant_or_values.add(gt_value)\n                        if gt <= gte:", "R17.4"),
    Variant("range-lte-boundary", "FIRE", "symbolic_math",
            "                if stop is None or comparator.value < stop:\n                    stop = comparator.value + 1\n                    redundant_conditions.add(condition)",
            "                if stop is None or comparator.value <= stop:\n                    stop = comparator.value + 1\n                    redundant_conditions.add(condition)", "R17.6"),
    Variant("range-gt-forgets-plus-one", "FIRE", "symbolic_math",
            "                if start is None or comparator.value > start:\n                    start = comparator.value + 1",
            "                if start is None or comparator.value > start:\n                    start = comparator.value", "R17.6"),
    Variant("range-step-guard-removed", "FIRE", "symbolic_math",
            "        if step != 1:\n", "        if step == 0:\n", "R17.6"),
    Variant("range-unknown-bounds-folded", "FIRE", "symbolic_math", "        if start is None or stop is None:\n", "        if False:\n", "R17.6"),
    Variant("range-lt-equivalent-guard", "SILENT", "symbolic_math",
            "                if stop is None or comparator.value <= stop:\n                    stop = comparator.value\n",
            "                if stop is None or not comparator.value > stop:\n                    stop = comparator.value\n"),
    Variant("claims-as-not-greater", "SILENT", "symbolic_math",
            "                        if lt <= lte:\n                            redundant_and_values.add(lte_value)",
            "                        if not lt > lte:\n                            redundant_and_values.add(lte_value)"),
    Variant("claims-loop-variables-renamed", "SILENT", "symbolic_math",
            "                    for gte, gte_value in bounds[ast.GtE]:\n                        if eq < gte:\n                            always_false |= isinstance(node.op, ast.And)\n                        if eq >= gte:\n                            redundant_or_values.add(eq_value)\n                            redundant_and_values.add(gte_value)",
            "                    for lower, lower_value in bounds[ast.GtE]:\n                        if eq < lower:\n                            always_false |= isinstance(node.op, ast.And)\n                        if eq >= lower:\n                            redundant_or_values.add(eq_value)\n                            redundant_and_values.add(lower_value)"),
    Variant("negation-table-reordered", "SILENT", "constants",
            "    ast.Eq: ast.NotEq,\n    ast.NotEq: ast.Eq,\n    ast.Gt: ast.LtE,", "    ast.NotEq: ast.Eq,\n    ast.Eq: ast.NotEq,\n    ast.Gt: ast.LtE,"),
]

META = {
    "design_ref": "DESIGN.md section 3, C17",
    "technique": "table extraction + finite order-type decision of every extracted bound claim; constructor-shape checks (De Morgan, negation/mirror tables); definite-assignment analysis of per-condition loops (loop-carried state); mutation summary of the negation helper; small arithmetic interpreters over finite boxes (range bounds, term counts); precedence / template algebra of operand wildcards and of operands joined as text; call-graph reachability of sympy text readers with a path-condition refusal of `^` at the first reaching call",
    "level_text": ("Decides on the current source every table-shaped logical claim the condition rewrites rely on: the "
                   "negation and mirror tables against Python's comparison semantics, De Morgan construction, all pairwise "
                   "threshold claims of simplify_boolean_expressions (each decided exhaustively over the order types of x "
                   "and the thresholds), comparison folding, and the bound updates of simplify_constrained_range as "
                   "difference-constraint claims. It does not decide the sympy round trip or the sum closed forms."),
    "level_note": "Trusted: CPython ast; python's operator semantics on Fractions as the reference; the small-model box (thresholds 0..3 in halves, x in -1..4 / quarters) realises every order type with gaps 0, 1/2, 1, >1.",
}
