"""C18 Import normalisation keeps every referenced name bound to the same object (partial, DESIGN 3/C18)."""
from __future__ import annotations

import ast
import re
from typing import Dict, List, Optional, Set, Tuple

from ..defuse import assignments, bindings, call_arg, names_in
from ..model import AnalysisError, Func, Program, norm, parent, short, walk_own, walk_body
from ..pathcond import PathAnalysis, world_has
from ..report import Result
from ..preserve import binding_loop


def _importfrom_ctor(prog: Program, fn: Func, c: ast.Call) -> bool:
    d = prog.dotted(c.func) or ""
    if "." in d:
        head, name = d.rsplit(".", 1)
        return name == "ImportFrom" and fn.mod.aliases.get(head) == ("ext", "ast")
    return False


def module_origin(prog: Program, fn: Func, m: ast.AST, at: ast.AST, depth: int = 0) -> Tuple[str, Optional[str]]:
    """('field', node_var) module read from <node_var>.module | ('keyed', dict name) a key of a dict keyed by .module
    | ('plain', None) a constant / a name built from ast.Import alias names | ('unknown', None)"""
    if depth > 4:
        return ("unknown", None)
    if isinstance(m, ast.Attribute) and m.attr == "module" and isinstance(m.value, ast.Name):
        return ("field", m.value.id)
    if isinstance(m, ast.Constant):
        return ("plain", None)
    if isinstance(m, ast.Call) and isinstance(m.func, ast.Attribute) and m.func.attr in ("join", "format", "strip", "lstrip"):
        return ("plain", None)
    if isinstance(m, ast.JoinedStr):
        return ("plain", None)
    if isinstance(m, ast.Name):
        loop = binding_loop(fn, at, m.id)
        if loop is not None:
            it = loop.iter
            if isinstance(it, ast.Call) and isinstance(it.func, ast.Attribute) and it.func.attr in ("items", "keys") and isinstance(it.func.value, ast.Name):
                dname = it.func.value.id
                first = loop.target.elts[0] if isinstance(loop.target, ast.Tuple) else loop.target
                is_key = (isinstance(first, ast.Name) and first.id == m.id) or \
                    (isinstance(first, ast.Tuple) and any(isinstance(x, ast.Name) and x.id == m.id for x in first.elts))
                if is_key:
                    return ("keyed", dname)
            return ("unknown", None)
        defs = [v for s, v in assignments(fn, m.id) if v is not None and s.lineno <= getattr(at, "lineno", 10 ** 9)]
        if len(defs) == 1:
            return module_origin(prog, fn, defs[0], at, depth + 1)
        if m.id in fn.all_params:
            return ("unknown", None)
        # mapping.get(node.module, node.module)
    if isinstance(m, ast.Call) and isinstance(m.func, ast.Attribute) and m.func.attr == "get" and m.args:
        return module_origin(prog, fn, m.args[-1], at, depth + 1)
    return ("unknown", None)


def dict_key_sites(fn: Func, dname: str) -> List[Tuple[ast.AST, ast.AST]]:
    """(statement, key expression) for D[key] = .. / D[key].add(..) / D[key].append(..) / D[key].update(..)"""
    out = []
    for n in walk_own(fn.node):
        if isinstance(n, ast.Subscript) and isinstance(n.value, ast.Name) and n.value.id == dname:
            p = parent(n)
            if isinstance(n.ctx, ast.Store) or (isinstance(p, ast.Attribute) and p.attr in ("add", "append", "update", "extend")):
                out.append((n, n.slice))
    return out


LATER_RULES = " Later rules: (R18.7) module is absolute only at level 0; (R18.8) __import__('a.b') returns a; (R18.9) import a.b is used whenever a is; (R18.10) = C05 R5.5 for the tracing module; (R18.11) duplicates = same module, name and statement list; (R18.12) imports under try are never moved; (R18.15) a star import is removed as unused only when its export list can be determined, by a predicate that gives up wherever trace_origin does; (R18.16) import statements are reordered only after a test on the names they bind (known finding); (R18.17) imports inserted at module level replace module-level imports only. (R18.18) one key form for all tests against the standard-library table in a function. (R18.21) a tuple or f-string that identifies an import by its module also carries its level; (R18.20) the definitions subtracted from the names a star import may provide are those of module scope (known finding). (R18.19) trace_origin answers an origin only after a census of the module-level stores of the name (binder kinds it does not read)."


def check(prog: Program, tier: str) -> Result:
    res = Result(
        "C18",
        explanation=(
            "(R18.1) `level` travels with `module`: for every constructed ast.ImportFrom(module=M, level=L), if M is read "
            "from the .module of an existing import node n then L must be n.level of the same node (or the path "
            "condition must fix n.level == 0); if M is the key of a dict that groups import nodes by their .module, the "
            "grouping key must include the level as well - otherwise `from .a import x` and `from a import y` are merged "
            "or a relative import is re-emitted as absolute. A module name that is a constant or built from the dotted "
            "name of an `import a.b` statement needs no level. (R18.2) the textual import constructor prefixes "
            "'.' * level. (R18.3) tracing through modules on disk is bounded (C04 R4.c). (R18.4) `from __future__` "
            "imports are excluded from the set of imported names before unused imports are computed. (R18.5) an alias is looked up by the name "
            "it BINDS: alias.name is compared only where alias.asname is None. (R18.6) a star import is deleted only if provably unused (two "
            "known findings). Not decided: "
            "correctness of origin tracing itself (depends on the file system, sys.path and importlib at run time)."),
        rule_text="instances = ast.ImportFrom constructions, grouping dictionaries keyed by module, textual import constructors",
    )
    res.explanation += LATER_RULES
    res.trusted_base = ["CPython ast", "def-use helpers", "sa/pathcond.py"]
    n = 0
    for fn in prog.funcs.values():
        for c in prog.calls_in(fn):
            if not _importfrom_ctor(prog, fn, c):
                continue
            fields = list(ast.ImportFrom._fields)
            m = call_arg(c, fields.index("module"), "module")
            lv = call_arg(c, fields.index("level"), "level")
            if m is None:
                continue
            n += 1
            text = short(c, 100)
            kind, who = module_origin(prog, fn, m, c)
            if kind == "plain":
                res.ok("R18.1", fn.loc(c), fn.fq, text, "module name is a constant / built from an `import a.b` name: absolute, no level to carry", trivial=True)
            elif kind == "field":
                ok = lv is not None and isinstance(lv, ast.Attribute) and lv.attr == "level" and isinstance(lv.value, ast.Name) and lv.value.id == who
                if not ok and lv is not None and isinstance(lv, ast.Name):
                    d = [v for _, v in assignments(fn, lv.id) if v is not None]
                    ok = len(d) == 1 and norm(d[0]) == f"{who}.level"
                if not ok:
                    pa = PathAnalysis(prog, fn)
                    worlds = pa.worlds_at(c)
                    ok = bool(worlds) and all(world_has(w, True, lambda t: t.replace(" ", "") in (f"eq(0,{who}.level)", f"eq({who}.level,0)")) or
                                              world_has(w, False, lambda t: t == f"{who}.level") for w in worlds)
                res.decide(ok, "R18.1", fn.loc(c), fn.fq, text,
                           f"level taken from the same node as the module ({who})" if ok else
                           f"module is copied from {who}.module but level is {norm(lv) if lv is not None else 'omitted'}: `from .pkg import x` is re-emitted as `from pkg import x`")
            elif kind == "keyed":
                sites = dict_key_sites(fn, who)
                keyed_by_module = [k for _, k in sites if any(isinstance(x, ast.Attribute) and x.attr == "module" for x in ast.walk(k))]
                with_level = [k for k in keyed_by_module if any(isinstance(x, ast.Attribute) and x.attr == "level" for x in ast.walk(k))]
                if not keyed_by_module:
                    res.undecided("R18.1", fn.loc(c), fn.fq, text, f"keys of '{who}' not recognised")
                    continue
                ok = len(with_level) == len(keyed_by_module)
                if not ok:
                    # insertion guarded by level == 0 ?
                    pa = PathAnalysis(prog, fn)
                    ok = True
                    for st, k in sites:
                        base = next((x.value.id for x in ast.walk(k) if isinstance(x, ast.Attribute) and x.attr == "module" and isinstance(x.value, ast.Name)), None)
                        worlds = pa.worlds_at(st)
                        if not (base and worlds and all(world_has(w, True, lambda t: "level" in t and base in t and "eq(" in t and "0" in t)
                                                        or world_has(w, False, lambda t: t == f"{base}.level") for w in worlds)):
                            ok = False
                res.decide(ok, "R18.1", fn.loc(c), fn.fq, text,
                           f"grouping key of '{who}' carries the level" if ok else
                           f"module is a key of '{who}', which groups import nodes by .module only: nodes with different levels (`from .a import x`, `from a import y`) share "
                           "one entry and the level of the emitted import is that of one of them / a constant")
            else:
                res.undecided("R18.1", fn.loc(c), fn.fq, text, "origin of the module name not recognised")
    # R18.2
    fn = prog.funcs.get(("fixes", "_construct_import_statement"))
    if fn is not None:
        rets = [r for r in walk_own(fn.node) if isinstance(r, ast.Return) and r.value is not None and "from" in norm(r.value)]
        ok = bool(rets) and all("'.' * node.level" in norm(r.value) or '"." * node.level' in norm(r.value) for r in rets)
        res.decide(ok, "R18.2", fn.loc(rets[0]) if rets else fn.loc(), fn.fq, "textual from-import", "prefixes '.' * level" if ok else "relative level is dropped from the reconstructed import text")
        mod_ok = bool(rets) and all("node.module or ''" in norm(r.value) or "node.module" in norm(r.value) for r in rets)
        res.decide(mod_ok, "R18.2", fn.loc(), fn.fq, "module of `from . import x`", "a missing module (None) prints as empty" if mod_ok else "module None not handled")
    # R18.4
    gi = prog.func("tracing", "get_imported_names")
    uses_filter = any(isinstance(c.func, ast.Name) and c.func.id == "_get_imports" for c in prog.calls_in(gi))
    gim = prog.func("tracing", "_get_imports")
    excl = any(isinstance(n, ast.Compare) and "__future__" in norm(n) and isinstance(n.ops[0], (ast.NotEq,)) for n in walk_own(gim.node))
    ui = prog.func("fixes", "_get_unused_imports")
    chain = any((prog.resolve_call(c.func, ui.mod, ui) or (None, None))[1] is gi for c in prog.calls_in(ui))
    res.decide(uses_filter and excl and chain, "R18.4", gim.loc(), gim.fq, "__future__ imports",
               "excluded before imported names (and hence unused imports) are computed" if uses_filter and excl and chain else
               "`from __future__ import ...` can be reported as an unused import and removed")
    # R18.3 reference
    tr = prog.func("tracing", "trace_origin")
    res.ok("R18.3", tr.loc(), tr.fq, "bounded tracing", "decided under C04 R4.c (depth bound)", trivial=True)
    _r18_5(prog, res)
    _r18_6(prog, res)
    _r18_8(prog, res)
    _r18_7(prog, res)
    _r18_9(prog, res)
    _r18_11(prog, res)
    _r18_12(prog, res)
    _r18_13(prog, res)
    _r18_15(prog, res)
    _r18_16(prog, res)
    _r18_17(prog, res)
    # R18.10: where a module comes from is a fact about the disk and sys.path NOW
    from . import c05 as _c05
    anchors = [f.key for f in prog.funcs.values() if f.mod.name == "tracing"]
    _c05.adopt_memo_rule(prog, res, "R18.10", anchors,
                         "import normalisation must hold for ANY layout of the imported packages: a memoised lookup answers for the layout of an earlier call "
                         "(another working directory, an edited or moved module), so star-imports are expanded to names the module no longer exports")
    _r18_18(prog, res)
    _r18_13_census(prog, res)
    _r18_19(prog, res)
    _r18_20(prog, res)
    _r18_21(prog, res)
    _r18_22(prog, res)
    res.floors.update({"R18.1": 6, "R18.2": 2, "R18.4": 1, "R18.5": 1, "R18.10": 3, "R18.11": 2, "R18.12": 1, "R18.13": 5, "R18.14": 2, "R18.15": 4, "R18.16": 1, "R18.17": 2, "R18.18": 1, "R18.19": 1, "R18.20": 1, "R18.21": 3, "R18.22": 1})
    res.analysed["importfrom_constructions"] = n
    return res


# ------------------------------------------------------------------------------------------------ R18.15
def _decided_no(n: ast.Continue, name_param: str) -> bool:
    """The `continue` follows an answered membership question about the traced name (`if name in exports: return ..`): the star import
    was analysed and does not export the name - not a give-up."""
    def membership(t: ast.AST) -> bool:
        return any(isinstance(c, ast.Compare) and isinstance(c.ops[0], (ast.In, ast.NotIn)) and isinstance(c.left, ast.Name) and c.left.id == name_param
                   for c in ast.walk(t))
    host = parent(n)
    if isinstance(host, ast.If) and membership(host.test):
        return True
    siblings = None
    for field in ("body", "orelse", "finalbody"):
        lst = getattr(host, field, None)
        if isinstance(lst, list) and n in lst:
            siblings = lst[:lst.index(n)]
    return any(isinstance(x, ast.If) and membership(x.test) and any(isinstance(r, ast.Return) for r in ast.walk(x)) for x in (siblings or []))


def _r18_15(prog: Program, res: Result) -> None:
    """`from m import *` that no name was traced to is removed as unused.  That conclusion needs the export list of m: where
    trace_origin GIVES UP on a star import (relative import, module not found, not a .py file) no name can be traced to it
    whatever it binds, and removing it unbinds every name it provided.  (a) the removal is reached only when a predicate on
    the import said it is not such an import; (b) that predicate gives up wherever trace_origin does (sibling agreement on
    the tests of the import and of the module's origin)."""
    fn = prog.funcs.get(("tracing", "fix_starred_imports"))
    tr = prog.funcs.get(("tracing", "trace_origin"))
    if fn is None or tr is None:
        raise AnalysisError("anchor tracing.fix_starred_imports / trace_origin not found")
    pa = PathAnalysis(prog, fn)
    removals = [y for y in walk_own(fn.node) if isinstance(y, ast.Yield) and isinstance(y.value, ast.Tuple) and len(y.value.elts) >= 2
                and isinstance(y.value.elts[1], ast.Constant) and y.value.elts[1].value is None]
    if not removals:
        res.ok("R18.15", fn.loc(), fn.fq, "removal of star imports", "no star import is removed", trivial=True)
    predicates = []
    for y in removals:
        victim = norm(y.value.elts[0])
        found = None
        for c in prog.calls_in(fn):
            r = prog.resolve_call(c.func, fn.mod, fn)
            if r and r[0] == "fn" and len(c.args) == 1 and norm(c.args[0]) == victim:
                ok, _why = pa.holds_at(y, lambda w, c=c: pa.formula(c, w, False))
                if ok:
                    found = r[1]
        res.decide(found is not None, "R18.15", fn.loc(y), fn.fq, f"{short(y, 60)} # a star import no name was traced to",
                   f"removed only when {found.node.name}() said that its export list can be determined" if found is not None else
                   "a star import is removed because no name was traced to it - also where trace_origin cannot determine what it binds (relative import, "
                   "module not found, extension module): every name it provided becomes a NameError")
        if found is not None:
            predicates.append(found)
    # (b) sibling agreement, on path conditions: wherever trace_origin gives up on a star import, the predicate answers True
    import re as _re
    from ..pathcond import And as _And, Or as _Or, atoms_of, entails, plain, subst
    name_param = tr.posparams[0]

    def roles(f: Func, subject: str):
        origins = {t for t, defs in bindings(f).items() for _st, v in defs
                   if v is not None and isinstance(v, ast.Call) and norm(v.func).endswith("_trace_module_source_file")}
        def canon(atom: str) -> str:
            text = plain(atom)
            text = _re.sub(r"\bPath\((\w+)\)", r"\1", text)
            text = _re.sub(rf"(?<![\w.]){_re.escape(subject)}(?![\w])", "<imp>", text)
            for o in origins:
                text = _re.sub(rf"(?<![\w.]){_re.escape(o)}(?![\w])", "<origin>", text)
            return text
        return canon

    def relevant(f) -> bool:
        return any("<imp>" in a or "<origin>" in a for a in atoms_of(f))

    tr_pa = PathAnalysis(prog, tr)
    giveups = []
    for n in walk_own(tr.node):
        if not isinstance(n, ast.Continue):
            continue
        worlds = tr_pa.worlds_at(n)
        if not worlds or not all(any(fct[0] == "lit" and fct[2] and plain(fct[1]).replace(" ", "").startswith(("eq('*',", 'eq("*",')) for fct in w.facts) for w in worlds):
            continue            # not in the star branch
        # inside an exception handler: judged with the exception classes below
        a, in_handler = parent(n), False
        while a is not None and a is not tr.node:
            in_handler = in_handler or isinstance(a, ast.ExceptHandler)
            a = parent(a)
        if in_handler or _decided_no(n, name_param):
            continue
        giveups.append((n, worlds))
    if not giveups:
        res.undecided("R18.15", tr.loc(), tr.fq, "the star branch of trace_origin", "no place where trace_origin gives up on a star import was found")
        return
    # subject of trace_origin: the variable whose `.level` / `.module` is tested
    subj_tr = None
    for n, _w in giveups:
        t = parent(n)
        if isinstance(t, ast.If):
            for x in ast.walk(t.test):
                if isinstance(x, ast.Attribute) and x.attr in ("level", "module") and isinstance(x.value, ast.Name):
                    subj_tr = x.value.id
    canon_tr = roles(tr, subj_tr or "node")
    loop = None
    start = min(n.lineno for n, _ in giveups)
    a = parent(giveups[0][0])
    while a is not None and not (isinstance(a, ast.For) and any(isinstance(x, ast.Attribute) and x.attr == "names" for x in ast.walk(a.iter))):
        a = parent(a)
    loop = a if a is not None else tr.node
    for pred in {p.key: p for p in predicates}.values():
        canon_p = roles(pred, pred.posparams[0])
        ppa = PathAnalysis(prog, pred)
        yes = []
        for r in walk_own(pred.node):
            if isinstance(r, ast.Return) and r.value is not None and not (isinstance(r.value, ast.Constant) and r.value.value is False):
                a = parent(r)
                while a is not None and a is not pred.node and not isinstance(a, ast.ExceptHandler):
                    a = parent(a)
                if isinstance(a, ast.ExceptHandler):
                    continue            # answered only if something raised: not a consequence of the tests alone
                for w in ppa.worlds_at(r):
                    facts = [subst(fct, canon_p) for fct in w.facts]
                    if not (isinstance(r.value, ast.Constant) and r.value.value is True):
                        answer = subst(ppa.formula(r.value, w, True), canon_p)
                        if not relevant(answer):
                            continue    # `return <something else>`: whether that is True is not said by the tests the two functions share
                        facts.append(answer)
                    yes.append(_And(*[fct for fct in facts if relevant(fct)]))
        goal = _Or(*yes) if yes else ("or", ())
        missed = []
        for n, worlds in giveups:
            for w in worlds:
                prem = [subst(fct, canon_tr) for fct in w.facts]
                prem = [fct for fct in prem if relevant(fct)]
                if not entails(prem, goal, max_atoms=16):
                    host = parent(n)
                    missed.append(f"line {n.lineno}" + (f" `{short(host.test, 50)}`" if isinstance(host, ast.If) else ""))
                    break
        res.decide(not missed, "R18.15", pred.loc(), pred.fq, f"{pred.node.name}() # gives up where trace_origin gives up ({len(giveups)} place(s))",
                   "on every path on which trace_origin gives up on a star import, the predicate answers `cannot tell`" if not missed else
                   f"trace_origin gives up on a star import at {sorted(set(missed))}, {pred.node.name}() answers `can tell` there: such an import is still removed as unused")
    # handlers that give up on reading the module's source
    wanted_exc: Set[str] = set()
    for t in ast.walk(loop):
        if isinstance(t, ast.Try) and t.lineno > start and any(isinstance(x, ast.Attribute) and x.attr in ("open", "read", "read_text") for st in t.body for x in ast.walk(st)):
            for h in t.handlers:
                if h.body and isinstance(h.body[-1], ast.Continue) and h.type is not None:
                    wanted_exc |= {norm(e) for e in (h.type.elts if isinstance(h.type, ast.Tuple) else [h.type])}
    for pred in {p.key: p for p in predicates}.values():
        have_exc: Set[str] = set()
        for h in ast.walk(pred.node):
            if isinstance(h, ast.ExceptHandler) and h.type is not None and h.body and isinstance(h.body[-1], ast.Return) \
                    and isinstance(h.body[-1].value, ast.Constant) and h.body[-1].value.value is True:
                have_exc |= {norm(e) for e in (h.type.elts if isinstance(h.type, ast.Tuple) else [h.type])}
        lost = sorted(wanted_exc - have_exc) if not ({"Exception", "BaseException"} & have_exc) else []
        res.decide(not lost, "R18.15", pred.loc(), pred.fq, f"{pred.node.name}() # gives up where reading the module fails ({len(wanted_exc)} exception class(es))",
                   f"{sorted(wanted_exc)} all answered with `cannot tell`" if not lost else
                   f"trace_origin gives up when reading the module raises {lost}, {pred.node.name}() does not: a star import from a module that cannot be read or parsed is removed")
        # ... and WHETHER reading fails is decided by how the file is read: the two must open the module the same way (same opener,
        # same encoding).  A module in a declared non-UTF-8 encoding cannot be read as utf-8 (trace_origin gives up) but can be read
        # with the cookie-aware opener (the predicate says `can tell`): the star import is removed.
        def readers(scope) -> Set[str]:
            out = set()
            for c_ in ast.walk(scope):
                if isinstance(c_, ast.Call):
                    d_ = prog.dotted(c_.func) or norm(c_.func)
                    if d_ in ("open", "io.open", "tokenize.open") or (isinstance(c_.func, ast.Attribute) and c_.func.attr in ("open", "read_text")):
                        enc = next((k.value for k in c_.keywords if k.arg == "encoding"), None)
                        kind_ = "tokenize.open" if d_ == "tokenize.open" else "open"
                        out.add(f"{kind_}(encoding={norm(enc).lower().replace('_', '-') if enc is not None else 'default'})")
            return out
        r_tr, r_pred = readers(loop), readers(pred.node)
        if r_tr and r_pred:
            res.decide(r_tr == r_pred, "R18.15", pred.loc(), pred.fq, f"{pred.node.name}() # reads the module the way trace_origin does",
                       f"both: {sorted(r_tr)}" if r_tr == r_pred else
                       f"trace_origin reads the module with {sorted(r_tr)}, {pred.node.name}() with {sorted(r_pred)}: a file one of them can decode and the other cannot is "
                       "`readable` for the predicate while no name is ever traced to it - the star import is removed as unused")


# ------------------------------------------------------------------------------------------------ R18.16
def _r18_16(prog: Program, res: Result) -> None:
    """Of two imports that bind the same name the LATER one wins, and what a star import binds is not known: the order of
    such statements is part of the program.  The sorting rule reorders the statements of a block by a key that knows
    nothing of what they bind.  Obligation: the place where a statement is replaced by another statement of the sorted
    block is reached only after a test on the names the statements bind (some condition over `.asname` / `.name` of the
    aliases of the block holds on the path)."""
    fn = prog.funcs.get(("fixes", "_sort_import_statements"))
    if fn is None:
        raise AnalysisError("anchor fixes._sort_import_statements not found")
    sorts = [c for c in prog.calls_in(fn) if norm(c.func) == "sorted" or (isinstance(c.func, ast.Attribute) and c.func.attr == "sort")]
    if not sorts:
        res.ok("R18.16", fn.loc(), fn.fq, "reordering of import statements", "the statements are not reordered here", trivial=True)
        return
    pa = PathAnalysis(prog, fn)
    # locals that hold what the statements bind: derived (through assignments, loops, accumulation) from `.asname` / `.names`
    import re as _re
    from ..pathcond import atoms_of, plain
    def about_names(e: ast.AST, known: Set[str]) -> bool:
        return any((isinstance(x, ast.Attribute) and x.attr in ("asname", "names")) or (isinstance(x, ast.Name) and x.id in known) for x in ast.walk(e))
    derived: Set[str] = set()
    for _ in range(6):
        before = len(derived)
        for st in walk_own(fn.node):
            if isinstance(st, ast.Assign) and about_names(st.value, derived):
                derived |= {x.id for t in st.targets for x in ast.walk(t) if isinstance(x, ast.Name)}
            if isinstance(st, ast.For) and about_names(st.iter, derived):
                derived |= {x.id for x in ast.walk(st.target) if isinstance(x, ast.Name)}
            if isinstance(st, ast.Expr) and isinstance(st.value, ast.Call) and isinstance(st.value.func, ast.Attribute) \
                    and st.value.func.attr in ("add", "append", "update", "extend") and any(about_names(a_, derived) for a_ in st.value.args):
                derived |= {x.id for x in ast.walk(st.value.func.value) if isinstance(x, ast.Name)}
        if len(derived) == before:
            break
    def fact_about_names(fct) -> bool:
        for atom in atoms_of(fct):
            text = plain(atom)
            if ".asname" in text or any(_re.search(rf"(?<![\w.]){_re.escape(d)}(?![\w])", text) for d in derived):
                return True
        return False
    for c in sorts:
        worlds = pa.worlds_at(c)
        ok = bool(worlds) and all(any(fact_about_names(fct) for fct in w.facts) for w in worlds)
        res.decide(ok, "R18.16", fn.loc(c), fn.fq, f"{short(c, 60)} # import statements of a block are reordered",
                   "only after a test on the names the statements bind" if ok else
                   "the statements of an import block are sorted whatever they bind: two imports of the same name (`from a import x` / `from b import x`) "
                   "or a star import and another import swap places, and the name is bound to the other object")



# ------------------------------------------------------------------------------------------------ R18.17
def _module_level_source(e: ast.AST, fn: Func, depth: int = 0) -> Optional[bool]:
    """Does the iterable `e` range over statements of the MODULE body only?  True / False / None (cannot tell)."""
    if isinstance(e, ast.Name) and depth < 3:
        defs = [v for _st, v in assignments(fn, e.id) if v is not None]
        if len(defs) == 1:
            return _module_level_source(defs[0], fn, depth + 1)
        return None
    if isinstance(e, ast.Attribute) and e.attr == "body" and isinstance(e.value, ast.Name):
        return True
    if isinstance(e, ast.Call):
        name = norm(e.func)
        if name.endswith(("walk", "walk_wildcard", "iter_bodies_recursive")) or name == "ast.walk":
            return False              # every scope of the tree
        if name.endswith(("filter_nodes", "filter", "sorted", "list", "tuple", "reversed", "iter_module_scope_statements")) and e.args:
            if name.endswith("iter_module_scope_statements"):
                return True
            return _module_level_source(e.args[-1] if name.endswith("filter") else e.args[0], fn, depth)
    if isinstance(e, (ast.GeneratorExp, ast.ListComp)):
        return _module_level_source(e.generators[0].iter, fn, depth)
    return None


def _r18_17(prog: Program, res: Result) -> None:
    """A redirected import is INSERTED at module level (a statement built with a `lineno` and yielded without a node it
    replaces).  An import inside a function binds a local name there - moving its binding to module scope lets it be
    shadowed by (or shadow) another module-level binding of the name.  Where a function inserts import statements at a
    line and removes aliases from the statements of a loop, that loop and the line both range over statements of the
    module body, not over every scope of the tree."""
    n = 0
    for fn in prog.funcs.values():
        if fn.mod.name not in ("tracing",):
            continue
        inserts = []
        for y in walk_own(fn.node):
            if isinstance(y, ast.Yield) and isinstance(y.value, ast.Tuple) and len(y.value.elts) >= 2 and isinstance(y.value.elts[0], ast.Constant) \
                    and y.value.elts[0].value is None:
                new = y.value.elts[1]
                if isinstance(new, ast.Name):
                    d = [v for _st, v in assignments(fn, new.id) if v is not None]
                    new = d[0] if d else new
                if isinstance(new, ast.Call) and norm(new.func) in ("ast.Import", "ast.ImportFrom"):
                    inserts.append((y, new))
        if not inserts:
            continue
        # where the insertion goes
        for y, new in inserts:
            ln = next((k.value for k in new.keywords if k.arg == "lineno"), None)
            if ln is None:
                continue
            n += 1
            src = ln
            verdict = None
            if isinstance(ln, ast.Name):
                d = [v for _st, v in assignments(fn, ln.id) if v is not None]
                for v in d:
                    for g in ast.walk(v):
                        if isinstance(g, (ast.GeneratorExp, ast.ListComp)):
                            verdict = _module_level_source(g.generators[0].iter, fn)
                            src = g.generators[0].iter
            res.decide(verdict is True, "R18.17", fn.loc(y), fn.fq, f"{short(src, 60)} # the line at which an import is inserted",
                       "a line of a module-level import" if verdict is True else
                       "the insertion line is taken from the imports of EVERY scope: with a function-level import first in the file the redirected import lands inside "
                       "or above that function")
        # which imports lose aliases
        loops = [l for l in walk_own(fn.node) if isinstance(l, ast.For) and any(isinstance(y, ast.Yield) and isinstance(y.value, ast.Tuple) and y.value.elts
                 and norm(y.value.elts[0]) == norm(l.target) for y in walk_body(l.body))]
        for l in loops:
            n += 1
            verdict = _module_level_source(l.iter, fn)
            res.decide(verdict is True, "R18.17", fn.loc(l), fn.fq, f"{short(l.iter, 60)} # the imports whose names are redirected",
                       "module-level imports only" if verdict is True else
                       "imports of every scope are redirected, but the redirected import is inserted at module level: a function-local `from b import x` becomes a "
                       "module-level `from a import x` that another module-level import of x shadows (or that shadows it)")
    res.analysed["import_insertions"] = n



# ------------------------------------------------------------------------------------------------ R18.13
def _r18_13(prog: Program, res: Result) -> None:
    """What `from m import *` takes from m (the export model of the tracer, the branch of trace_origin that runs with its export
    flag on): (a) `__all__` may be written as a list OR a tuple - the template of the assignment accepts both displays;
    (b) without `__all__`, names with a leading underscore are left out - some return of 'not found' is reached under the
    export flag and `name.startswith('_')`; (c) only names bound in MODULE scope count - the candidate nodes are reduced by
    everything inside function and class definitions (a local `helper` inside b.g does not make b export helper)."""
    from ..pathcond import PathAnalysis, plain
    fn = prog.func("tracing", "trace_origin")
    flag = next((p_ for p_ in fn.all_params if "all" in p_.lower()), None)
    if flag is None:
        raise AnalysisError("trace_origin: export flag parameter not found")
    region = [i for i in walk_own(fn.node) if isinstance(i, ast.If) and norm(i.test) == flag]
    if not region:
        raise AnalysisError("trace_origin: `if <export flag>:` block not found")
    blk = region[0]
    # (a)
    tmpl = [a for a in ast.walk(blk) if isinstance(a, ast.Call) and (prog.dotted(a.func) or "") == "ast.Assign" and "'__all__'" in norm(a)]
    ok_a = bool(tmpl) and all("ast.List" in norm(t) and "ast.Tuple" in norm(t) for t in tmpl)
    res.decide(ok_a, "R18.13", fn.loc(tmpl[0]) if tmpl else fn.loc(blk), fn.fq, "__all__ written as a list or a tuple",
               "both displays are recognised" if ok_a else
               "`__all__ = ('y',)` is not recognised: every module-level name of the module counts as exported and a name is attributed to the wrong star import")
    # (b)
    pa = PathAnalysis(prog, fn)
    name_p = fn.posparams[0]
    ok_b = False
    for r in ast.walk(blk):
        if isinstance(r, ast.Return) and (r.value is None or (isinstance(r.value, ast.Constant) and r.value.value is None)):
            for w in pa.worlds_at(r):
                if any(f[0] == "lit" and f[2] and "startswith(" in plain(f[1]) and "'_'" in plain(f[1]) and name_p in plain(f[1]) for f in w.facts):
                    ok_b = True
    res.decide(ok_b, "R18.13", fn.loc(blk), fn.fq, "underscore names without __all__",
               "not exported" if ok_b else
               "for a module without __all__ the leading-underscore rule of `import *` is not applied: `_x` is attributed to a star import that does not provide it")
    # (c)
    txt = " ".join(norm(x) for x in blk.body)
    ok_c = any(isinstance(x, (ast.AugAssign, ast.Assign, ast.Call)) and "FunctionDef" in norm(x) and "ClassDef" in norm(x) and ("-=" in norm(x) or "difference" in norm(x) or " - " in norm(x) or "not in" in norm(x))
               for x in ast.walk(blk) if isinstance(x, (ast.AugAssign, ast.Assign, ast.Expr)))
    res.decide(ok_c, "R18.13", fn.loc(blk), fn.fq, "only module-scope bindings are exported",
               "the candidates inside function and class definitions are taken out" if ok_c else
               "candidate bindings are collected from the WHOLE tree of the imported module: a local variable, a function-level import or a class attribute named like the "
               "searched name makes the module look as if it exported it")


# ------------------------------------------------------------------------------------------------ R18.12
def _r18_12(prog: Program, res: Result) -> None:
    """An import inside a `try` statement is guarded: it may fail, and a handler binds the fallback (`try: import tomllib /
    except ImportError: import tomli as tomllib`, `except ImportError: asyncore = None`).  Moved to module level it fails
    unguarded - or, where it succeeds, leaves `try: pass`.  In move_imports_to_toplevel the collection whose elements are
    scheduled for removal + re-insertion must have the imports under ast.Try taken out: its definition chain (bindings,
    `-=`, difference_update, a filter in the loop) mentions a collection derived from a walk for ast.Try."""
    from ..defuse import bindings
    fn = prog.funcs.get(("fixes", "move_imports_to_toplevel"))
    if fn is None:
        raise AnalysisError("anchor fixes.move_imports_to_toplevel not found")
    # the loop whose body appends its variable to the removals
    # collections whose elements are yielded for deletion: `for r in R: yield r, None, ..`
    deleted = set()
    for lp in walk_own(fn.node):
        if isinstance(lp, ast.For) and isinstance(lp.target, ast.Name) and isinstance(lp.iter, ast.Name):
            for y in ast.walk(lp):
                if isinstance(y, ast.Yield) and isinstance(y.value, ast.Tuple) and len(y.value.elts) >= 2 and isinstance(y.value.elts[0], ast.Name) \
                        and y.value.elts[0].id == lp.target.id and isinstance(y.value.elts[1], ast.Constant) and y.value.elts[1].value is None:
                    deleted.add(lp.iter.id)
    loops = []
    for lp in walk_own(fn.node):
        if isinstance(lp, ast.For) and isinstance(lp.target, ast.Name):
            v = lp.target.id
            if any(isinstance(c, ast.Call) and isinstance(c.func, ast.Attribute) and c.func.attr in ("append", "add") and c.args and isinstance(c.args[0], ast.Name) and c.args[0].id == v
                   and isinstance(c.func.value, ast.Name) and c.func.value.id in deleted for c in ast.walk(lp)):
                loops.append(lp)
    if not loops:
        raise AnalysisError("move_imports_to_toplevel: loop that schedules the removals not found")
    for lp in loops:
        texts = [norm(lp.iter)]
        seen = set()
        todo = [x.id for x in ast.walk(lp.iter) if isinstance(x, ast.Name)]
        while todo:
            nm = todo.pop()
            if nm in seen:
                continue
            seen.add(nm)
            for st, v in bindings(fn).get(nm, []):
                if v is not None:
                    texts.append(norm(v))
                    todo += [x.id for x in ast.walk(v) if isinstance(x, ast.Name)]
            for x in walk_own(fn.node):
                if isinstance(x, ast.AugAssign) and isinstance(x.target, ast.Name) and x.target.id == nm and isinstance(x.op, (ast.Sub, ast.BitAnd)):
                    texts.append("-= " + norm(x.value))
                    todo += [y.id for y in ast.walk(x.value) if isinstance(y, ast.Name)]
                if isinstance(x, ast.Call) and isinstance(x.func, ast.Attribute) and x.func.attr in ("difference_update", "discard", "remove", "intersection_update") \
                        and isinstance(x.func.value, ast.Name) and x.func.value.id == nm:
                    texts.append("-= " + " ".join(norm(a) for a in x.args))
                    todo += [y.id for a in x.args for y in ast.walk(a) if isinstance(y, ast.Name)]
        # a filter at the top of the loop body
        for st in lp.body:
            if isinstance(st, ast.If) and any(isinstance(y, ast.Continue) for y in st.body):
                texts.append("skip if " + norm(st.test))
                for y in ast.walk(st.test):
                    if isinstance(y, ast.Name):
                        texts += [norm(v) for _s, v in bindings(fn).get(y.id, []) if v is not None]
        # R18.14: the names the moved imports bind must be free at module level
        free = any("get_defined_names" in t or ("isdisjoint" in t and "defined" in t) for t in texts) and any(("asname" in t and " if " in t) or "isdisjoint" in t for t in texts)
        res.decide(free, "R18.14", fn.loc(lp), fn.fq, f"for {lp.target.id} in {short(lp.iter, 50)} # names bound by the moved imports",
                   "only imports whose bound names are not defined in the module are moved" if free else
                   "an import is moved to module level although the module has a variable (function, class) of the name it binds: the hoisted `import json` and the module-level "
                   "`json = {..}` overwrite each other")
        # ... and free of OTHER IMPORTS that bind the name to something else (`from a import x` at module level, `from b import x`
        # in a function): the moved set is filtered by a collection computed from the import statements of the whole module
        # (aliases read: .names / .asname), found through the call graph, not by name
        other_imports = False
        for nm in seen:
            for _s, v in bindings(fn).get(nm, []):
                if v is None:
                    continue
                for c_ in ast.walk(v):
                    if isinstance(c_, ast.Call):
                        r_ = prog.resolve_call(c_.func, fn.mod, fn)
                        if r_ and r_[0] == "fn":
                            body = norm(r_[1].node)
                            if ".names" in body and ".asname" in body and ("ImportFrom" in body or "Import" in body) and ("module" in body) and "len(" in body:
                                other_imports = True
        res.decide(other_imports, "R18.14", fn.loc(lp), fn.fq, f"for {lp.target.id} in {short(lp.iter, 50)} # names bound by other imports",
                   "imports whose bound name another import binds to something else are not moved" if other_imports else
                   "an import is moved to module level although another import binds the same name to something else there (only variables count as taken): "
                   "`from a import x` at module level and `from z import x` inside a function - after the move one of the two wins for the whole module")
        removed = [t for t in texts if (t.startswith("-= ") or t.startswith("skip if ") or " if " in t) and "Try" in t] or \
                  [t for t in texts if "Try" in t and any(u.startswith("-= ") or u.startswith("skip if ") for u in texts)]
        ok = bool(removed)
        res.decide(ok, "R18.12", fn.loc(lp), fn.fq, f"for {lp.target.id} in {short(lp.iter, 50)} # imports scheduled for moving",
                   "imports under a try statement are taken out of the moved set" if ok else
                   "nothing takes the imports under `try:` out of the moved set: `try: import tomllib / except ImportError: import tomli as tomllib` becomes "
                   "`try: pass ...` plus an unguarded `import tomllib` at module level")


# ------------------------------------------------------------------------------------------------ R18.13 (census of __all__)
def _r18_13_census(prog: Program, res: Result) -> None:
    """The export model reads `__all__ = [..]`, `.extend([..])`, `.append("..")`.  Every OTHER way of building the list
    (`__all__ += [..]`, `__all__ = a.__all__ + [..]`, names taken from objects) leaves the model with too few names, and its negative
    answer "not exported" then unbinds a name the star import does bind.  Obligation: (a) the function that answers from the model
    gives up before the membership test whenever a census of the places that spell `__all__` does not equal the number of statements
    it understood (a repository predicate whose body walks `ast.Name(id="__all__")` and compares counts, negative on the path);
    (b) the predicate that decides whether a star import may be removed (R18.15) answers "cannot tell" under the same census."""
    from ..pathcond import PathAnalysis, plain
    census = [f for f in prog.funcs.values() if f.mod.name == "tracing" and "__all__" in norm(f.node) and "ast.Name(id='__all__')" in norm(f.node)
              and any(isinstance(c, ast.Compare) and isinstance(c.ops[0], (ast.NotEq, ast.Eq)) for r in walk_own(f.node) if isinstance(r, ast.Return) and r.value is not None for c in ast.walk(r.value))
              and len(f.posparams) == 1]
    names = {f.node.name for f in census}
    tr = prog.func("tracing", "trace_origin")
    # (a) the negative answers of the export model
    sites = []
    for r in walk_own(tr.node):
        if isinstance(r, ast.Return) and isinstance(r.value, ast.Constant) and r.value.value is None:
            t = parent(r)
            # `if <name> not in X: return None` where X is a local set filled from the elements of matched nodes (whatever it is called)
            if isinstance(t, ast.If) and isinstance(t.test, ast.Compare) and isinstance(t.test.ops[0], ast.NotIn) and isinstance(t.test.comparators[0], ast.Name) \
                    and isinstance(t.test.left, ast.Name) and t.test.left.id in tr.all_params:
                x_ = t.test.comparators[0].id
                filled = [c for c in ast.walk(tr.node) if isinstance(c, ast.Call) and isinstance(c.func, ast.Attribute) and c.func.attr in ("update", "add")
                          and isinstance(c.func.value, ast.Name) and c.func.value.id == x_ and (".elts" in norm(c) or ".args[0]" in norm(c))]
                if filled:
                    sites.append(r)
    if not sites:
        res.undecided("R18.13", tr.loc(), tr.fq, "negative answer of the export model", "`if name not in <filter>: return None` not found")
        return
    pa = PathAnalysis(prog, tr)
    for r in sites:
        worlds = pa.worlds_at(r)
        ok = bool(names) and bool(worlds) and all(any(f[0] == "lit" and not f[2] and any(plain(f[1]).startswith(n_ + "(") for n_ in names) for f in w.facts) for w in worlds)
        res.decide(ok, "R18.13", tr.loc(r), tr.fq, "name not in <names read from __all__> -> not exported # census of the places that spell __all__",
                   "answered only when every mention of __all__ was one of the statements the model reads" if ok else
                   "the model answers `not exported` from the statements it understands and never asks whether there are others: with `__all__ += ['name']` in the module "
                   "the name is taken for not exported, the star import is expanded without it and the name is unbound")
    # (a') the census counts what the model reads, WHERE the model reads it: the same templates, the same traversal.  A census that
    # counts `__all__ = [..]` anywhere in the tree while the model reads it at module level only takes a conditional assignment for
    # understood, and the model then answers from an empty filter.
    def readers(f: Func):
        out = set()
        for c in prog.calls_in(f):
            d_ = norm(c.func).split(".")[-1]
            if d_ in ("walk", "filter_nodes") and len(c.args) >= 2:
                tmpl = c.args[1]
                text = norm(tmpl)
                if isinstance(tmpl, ast.Name):
                    vals = [v for _s, v in bindings(f).get(tmpl.id, []) if v is not None] or ([f.mod.globals[tmpl.id]] if tmpl.id in f.mod.globals else [])
                    text = norm(vals[0]) if len(vals) == 1 else text
                if "__all__" in text:
                    where = "statements of the module" if norm(c.args[0]).endswith(".body") else "whole tree"
                    out.add((re.sub(r"\s+", "", text), where))
        return out
    model = readers(tr)
    for f in census:
        mine = readers(f)
        # the census also counts the plain mentions (ast.Name(id='__all__')): not a reader of the model
        mine = {m_ for m_ in mine if "Assign(" in m_[0] or "Call(" in m_[0]}
        theirs = {m_ for m_ in model if "Assign(" in m_[0] or "Call(" in m_[0]}
        # the model may hold further templates for __all__ (fix_reimported_names has its own): compare by template text
        wrong = sorted(w_ for t_, w_ in mine if (t_, w_) not in theirs and any(t_ == t2 for t2, _w2 in theirs))
        res.decide(not wrong and bool(mine), "R18.13", f.loc(), f.fq, f"{f.node.name}() # counts the statements the export model reads, where it reads them",
                   f"{len(mine)} readers, each with the traversal of the model" if not wrong and mine else
                   "the census looks for a statement in another place than the model does (" + ", ".join(wrong or ["no reader found"]) + "): a conditional `__all__ = [..]` counts as "
                   "understood, the model (module level only) has an empty filter and takes every public name for exported")
    # (b) the sibling predicate
    # the predicate is found the way R18.15 finds it: a one-argument repository call on the removed star import whose negative
    # outcome holds at the removal
    fs = prog.funcs.get(("tracing", "fix_starred_imports"))
    preds = {}
    if fs is not None:
        pa_fs = PathAnalysis(prog, fs)
        for y in [y for y in walk_own(fs.node) if isinstance(y, ast.Yield) and isinstance(y.value, ast.Tuple) and len(y.value.elts) >= 2
                  and isinstance(y.value.elts[1], ast.Constant) and y.value.elts[1].value is None]:
            victim = norm(y.value.elts[0])
            for c in prog.calls_in(fs):
                r_ = prog.resolve_call(c.func, fs.mod, fs)
                if r_ and r_[0] == "fn" and len(c.args) == 1 and norm(c.args[0]) == victim and pa_fs.holds_at(y, lambda w, c=c: pa_fs.formula(c, w, False))[0]:
                    preds[r_[1].key] = r_[1]
    for pred in preds.values():
        uses = any(isinstance(c, ast.Call) and norm(c.func) in names for c in ast.walk(pred.node))
        res.decide(uses, "R18.13", pred.loc(), pred.fq, f"{pred.node.name}() # census of the places that spell __all__",
                   "a module whose __all__ is built in a way that is not read is `cannot tell`" if uses else
                   "the predicate says `can tell` for a module whose __all__ is built with += or from other values: the star import is removed although names it binds were not seen")


# ------------------------------------------------------------------------------------------------ R18.19
TRACE_READ_KINDS = {"Import", "ImportFrom", "FunctionDef", "AsyncFunctionDef", "ClassDef", "Assign", "AnnAssign", "NamedExpr"}


def _r18_19(prog: Program, res: Result) -> None:
    """trace_origin answers "this is where the name gets its value" from the LAST node that binds it among the kinds it reads
    (import, def, class, =, annotated =, :=).  A name is also bound by `x += 1`, `for x in ..`, `with .. as x`, `except .. as x`,
    `del x`, match captures: where one of those follows, the answer names a binding that no longer holds, and a client's import
    is redirected to the module in which the name had an EARLIER value.  Obligation: every positive answer is given only after
    a census of the module-level stores of the name came out equal to the stores inside the kinds that are read (a repository
    predicate that counts `ast.Store` contexts, negative on the path)."""
    from ..pathcond import PathAnalysis, plain
    tr = prog.func("tracing", "trace_origin")
    census = [f for f in prog.funcs.values() if f.mod.name == "tracing" and "ast.Store" in norm(f.node) and len(f.posparams) == 2
              and any(isinstance(c, ast.Compare) and isinstance(c.ops[0], (ast.NotEq, ast.Eq)) for r in walk_own(f.node) if isinstance(r, ast.Return) and r.value is not None for c in ast.walk(r.value))]
    names = {f.node.name for f in census}
    for f in census:
        counted = {k for k in ("AugAssign", "For", "With", "ExceptHandler", "MatchAs") if f"ast.{k}" in norm(f.node)}
        generic = "ast.Store" in norm(f.node) and "ast.Del" in norm(f.node)
        res.decide(generic, "R18.19", f.loc(), f.fq, f"{f.node.name}() # census of the stores of a name",
                   "counts every Store / Del of the name, whatever statement it stands in" if generic else f"counts stores by statement kind only ({sorted(counted)})")
    positives = [r for r in walk_own(tr.node) if isinstance(r, ast.Return) and isinstance(r.value, ast.Call) and norm(r.value.func).endswith("_TraceResult")]
    if not positives:
        res.undecided("R18.19", tr.loc(), tr.fq, "positive answers of trace_origin", "none found")
        return
    pa = PathAnalysis(prog, tr)
    bad = None
    for r in positives:
        worlds = pa.worlds_at(r)
        ok = bool(names) and bool(worlds) and all(any(f[0] == "lit" and not f[2] and any(plain(f[1]).startswith(n_ + "(") for n_ in names) for f in w.facts) for w in worlds)
        if not ok:
            bad = bad or r
    res.decide(bad is None, "R18.19", tr.loc(bad) if bad is not None else tr.loc(positives[0]), tr.fq, f"{len(positives)} positive answers of trace_origin # binder kinds that are not read",
               "given only when every module-level store of the name is in a statement kind that is read" if bad is None else
               "an origin is answered from the kinds of binding that are read (" + ", ".join(sorted(TRACE_READ_KINDS)) + ") without asking whether the name is bound in another way "
               "afterwards: `from core import x` followed by `x += 1` (or `for x in ..`) is traced to core, and a client's `from mid import x` is redirected to `from core import x`")


# ------------------------------------------------------------------------------------------------ R18.20
def _r18_20(prog: Program, res: Result) -> None:
    """Which names must a star import provide?  Those that are used and not bound by the module ITSELF AT THE PLACE OF USE.  The rule that
    narrows star imports takes "referenced minus defined", and the census of definitions it subtracts counts every binding of the
    whole tree - parameters and locals of functions, class attributes.  A star-provided name that is used at module level and
    happens to be a local somewhere else is taken for defined, the import is narrowed without it, the use is a NameError.
    Instance: the producer of the subtracted definitions; obligation: it does not count parameters (ast.arg) - the one kind that is
    never a module-level binding - i.e. it is a census of module scope, not of the tree."""
    fs = prog.funcs.get(("tracing", "fix_starred_imports"))
    if fs is None:
        raise AnalysisError("anchor tracing.fix_starred_imports not found")
    # wanted names: iterated by the loop that calls trace_origin; follow to the repository function that subtracts definitions
    producers = []
    todo = [fs]
    seen = set()
    while todo:
        g = todo.pop()
        if g.key in seen:
            continue
        seen.add(g.key)
        for c in prog.calls_in(g):
            r = prog.resolve_call(c.func, g.mod, g)
            if r and r[0] == "fn" and r[1].mod.name == "tracing" and ("undefined" in norm(r[1].node.returns or ast.Constant(value="")) or any(
                    isinstance(b, ast.BinOp) and isinstance(b.op, ast.Sub) for rt in walk_own(r[1].node) if isinstance(rt, ast.Return) and rt.value is not None for b in ast.walk(rt.value))):
                producers.append(r[1])
    n = 0
    for p_ in {f.key: f for f in producers}.values():
        # the subtrahends of its returned difference that are repository calls
        for rt in [x for x in walk_own(p_.node) if isinstance(x, ast.Return) and x.value is not None]:
            names = [x.id for x in ast.walk(rt.value) if isinstance(x, ast.Name)]
            for nm in names:
                for _s, v in bindings(p_).get(nm, []):
                    if isinstance(v, ast.Call):
                        r = prog.resolve_call(v.func, p_.mod, p_)
                        if r and r[0] == "fn" and "ast.Store" in norm(r[1].node):
                            n += 1
                            whole_tree = "ast.arg" in norm(r[1].node)
                            res.decide(not whole_tree, "R18.20", r[1].loc(), r[1].fq, f"{r[1].node.name}() # the definitions subtracted from the names a star import may provide",
                                       "a census of module scope" if not whole_tree else
                                       "counts every binding of the whole tree, parameters (ast.arg) and function locals included: a name the star import provides that is used at "
                                       "module level and is also a local of some function is dropped from the narrowed import")
    if n == 0:
        res.undecided("R18.20", fs.loc(), fs.fq, "names a star import may provide", "producer of the subtracted definitions not found")


# ------------------------------------------------------------------------------------------------ R18.21
def _r18_22(prog: Program, res: Result) -> None:
    """`from os import *` binds `open`; from there on the module's `open` is os.open.  The rule that narrows a star import to the names
    the module takes from it asks the origin tracer for a set of candidate names.  If every operand of that set has the builtin names
    subtracted (the undefined-name analysis does: a builtin is never "undefined"), a builtin name that the star import rebinds is
    never a candidate, the narrowed import leaves it out, and the name falls back to the builtin.  Obligation: the candidates of the
    narrowing loop (the iterable of the `for` whose body calls the tracer and records names per star import) contain an operand that is
    NOT free of builtins: one whose defining expression intersects with the builtin table, or a producer that does not subtract it."""
    from ..defuse import bindings
    n = 0
    for fn in prog.funcs.values():
        if not fn.is_fix or fn.mod.name != "tracing":
            continue
        for lp in walk_own(fn.node):
            if not (isinstance(lp, ast.For) and isinstance(lp.target, ast.Name)):
                continue
            traces = [c for c in ast.walk(lp) if isinstance(c, ast.Call) and norm(c.func).split(".")[-1] == "trace_origin" and c.args and isinstance(c.args[0], ast.Name) and c.args[0].id == lp.target.id]
            records = [c for c in ast.walk(lp) if isinstance(c, ast.Call) and isinstance(c.func, ast.Attribute) and c.func.attr == "add" and c.args and isinstance(c.args[0], ast.Name) and c.args[0].id == lp.target.id]
            if not (traces and records):
                continue
            it = lp.iter
            while isinstance(it, ast.Call) and norm(it.func) in ("sorted", "list", "tuple", "set", "frozenset") and it.args:
                it = it.args[0]
            operands: List[ast.AST] = []
            todo = [it]
            while todo:
                x = todo.pop()
                if isinstance(x, ast.BinOp) and isinstance(x.op, ast.BitOr):
                    todo += [x.left, x.right]
                else:
                    operands.append(x)
            n += 1

            def builtin_free(e: ast.AST, depth: int = 0) -> bool:
                """True when the value of e cannot hold the name of a builtin."""
                if depth > 3:
                    return False
                if isinstance(e, ast.Name):
                    defs = [v for _s, v in bindings(fn).get(e.id, []) if v is not None]
                    return bool(defs) and all(builtin_free(v, depth + 1) for v in defs)
                if isinstance(e, ast.BinOp) and isinstance(e.op, ast.Sub):
                    return "BUILTIN_FUNCTIONS" in norm(e.right) or builtin_free(e.left, depth + 1)
                if isinstance(e, ast.BinOp) and isinstance(e.op, ast.BitAnd):
                    return "BUILTIN_FUNCTIONS" not in norm(e) and (builtin_free(e.left, depth + 1) or builtin_free(e.right, depth + 1))
                if isinstance(e, ast.Call):
                    if norm(e.func) in ("set", "frozenset", "sorted") and e.args:
                        return builtin_free(e.args[0], depth + 1)
                    r = prog.resolve_call(e.func, fn.mod, fn)
                    if r and r[0] == "fn":
                        rets = [x.value for x in walk_own(r[1].node) if isinstance(x, ast.Return) and x.value is not None]
                        return bool(rets) and all(_subtracts_builtins(v) for v in rets)
                return False
            holders = [o for o in operands if not builtin_free(o)]
            # an operand made from the option `preserve` holds what OTHER files want, not what this module reads: it is no witness
            reads = [o for o in holders if not any(isinstance(v, ast.AST) and "preserve" in norm(v) for nm in ([o.id] if isinstance(o, ast.Name) else []) for _s, v in bindings(fn).get(nm, []) if v is not None)
                     and "preserve" not in norm(o)]
            res.decide(bool(reads), "R18.22", fn.loc(lp), fn.fq, f"{short(lp.iter, 70)} # names traced to the star imports",
                       f"the candidates include names of builtins the module reads ({short(reads[0], 40)})" if reads else
                       "every operand of the candidate set has the builtin names subtracted: after `from os import *` the module's `open` is os.open, it is never traced to the "
                       "star import, the narrowed import leaves it out and `open` becomes the builtin")
    if n == 0:
        res.undecided("R18.22", "pyrefact/tracing.py:0", "tracing", "the loop that traces names to star imports", "none found (fix_starred_imports is expected)")


def _subtracts_builtins(e: ast.AST) -> bool:
    while isinstance(e, ast.BinOp) and isinstance(e.op, ast.Sub):
        if "BUILTIN_FUNCTIONS" in norm(e.right):
            return True
        e = e.left
    return False


def _r18_21(prog: Program, res: Result) -> None:
    """`.module` of an ImportFrom names a module only together with `.level`: `from .json import loads` and `from json import loads`
    have the same module text.  R18.1 follows the pair into constructed nodes and grouping dictionaries; this rule covers every
    other place where the module text becomes part of an IDENTITY - a tuple or an f-string that is compared, hashed or used as a
    key: it must mention the level of the same node (or the node is known to be absolute on the path: R18.7)."""
    from ..pathcond import PathAnalysis, plain
    n = 0
    for fn in prog.funcs.values():
        if fn.mod.name not in ("fixes", "tracing"):
            continue
        pa = None
        for e in walk_own(fn.node):
            if not isinstance(e, (ast.Tuple, ast.JoinedStr)) or isinstance(getattr(e, "ctx", None), ast.Store):
                continue
            if isinstance(parent(e), (ast.Tuple, ast.JoinedStr)):
                continue
            mods = [x for x in ast.walk(e) if isinstance(x, ast.Attribute) and x.attr == "module" and isinstance(x.value, ast.Name)
                    and not isinstance(parent(x), ast.keyword)]
            # a constructor call inside the tuple is R18.1's business
            mods = [x for x in mods if not any(isinstance(a, ast.Call) and norm(a.func).startswith("ast.") for a in __import__("sa.model", fromlist=["ancestors"]).ancestors(x) if a is not e
                                                and any(a is y for y in ast.walk(e)))]
            if not mods:
                continue
            n += 1
            who = mods[0].value.id
            has_level = any(isinstance(x, ast.Attribute) and x.attr == "level" and isinstance(x.value, ast.Name) and x.value.id == who for x in ast.walk(e))
            ok, why = has_level, f"the level of {who} is part of it"
            if not ok:
                pa = pa or PathAnalysis(prog, fn)
                worlds = pa.worlds_at(e)
                absolute = bool(worlds) and all(any(f[0] == "lit" and ((not f[2] and plain(f[1]) == f"{who}.level") or (f[2] and plain(f[1]).replace(" ", "") in (f"eq(0,{who}.level)", f"eq({who}.level,0)"))) for f in w.facts) for w in worlds)
                ok, why = absolute, f"{who} is known to be an absolute import here"
            res.decide(ok, "R18.21", fn.loc(e), fn.fq, f"{short(e, 70)} # the module of an import as part of an identity", why if ok else
                       f"`{who}.module` identifies the origin without `{who}.level`: a relative import and an absolute import of the same module text count as the same origin "
                       "(`from .json import loads` / `from json import loads`)")
    if n == 0:
        res.undecided("R18.21", "pyrefact/", "package", "identities built from the module of an import", "none found")


# ------------------------------------------------------------------------------------------------ R18.18
def _r18_18(prog: Program, res: Result) -> None:
    """Contradiction rule for the standard-library table.  A function that asks `X in constants.PYTHON_311_STDLIB` more than once
    decides with one test WHETHER an import is handled and with another HOW: move_imports_to_toplevel selects the movable
    imports with the first test and chooses between "re-insert at the top" and "skip" with the second.  If one test reduces
    the module name to its first component (`email.utils` -> `email`) and the other asks for the full name, an import passes
    the first and fails the second: it is removed from the function and never put back.  Obligation: all membership tests
    against the table inside one function use the same key form (full dotted name, or first component)."""
    n = 0
    for fn in prog.funcs.values():
        forms = {}
        for c in walk_own(fn.node):
            if not (isinstance(c, ast.Compare) and len(c.ops) == 1 and isinstance(c.ops[0], (ast.In, ast.NotIn)) and "PYTHON_311_STDLIB" in norm(c.comparators[0])):
                continue
            key = c.left
            texts = [norm(key)]
            if isinstance(key, ast.Name):
                texts += [norm(v) for _s, v in bindings(fn).get(key.id, []) if v is not None]
            first = any(".split('.')[0]" in t or ".partition('.')[0]" in t for t in texts)
            forms.setdefault("first component" if first else "full name", []).append(c)
        total = sum(len(v) for v in forms.values())
        if total < 2:
            continue
        n += 1
        ok = len(forms) == 1
        where = (forms.get("first component") or [None])[0] if not ok else next(iter(forms.values()))[0]
        res.decide(ok, "R18.18", fn.loc(where), fn.fq, f"{total} tests against the standard-library table",
                   f"all by {next(iter(forms))}" if ok else
                   f"{len(forms.get('full name', []))} test(s) ask for the full module name, {len(forms.get('first component', []))} for its first component: a dotted "
                   "standard-library module that is not listed itself (`email.utils`, `importlib.util`) passes one and fails the other - the from-import is taken out of "
                   "its function and the re-insertion is skipped")
    if n == 0:
        res.undecided("R18.18", "pyrefact/", "package", "functions with several standard-library tests", "none found")


# ------------------------------------------------------------------------------------------------ R18.11
def _r18_11(prog: Program, res: Result) -> None:
    """When is a second import a DUPLICATE that may be deleted?  Only if it binds the same name to the same module in the
    same statement list: `import slowimpl as impl` in an `except ImportError:` branch, or the same import inside another
    function, binds the name where the first one does not.  For every helper of fix_duplicate_imports that collects
    import statements in a dict of lists and deletes all but the first of a list: (a) the dict key contains the imported
    module (`alias.name` for plain imports; `node.module` - with `node.level`, R18.1 - for from-imports); (b) the
    statements of one list come from ONE block: they are drawn from an iteration over statement lists
    (_group_statements_of_type, or the body / orelse / finalbody lists of the scopes), not from a walk of the whole tree -
    or the key carries the block."""
    from ..defuse import bindings
    entry = prog.funcs.get(("fixes", "fix_duplicate_imports"))
    if entry is None:
        raise AnalysisError("anchor fixes.fix_duplicate_imports not found")
    helpers = []
    for c in prog.calls_in(entry):
        r = prog.resolve_call(c.func, entry.mod, entry)
        if r and r[0] == "fn" and r[1] not in helpers:
            helpers.append(r[1])
    n = 0
    for fn in helpers:
        # D[K].append(node): the collection of candidate duplicates
        for c in walk_own(fn.node):
            if not (isinstance(c, ast.Call) and isinstance(c.func, ast.Attribute) and c.func.attr == "append" and isinstance(c.func.value, ast.Subscript)
                    and isinstance(c.func.value.value, ast.Name) and c.args and isinstance(c.args[0], ast.Name)):
                continue
            dname, key, nodevar = c.func.value.value.id, c.func.value.slice, c.args[0].id
            if not any(isinstance(v, ast.Call) and norm(v.func).endswith("defaultdict") and v.args and norm(v.args[0]) == "list" for _s, v in bindings(fn).get(dname, []) if v is not None):
                continue
            # is it the dict whose lists lose all but their first element?  (some `X[1:]` of its values is deleted / replaced)
            if not any(isinstance(x, ast.Subscript) and isinstance(x.slice, ast.Slice) and norm(x.slice.lower or ast.Constant(0)) == "1" for x in ast.walk(fn.node)):
                continue
            n += 1
            key_names = {x.id for x in ast.walk(key) if isinstance(x, ast.Name)}
            key_text = norm(key)
            expanded = key_text
            for nm in key_names:
                for _s, v in bindings(fn).get(nm, []):
                    if v is not None:
                        expanded += " " + norm(v)
            def always_names_module(e: ast.AST, depth: int = 0) -> bool:
                """e mentions the imported module (X.module / alias.name) on EVERY way it can be evaluated"""
                if depth > 4:
                    return False
                if isinstance(e, ast.Attribute) and e.attr in ("module", "name"):
                    return True
                if isinstance(e, ast.IfExp):
                    return always_names_module(e.body, depth) and always_names_module(e.orelse, depth)
                if isinstance(e, ast.BoolOp):
                    return all(always_names_module(v, depth) for v in e.values)
                if isinstance(e, ast.Name):
                    defs = [v for _s, v in bindings(fn).get(e.id, []) if v is not None]
                    return bool(defs) and all(always_names_module(v, depth + 1) for v in defs)
                if isinstance(e, (ast.Tuple, ast.List)):
                    return any(always_names_module(x, depth) for x in e.elts)
                return False
            has_module = always_names_module(key)
            # where do the statements come from?
            loops = []
            a = parent(c)
            while a is not None and a is not fn.node:
                if isinstance(a, (ast.For, ast.AsyncFor)):
                    loops.append(a)
                a = parent(a)
            node_loop = next((l for l in loops if any(isinstance(t, ast.Name) and t.id == nodevar for t in ast.walk(l.target))), None)
            whole_tree = node_loop is not None and isinstance(node_loop.iter, ast.Call) and (prog.dotted(node_loop.iter.func) or "").split(".")[-1] == "walk"
            outer_vars = {t.id for l in loops if l is not node_loop for t in ast.walk(l.target) if isinstance(t, ast.Name)} - {nodevar}
            # loop variables of loops that enclose the node loop (the block / group being processed)
            enclosing_node_loop = [l for l in loops if node_loop is not None and l is not node_loop and any(x is node_loop for x in ast.walk(l))]
            block_vars = {t.id for l in enclosing_node_loop for t in ast.walk(l.target) if isinstance(t, ast.Name)}
            def block_source(it: ast.AST, depth: int = 0) -> bool:
                """does iterating `it` yield statement lists (or runs of statements of one list)?"""
                if depth > 3:
                    return False
                if isinstance(it, ast.Call) and isinstance(it.func, ast.Name) and it.func.id in ("enumerate", "list", "tuple", "sorted", "reversed") and it.args:
                    return block_source(it.args[0], depth)
                if isinstance(it, ast.Call):
                    r_ = prog.resolve_call(it.func, fn.mod, fn)
                    if r_ and r_[0] == "fn":
                        return any((prog.dotted(c2.func) or "").split(".")[-1] == "walk_sequence" for c2 in prog.calls_in(r_[1]))
                    return False
                if isinstance(it, ast.Name):
                    defs = [v for _s, v in bindings(fn).get(it.id, []) if v is not None]
                    return bool(defs) and all(block_source(v, depth + 1) for v in defs)
                if isinstance(it, (ast.GeneratorExp, ast.ListComp)):
                    elt = it.elt
                    inner = {g.target.id: g.iter for g in it.generators if isinstance(g.target, ast.Name)}
                    if isinstance(elt, ast.Name) and elt.id in inner:
                        elt = inner[elt.id]
                    txt = norm(elt) + " " + " ".join(norm(g.iter) for g in it.generators)
                    return "getattr(" in txt and any(f in txt for f in ("'body'", '"body"', "field")) or any(f".{f}" in txt for f in ("body", "orelse", "finalbody"))
                if isinstance(it, ast.Attribute):
                    return it.attr in ("body", "orelse", "finalbody")
                return False
            outer_ok = bool(enclosing_node_loop) and block_source(enclosing_node_loop[0].iter)
            per_block = (node_loop is not None and not whole_tree and outer_ok) or bool(key_names & block_vars) and outer_ok
            # a dict created INSIDE the loop over blocks is per block as well
            created_inside = any(any(isinstance(t, ast.Name) and t.id == dname for t in (st.targets if isinstance(st, ast.Assign) else [])) for l in enclosing_node_loop for st in ast.walk(l))
            per_block = per_block and (created_inside or bool(key_names & block_vars))
            problems = []
            if not has_module:
                problems.append(f"the key `{key_text}` does not contain the imported module: two modules imported under one name count as duplicates (`import fast as impl` / `import slow as impl`)")
            if not per_block:
                problems.append(f"the candidates are drawn from {'a walk of the whole tree' if whole_tree else 'more than one statement list'} and the key does not carry the block: "
                                "an import in an except / else branch or in another function is deleted as a duplicate of the first one")
            res.decide(not problems, "R18.11", fn.loc(c), fn.fq, short(c, 70),
                       "duplicates = same module, same bound name, same statement list" if not problems else "; ".join(problems))
    if n == 0:
        raise AnalysisError("no duplicate-import collection found in the helpers of fix_duplicate_imports")


def re_search_name(text: str) -> bool:
    import re as _re
    return bool(_re.search(r"\balias\.name\b|\.name\b", text))


# ------------------------------------------------------------------------------------------------ R18.5
def _asname_none_guard(node: ast.AST, x: str, stop: ast.AST) -> Optional[str]:
    """A syntactic reason why `<x>.asname is None` holds where node is evaluated."""
    is_none = {f"{x}.asname is None", f"not {x}.asname", f"{x}.asname == None"}
    not_none = {f"{x}.asname is not None", f"{x}.asname", f"{x}.asname != None"}
    child = node
    a = parent(node)
    while a is not None and child is not stop:
        if isinstance(a, ast.BoolOp) and isinstance(a.op, ast.And):
            idx = next((i for i, v in enumerate(a.values) if v is child), None)
            if idx is not None and any(norm(v) in is_none for v in a.values[:idx]):
                return "conjunct `asname is None` in front of it"
        if isinstance(a, ast.BoolOp) and isinstance(a.op, ast.Or):
            idx = next((i for i, v in enumerate(a.values) if v is child), None)
            if idx is not None and any(norm(v) in not_none for v in a.values[:idx]):
                return "reached only when `asname is not None` was false"
        if isinstance(a, (ast.If, ast.IfExp)):
            t = norm(a.test)
            body = a.body if isinstance(a.body, list) else [a.body]
            orelse = a.orelse if isinstance(a.orelse, list) else [a.orelse]
            if any(child is b for b in body) and t in is_none:
                return "inside `if asname is None`"
            if any(child is b for b in orelse) and t in not_none:
                return "in the else branch of `if asname is not None`"
        if isinstance(a, ast.comprehension):
            idx = next((i for i, v in enumerate(a.ifs) if v is child), None)
            if idx is not None and any(norm(v) in is_none for v in a.ifs[:idx]):
                return "comprehension filter `asname is None` in front of it"
        child, a = a, parent(a)
    return None


def _r18_5(prog: Program, res: Result) -> None:
    """The name an import alias BINDS is `asname` if there is one, else `name`.  Looking an alias up by the name it
    binds must therefore compare `alias.name` only where `alias.asname is None` holds; comparing `alias.name`
    unconditionally also finds `from m import f as g` when asked for f - a name the importing module does not bind
    (or binds to something else), so a reference is redirected to a different object."""
    n = 0
    for fn in prog.funcs.values():
        if fn.mod.name not in ("tracing", "fixes", "parsing"):
            continue
        alias_vars = {a.value.id for a in walk_own(fn.node) if isinstance(a, ast.Attribute) and a.attr == "asname" and isinstance(a.value, ast.Name)}
        if not alias_vars:
            continue
        for c in walk_own(fn.node):
            if not (isinstance(c, ast.Compare) and len(c.ops) == 1 and isinstance(c.ops[0], (ast.Eq, ast.NotEq, ast.In, ast.NotIn))):
                continue
            left, right = c.left, c.comparators[0]
            for mine, other in ((left, right), (right, left)):
                cands = [mine] + (list(mine.elts) if isinstance(mine, (ast.Tuple, ast.List, ast.Set)) and isinstance(c.ops[0], (ast.In, ast.NotIn)) else [])
                hit = next((m for m in cands if isinstance(m, ast.Attribute) and m.attr == "name" and isinstance(m.value, ast.Name) and m.value.id in alias_vars), None)
                if hit is None:
                    continue
                x = hit.value.id
                if isinstance(other, ast.Constant):
                    continue          # alias.name != "*"
                if any(isinstance(o, ast.Attribute) and isinstance(o.value, ast.Name) and o.value.id == x for o in ast.walk(other)):
                    continue          # alias.asname != alias.name: two fields of the same alias
                if isinstance(mine, ast.Tuple) and isinstance(other, ast.Tuple):
                    continue          # field-wise comparison of two (name, asname) pairs
                n += 1
                why = _asname_none_guard(c, x, fn.node)
                res.decide(why is not None, "R18.5", fn.loc(c), fn.fq, short(c, 80),
                           f"`{x}.name` is the bound name here: {why}" if why else
                           f"`{x}.name` is compared with a bound name although `{x}.asname` may be set: `import f as g` is found under the name f, which it does not bind")
                break
    res.analysed["alias_name_comparisons"] = n


# ------------------------------------------------------------------------------------------------ R18.7
def _r18_7(prog: Program, res: Result) -> None:
    """`X.module` of a from-import is an ABSOLUTE module name only if `X.level == 0`: `from .utils import f` has module
    'utils' and level 1 and names a sibling of the importing file, not the top-level module utils.  Every place where the
    tracing code treats X.module as an absolute name - handing it to the module locator, to importlib / __import__ /
    find_spec, or testing it against the table of standard library modules - must be reached only when X.level is
    zero (path condition)."""
    ABSOLUTE_USERS = ("_trace_module_source_file", "import_module", "__import__", "find_spec")
    n = 0
    for fn in prog.funcs.values():
        if fn.mod.name != "tracing":
            continue
        uses = []
        for c in prog.calls_in(fn):
            if norm(c.func).split(".")[-1] in ABSOLUTE_USERS and c.args and isinstance(c.args[0], ast.Attribute) and c.args[0].attr == "module" \
                    and isinstance(c.args[0].value, ast.Name):
                uses.append((c, c.args[0].value.id, short(c, 60)))
        for cmp_ in walk_own(fn.node):
            if isinstance(cmp_, ast.Compare) and len(cmp_.ops) == 1 and isinstance(cmp_.ops[0], (ast.In, ast.NotIn)) and isinstance(cmp_.left, ast.Attribute) \
                    and cmp_.left.attr == "module" and isinstance(cmp_.left.value, ast.Name) and "STDLIB" in norm(cmp_.comparators[0]):
                uses.append((cmp_, cmp_.left.value.id, short(cmp_, 60)))
        if not uses:
            continue
        pa = PathAnalysis(prog, fn)
        for node, subj, text in uses:
            n += 1
            lvl = f"{subj}.level"
            # any spelling of "the level is zero": the path condition must entail one of them
            spellings = [(f"{lvl}", False), (f"{lvl} == 0", True), (f"{lvl} != 0", False), (f"{lvl} > 0", False), (f"{lvl} >= 1", False), (f"{lvl} < 1", True)]
            ok = pa.reached(node) and any(
                pa.holds_at(node, lambda w, t=t, pol=pol: pa.formula(ast.parse(t, mode="eval").body, w, pol))[0] for t, pol in spellings)
            res.decide(ok, "R18.7", fn.loc(node), fn.fq, text,
                       f"reached only when {lvl} is 0" if ok else
                       f"`{subj}.module` is used as an absolute module name although `{subj}.level` may be non-zero: a relative import (`from .utils import f`) is "
                       "resolved as the top-level module of that name, and an unrelated module decides what the import is rewritten to")
    res.analysed["absolute_uses_of_importfrom_module"] = n


# ------------------------------------------------------------------------------------------------ R18.9
def _bool_struct(e: ast.AST):
    """Boolean structure of a test over opaque atoms; `x not in S` is not(in(x, S))."""
    if isinstance(e, ast.BoolOp):
        return ("and" if isinstance(e.op, ast.And) else "or", [_bool_struct(v) for v in e.values])
    if isinstance(e, ast.UnaryOp) and isinstance(e.op, ast.Not):
        return ("not", _bool_struct(e.operand))
    if isinstance(e, ast.Compare) and len(e.ops) == 1 and isinstance(e.ops[0], (ast.In, ast.NotIn)):
        a = ("atom", f"in({norm(e.left)}, {norm(e.comparators[0])})")
        return a if isinstance(e.ops[0], ast.In) else ("not", a)
    return ("atom", norm(e))


def _struct_atoms(s) -> set:
    if s[0] == "atom":
        return {s[1]}
    if s[0] == "not":
        return _struct_atoms(s[1])
    return set().union(*[_struct_atoms(x) for x in s[1]]) if s[1] else set()


def _eval_struct(s, env) -> bool:
    if s[0] == "atom":
        return env[s[1]]
    if s[0] == "not":
        return not _eval_struct(s[1], env)
    vals = [_eval_struct(x, env) for x in s[1]]
    return all(vals) if s[0] == "and" else any(vals)


def _assignments(atoms):
    import itertools
    for bits in itertools.product((False, True), repeat=len(atoms)):
        yield dict(zip(atoms, bits))


# ------------------------------------------------------------------------------------------------ R18.9
def _r18_9(prog: Program, res: Result) -> None:
    """`import a.b` binds the name `a`.  It is in use whenever `a` is - also when the text `a.b` never occurs (`a.x`).
    The unused-import computation compares imported names with the dotted names that occur; for a dotted import it must
    fall back on the first component (some `.split('.')[0]` / `.partition('.')` of the imported names on the way to the
    result)."""
    fn = prog.funcs.get(("fixes", "_get_unused_imports"))
    if fn is None:
        raise AnalysisError("anchor fixes._get_unused_imports not found")
    rets = [r for r in walk_own(fn.node) if isinstance(r, ast.Return) and r.value is not None]
    blob = " ".join(norm(r.value) for r in rets)
    for r in rets:
        for x in ast.walk(r.value):
            if isinstance(x, ast.Name):
                blob += " " + " ".join(norm(d) for _, d in assignments(fn, x.id) if d is not None)
    first_component = any(k in blob for k in (".split('.')[0]", '.split(".")[0]', ".partition('.')[0]", '.partition(".")[0]'))
    # ... and the fallback is a NECESSARY condition of "unused": the filter of the comprehension that builds the result must
    # entail `first component not in <used names>` (propositional entailment over the atoms of the filter; a disjunct that
    # reports a dotted import as unused for another reason - "the bare package is imported somewhere as well" - breaks it)
    if first_component:
        comps = []
        for r in rets:
            cands = [r.value] + [d for x in ast.walk(r.value) if isinstance(x, ast.Name) for _, d in assignments(fn, x.id) if d is not None]
            comps += [c for c in cands if isinstance(c, (ast.SetComp, ast.ListComp, ast.GeneratorExp)) and any("split" in norm(i) or "partition" in norm(i) for g in c.generators for i in g.ifs)]
        for c in comps:
            conds = [i for g in c.generators for i in g.ifs]
            struct = ("and", [_bool_struct(i) for i in conds])
            atoms = sorted(_struct_atoms(struct))
            goal_atoms = [a for a in atoms if re.fullmatch(r"in\((\w+)\.(split|partition)\((['\"])\.\3\)\[0\], *\w+\)", a)]
            necessary = False
            for ga in goal_atoms:
                necessary = necessary or all(not env[ga] for env in _assignments(atoms) if _eval_struct(struct, env))
            first_component = first_component and necessary
            if not necessary:
                res.bad("R18.9", fn.loc(c), fn.fq, f"{short(c, 90)} # which imports are unused",
                        "the filter lets a dotted import through as unused although its first component is in use: `import a.b` is removed while `a.x` still "
                        "needs the name it binds (the test of the first component must hold for every name that is reported)")
                return
    res.decide(first_component, "R18.9", fn.loc(rets[-1]) if rets else fn.loc(), fn.fq, "dotted imports",
               "a dotted import counts as used when its first component is used" if first_component else
               "an import `a.b` is unused as soon as the text `a.b` does not occur, although `a.x` uses the name it binds: `import a.b` is removed and `a` becomes a NameError")


# ------------------------------------------------------------------------------------------------ R18.8
def _r18_8(prog: Program, res: Result) -> None:
    """`__import__("a.b")` returns the package `a`, not the module `a.b` (it is the primitive behind `import a.b`, which
    binds `a`).  Where the exports of the module named by an import statement are examined, the module object must be
    obtained with importlib.import_module (or a non-empty fromlist) - otherwise `from os.path import *` is judged by
    the names of `os`.  Instance: every `__import__(X)` with one argument in the tracing code whose result is inspected;
    discharged if X is shown to contain no dot."""
    n = 0
    for fn in prog.funcs.values():
        if fn.mod.name != "tracing":
            continue
        pa = None
        for c in prog.calls_in(fn):
            if not (isinstance(c.func, ast.Name) and c.func.id == "__import__"):
                continue
            n += 1
            has_fromlist = len(c.args) >= 4 or any(k.arg == "fromlist" for k in c.keywords)
            ok = has_fromlist
            why = "fromlist given: the submodule itself is returned" if ok else ""
            if not ok and c.args:
                pa = pa or PathAnalysis(prog, fn)
                subj = norm(c.args[0])
                worlds = pa.worlds_at(c)
                ok = bool(worlds) and all(world_has(w, False, lambda t, s_=subj: t.replace(" ", "") in (f"in('.',{s_})", f"'.'in{s_}")) for w in worlds)
                why = "reached only for names without a dot" if ok else ""
            res.decide(ok, "R18.8", fn.loc(c), fn.fq, short(c, 60),
                       why if ok else
                       "__import__ of a dotted module name returns the TOP-LEVEL package: the exports examined for `from os.path import *` are those of `os`; "
                       "names of os.path are 'not exported' (the star import is deleted), names of os are attributed to os.path")
    if n == 0:
        res.ok("R18.8", "pyrefact/tracing.py:0", "tracing", "__import__ of module names", "not used", trivial=True)


# ------------------------------------------------------------------------------------------------ R18.6
def _r18_6(prog: Program, res: Result) -> None:
    """A star import binds names the tool cannot see.  It may be deleted only if it is PROVABLY unused: (a) in
    fix_starred_imports the deletion of the star imports no name was attributed to is reached only when no undefined
    name of the module was left untraced (an untraced name may come from an untraceable star import: a module of
    another platform, a C extension, a package that is not installed here); (b) the unused-import rule never counts
    the pseudo-name `*` as an unused import."""
    fn = prog.funcs.get(("tracing", "fix_starred_imports"))
    if fn is None:
        raise AnalysisError("anchor tracing.fix_starred_imports not found")
    # collections filled where tracing FAILED: X.add(name) in the else branch of `if <trace_origin(..)>` / under `not ...`
    untraced: Set[str] = set()
    for i in walk_own(fn.node):
        if isinstance(i, ast.If) and "trace_origin(" in norm(i.test):
            neg = isinstance(i.test, ast.UnaryOp) and isinstance(i.test.op, ast.Not)
            branch = i.body if neg else i.orelse
            for x in walk_body(branch):
                if isinstance(x, ast.Call) and isinstance(x.func, ast.Attribute) and x.func.attr in ("add", "append") and isinstance(x.func.value, ast.Name):
                    untraced.add(x.func.value.id)
    dels = [y for y in walk_own(fn.node) if isinstance(y, ast.Yield) and isinstance(y.value, ast.Tuple) and len(y.value.elts) >= 2
            and isinstance(y.value.elts[1], ast.Constant) and y.value.elts[1].value is None]
    pa = PathAnalysis(prog, fn)
    for y in dels:
        ok = False
        if untraced:
            worlds = pa.worlds_at(y)
            ok = bool(worlds) and all(any(world_has(w, False, lambda t, u=u: t == u or t == f"len({u}) > 0") for u in untraced) for w in worlds)
        how = f"reached only when no undefined name was left untraced ({sorted(untraced)} empty)"
        if not ok:
            # the other sufficient condition: the export list of THIS import can be determined (R18.15 judges the predicate), so a
            # name that was not traced to it does not come from it
            victim = norm(y.value.elts[0])
            for c in prog.calls_in(fn):
                r = prog.resolve_call(c.func, fn.mod, fn)
                if r and r[0] == "fn" and len(c.args) == 1 and norm(c.args[0]) == victim and pa.holds_at(y, lambda w, c=c: pa.formula(c, w, False))[0] \
                        and any(isinstance(x, ast.Return) and isinstance(x.value, ast.Constant) and x.value.value is True for x in walk_own(r[1].node)):
                    ok, how = True, f"reached only when {r[1].node.name}() said that the export list of the import can be determined (R18.15)"
        res.decide(ok, "R18.6", fn.loc(y), fn.fq, f"{short(y, 50)} # deletion of a star import",
                   how if ok else
                   "star imports to which no name could be attributed are deleted even when undefined names of unknown origin remain: a name that comes from an "
                   "untraceable module (other platform, C extension, not installed) loses its binding")
    if not dels:
        res.ok("R18.6", fn.loc(), fn.fq, "deletion of a star import", "star imports are never deleted here", trivial=True)
    ui = prog.funcs.get(("fixes", "_get_unused_imports"))
    sp = prog.funcs.get(("fixes", "_get_unused_imports_split"))
    gi = prog.funcs.get(("tracing", "get_imported_names"))
    texts = " ".join(norm(f.node) for f in (ui, sp, gi, prog.funcs.get(("tracing", "_get_imports"))) if f is not None)
    star_aware = "'*'" in texts
    res.decide(star_aware, "R18.6", ui.loc() if ui else "pyrefact/fixes.py:0", "fixes._get_unused_imports", "the pseudo-name * of a star import",
               "never counted as an unused import" if star_aware else
               "`*` is an imported name that is never 'used', so every star import is removed as an unused import (after fix_starred_imports expanded what it could "
               "trace): names from untraceable modules lose their binding")


# ---------------------------------------------------------------------------------------------- self-test
from ..selftest import Variant  # noqa: E402

VARIANTS = [
    Variant("builtin-names-never-traced-to-a-star-import", "FIRE", "tracing",
            "    for name in sorted(undefined_names | passed_on_names | shadowed_builtins):", "    for name in sorted(undefined_names | passed_on_names):", "R18.22"),
    Variant("builtin-names-subtracted-again", "FIRE", "tracing",
            "    for name in sorted(undefined_names | passed_on_names | shadowed_builtins):", "    for name in sorted((undefined_names | passed_on_names | shadowed_builtins) - constants.BUILTIN_FUNCTIONS):", "R18.22"),
    Variant("read-names-minus-own-bindings-as-candidates", "SILENT", "tracing",
            "    for name in sorted(undefined_names | passed_on_names | shadowed_builtins):",
            "    read_and_not_bound_here = _get_referenced_names(root) - get_defined_names(root) - get_imported_names(root)\n    for name in sorted(read_and_not_bound_here | passed_on_names):"),
    Variant("origin-answered-without-the-census-of-stores", "FIRE", "tracing", "    if _is_bound_in_a_way_that_is_not_read(name, root):\n        return None  # x += 1, for x in ..: where its value comes from cannot be said\n\n", "", "R18.19"),
    Variant("export-model-answers-without-the-census", "FIRE", "tracing", "        if _export_list_is_opaque(root):\n            return None  # Neither \"exported\" nor \"not exported\" can be said of any name\n\n", "", "R18.13"),
    Variant("star-import-predicate-without-the-census", "FIRE", "tracing", "    return _export_list_is_opaque(origin_root)\n", "    return False\n", "R18.13"),
    Variant("imports-hoisted-over-imports-of-the-same-name", "FIRE", "fixes", "    ambiguous_names = _names_imported_from_several_origins(root)\n    imports_movable_to_toplevel = {\n        node\n        for node in imports_movable_to_toplevel\n        if ambiguous_names.isdisjoint(\n            (alias.asname or alias.name).split(\".\")[0] for alias in node.names\n        )\n    }\n", "", "R18.14"),
    Variant("dotted-import-unused-when-the-bare-package-is-imported-somewhere", "FIRE", "fixes", '    return {name for name in imports - names - {"*"} if name.split(".")[0] not in names}\n',
            '    return {\n        name\n        for name in imports - names - {"*"}\n        if name.split(".")[0] not in names or ("." in name and name.split(".")[0] in imports)\n    }\n', "R18.9"),
    Variant("unused-imports-filtered-by-a-further-conjunct", "SILENT", "fixes", '    return {name for name in imports - names - {"*"} if name.split(".")[0] not in names}\n',
            '    return {\n        name\n        for name in imports - names - {"*"}\n        if not name.startswith("__") and name.split(".")[0] not in names\n    }\n'),
    Variant("function-level-imports-redirected-again", "FIRE", "tracing", "    for node in core.filter_nodes(root.body, ast.ImportFrom):\n        if node.level:", "    for node in core.walk(root, ast.ImportFrom):\n        if node.level:", "R18.17"),
    Variant("insertion-line-from-any-scope", "FIRE", "tracing", "        (node.lineno for node in core.filter_nodes(root.body, (ast.ImportFrom, ast.Import))),", "        (node.lineno for node in core.walk(root, (ast.ImportFrom, ast.Import))),", "R18.17"),
    Variant("module-level-imports-by-isinstance", "SILENT", "tracing", "    for node in core.filter_nodes(root.body, ast.ImportFrom):\n        if node.level:", "    for node in [statement for statement in root.body if isinstance(statement, ast.ImportFrom)]:\n        if node.level:", "R18.17"),
    Variant("same-name-imports-keep-their-order", "REPAIRED", "fixes", "        sorted_nodes = sorted(nodes, key=_import_group_key)\n", "        bound_objects = collections.defaultdict(set)\n        for node in nodes:\n            for alias in node.names:\n                origin = (getattr(node, \"level\", None), getattr(node, \"module\", None), alias.name)\n                bound_objects[(alias.asname or alias.name).split(\".\")[0]].add(origin)\n\n        if \"*\" in bound_objects or any(len(origins) > 1 for origins in bound_objects.values()):\n            continue\n\n        sorted_nodes = sorted(nodes, key=_import_group_key)\n", "R18.16"),
    Variant("opaque-star-imports-removed-again", "FIRE", "tracing", "        if _is_opaque_star_import(node):\n            continue  # No name was traced to it because what it binds is not known\n\n", "", "R18.15"),
    Variant("predicate-forgets-relative-imports", "FIRE", "tracing", "    if node.level or node.module is None:\n        return True\n\n    origin = _trace_module_source_file(node.module)\n    if origin in", "    if node.module is None:\n        return True\n\n    origin = _trace_module_source_file(node.module)\n    if origin in", "R18.15"),
    Variant("predicate-forgets-extension-modules", "FIRE", "tracing", "    if origin is None or Path(origin).suffix != \".py\":\n        return True\n\n    try:", "    if origin is None:\n        return True\n\n    try:", "R18.15"),
    Variant("predicate-forgets-unparsable-modules", "FIRE", "tracing", "    except (OSError, UnicodeDecodeError, SyntaxError):\n        return True  # The other module cannot be read, or is not valid python", "    except (OSError, UnicodeDecodeError):\n        return True", "R18.15"),
    Variant("star-counts-as-unused-import", "FIRE", "fixes", "    return {name for name in imports - names - {\"*\"} if name.split(\".\")[0] not in names}", "    return {name for name in imports - names if name.split(\".\")[0] not in names}", "R18.6"),
    Variant("predicate-tests-in-one-expression", "SILENT", "tracing", "    if node.level or node.module is None:\n        return True\n\n    origin = _trace_module_source_file(node.module)\n    if origin in", "    if node.level:\n        return True\n    if node.module is None:\n        return True\n\n    origin = _trace_module_source_file(node.module)\n    if origin in", "R18.15"),
    Variant("imports-hoisted-onto-taken-names", "FIRE", "fixes",
            "    defined_names = tracing.get_defined_names(root)\n    imports_movable_to_toplevel = {\n        node\n        for node in imports_movable_to_toplevel\n        if defined_names.isdisjoint(\n            (alias.asname or alias.name).split(\".\")[0] for alias in node.names\n        )\n    }\n", "", "R18.14"),
    Variant("underscore-names-exported-again", "FIRE", "tracing", "        elif name.startswith(\"_\"):\n            return None  # Without __all__, a star import leaves out the names with a leading underscore\n", "", "R18.13"),
    Variant("all-as-a-list-only", "FIRE", "tracing", "                ast.Tuple(elts={ast.Constant(value=str)}),\n            ),\n        )\n", "            ),\n        )\n", "R18.13"),
    Variant("guarded-imports-hoisted", "FIRE", "fixes",
            "    imports_movable_to_toplevel -= {\n        node\n        for try_node in core.walk(root, ast.Try)\n        for node in core.walk(try_node, (ast.Import, ast.ImportFrom))\n    }\n", "", "R18.12"),
    Variant("guarded-imports-skipped-in-the-loop", "SILENT", "fixes",
            "    imports_movable_to_toplevel -= {\n        node\n        for try_node in core.walk(root, ast.Try)\n        for node in core.walk(try_node, (ast.Import, ast.ImportFrom))\n    }\n",
            "    guarded = {\n        node\n        for try_node in core.walk(root, ast.Try)\n        for node in core.walk(try_node, (ast.Import, ast.ImportFrom))\n    }\n    imports_movable_to_toplevel.difference_update(guarded)\n"),
    Variant("duplicate-imports-grouped-by-bound-name-only", "FIRE", "fixes", "                import_nodes[(i, alias.name, asname)].append(node)", "                import_nodes[(i, asname)].append(node)", "R18.11"),
    Variant("duplicate-imports-across-blocks", "FIRE", "fixes", "                import_nodes[(i, alias.name, asname)].append(node)", "                import_nodes[(alias.name, asname)].append(node)", "R18.11"),
    Variant("duplicate-from-imports-over-the-whole-tree", "FIRE", "fixes", "    for group in _group_statements_of_type(root, ast.ImportFrom):\n        module_import_aliases = collections.defaultdict(set)",
            "    for group in [list(core.walk(root, ast.ImportFrom))]:\n        module_import_aliases = collections.defaultdict(set)", "R18.11"),
    Variant("dotted-import-unused-when-not-spelled-out", "FIRE", "fixes",
            "    return {name for name in imports - names - {\"*\"} if name.split(\".\")[0] not in names}\n", "    return imports - names - {\"*\"}\n", "R18.9"),
    Variant("reimported-names-ignore-level", "FIRE", "tracing",
            "    for node in core.filter_nodes(root.body, ast.ImportFrom):\n        if node.level:\n            continue  # A relative import, node.module is not the name of a top level module\n\n",
            "    for node in core.filter_nodes(root.body, ast.ImportFrom):\n", "R18.7"),
    Variant("level-tested-explicitly-against-zero", "SILENT", "tracing",
            "    for node in core.filter_nodes(root.body, ast.ImportFrom):\n        if node.level:\n            continue  # A relative import, node.module is not the name of a top level module\n\n",
            "    for node in core.filter_nodes(root.body, ast.ImportFrom):\n        if node.level != 0:\n            continue\n\n"),
    Variant("dunder-import-of-dotted-module-names", "FIRE", "tracing",
            "                if origin in {\"frozen\", \"built-in\"}:\n                    try:\n                        module = importlib.import_module(node.module)  # __import__('a.b') would return a",
            "                if origin in {\"frozen\", \"built-in\"}:\n                    try:\n                        module = __import__(node.module)", "R18.8"),
    Variant("dunder-import-with-fromlist", "SILENT", "tracing",
            "                if origin in {\"frozen\", \"built-in\"}:\n                    try:\n                        module = importlib.import_module(node.module)  # __import__('a.b') would return a",
            "                if origin in {\"frozen\", \"built-in\"}:\n                    try:\n                        module = __import__(node.module, fromlist=[\"*\"])"),
    Variant("star-imports-kept-while-names-are-untraced", "SILENT", "tracing",
            "    for name in sorted(undefined_names | passed_on_names | shadowed_builtins):\n        if trace_result := trace_origin(name, source):\n            if core.match_template(trace_result.ast, template):\n                starred_import_name_mapping[trace_result.ast].add(name)\n",
            "    untraced_names = set()\n    for name in sorted(undefined_names | passed_on_names | shadowed_builtins):\n        if trace_result := trace_origin(name, source):\n            if core.match_template(trace_result.ast, template):\n                starred_import_name_mapping[trace_result.ast].add(name)\n        else:\n            untraced_names.add(name)\n",
            extra=[("tracing", "    # Remove remaining starred imports\n    for node in core.filter_nodes(root.body, template):", "    if untraced_names:\n        return\n\n    for node in core.filter_nodes(root.body, template):")]),
    Variant("alias-found-under-its-original-name", "FIRE", "tracing",
            "                    original_name = next(\n                        alias.name\n                        for alias in module_import_node.names\n                        if alias.asname == name or (alias.asname is None and alias.name == name)\n                    )",
            "                    original_name = next(\n                        alias.name\n                        for alias in module_import_node.names\n                        if name in (alias.asname, alias.name)\n                    )", "R18.5"),
    Variant("alias-bound-name-as-conditional-expression", "SILENT", "tracing",
            "                    original_name = next(\n                        alias.name\n                        for alias in module_import_node.names\n                        if alias.asname == name or (alias.asname is None and alias.name == name)\n                    )",
            "                    original_name = next(\n                        alias.name\n                        for alias in module_import_node.names\n                        if (alias.name if alias.asname is None else alias.asname) == name\n                    )"),
    Variant("toplevel-move-drops-level", "FIRE", "fixes", "            module=node.module, names=node.names, level=node.level, lineno=safe_position_lineno", "            module=node.module, names=node.names, level=0, lineno=safe_position_lineno", "R18.1"),
    Variant("sorted-aliases-drop-level", "FIRE", "fixes",
            "                names=[ast.alias(name=name, asname=asname) for name, asname in expected_names],\n                level=node.level,", "                names=[ast.alias(name=name, asname=asname) for name, asname in expected_names],\n                level=0,", "R18.1"),
    Variant("text-constructor-drops-dots", "FIRE", "fixes", "    return f\"from {'.' * node.level}{node.module or ''} import {names}\"", "    return f\"from {node.module or ''} import {names}\"", "R18.2"),
    Variant("future-imports-counted", "FIRE", "tracing", "        if node.module != \"__future__\":\n            yield node", "        yield node", "R18.4"),
    Variant("level-through-local", "SILENT", "fixes",
            "        new_node = ast.ImportFrom(\n            module=node.module, names=node.names, level=node.level, lineno=safe_position_lineno\n        )",
            "        level = node.level\n        new_node = ast.ImportFrom(\n            module=node.module, names=node.names, level=level, lineno=safe_position_lineno\n        )"),
]

META = {
    "design_ref": "DESIGN.md section 3, C18",
    "technique": "field-propagation dataflow (module/level of constructed ImportFrom nodes, grouping keys) + mention checks + guard check of alias lookups by bound name; propositional entailment of comprehension filters; sibling agreement of the two readers of a star-imported module; contradiction rule for standard-library key forms; origin census of import-bound names; def-use of the candidate set of the star-import narrowing (builtin-free operands)",
    "level_text": ("Decides on the current source that a constructed from-import never takes its module from an existing "
                   "import node without taking that node's level, that dictionaries grouping imports by module also key on "
                   "the level, that the textual constructor keeps the dots, and that __future__ imports are never counted "
                   "as unused. It does not decide origin tracing (file system, sys.path, importlib at run time)."),
    "level_note": "Trusted: CPython ast; def-use helpers; the path-condition engine for `level == 0` guards.",
}
